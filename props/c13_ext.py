"""C13 (extension): the setters / getters of IPhreeqc.cpp as a simple store (file names, per-user-number selected-output switches and
file name, current user number, error switch), the documented defaults (switches off, file names built from the instance id AFTER the
id is taken), and the C / Fortran wrappers the generated forwarding units of props/C13.py leave out (Create / Destroy / GetVersionString
/ Output*, CreateIPhreeqcF / GetVersionStringF / GetSelectedOutputValueF, IPhreeqcLib::CreateIPhreeqc / DestroyIPhreeqc)."""
from props.c13_ext_util import *

VRN = ["VR_OK", "VR_OUTOFMEMORY", "VR_BADVARTYPE", "VR_INVALIDARG", "VR_INVALIDROW", "VR_INVALIDCOL"]
IPQN = ["IPQ_OK", "IPQ_OUTOFMEMORY", "IPQ_BADVARTYPE", "IPQ_INVALIDARG", "IPQ_INVALIDROW", "IPQ_INVALIDCOL", "IPQ_BADINSTANCE"]
TTN = ["TT_EMPTY", "TT_ERROR", "TT_LONG", "TT_DOUBLE", "TT_STRING"]
DOC = {"VR_OK": 0, "VR_OUTOFMEMORY": -1, "VR_BADVARTYPE": -2, "VR_INVALIDARG": -3, "VR_INVALIDROW": -4, "VR_INVALIDCOL": -5,
       "IPQ_OK": 0, "IPQ_OUTOFMEMORY": -1, "IPQ_BADVARTYPE": -2, "IPQ_INVALIDARG": -3, "IPQ_INVALIDROW": -4, "IPQ_INVALIDCOL": -5, "IPQ_BADINSTANCE": -6}


def enums():
    ev = A.enum_values_compiled("IPhreeqc.h", VRN + IPQN + TTN)
    for k, v in DOC.items():
        if ev.get(k) != v:
            raise Undecided("enumerator %s = %s, documented %s" % (k, ev.get(k), v))
    return ev


def cur0(ex, s):
    return fld0(ex, s, "CurrentSelectedOutputUserNumber", "I")


# ---------------------------------------------------------------------------------------------------------------- file names
def unit_file_names(twin=False):
    """Set<X>FileName(name): a non-null, non-empty name is stored in <X>FileName and nothing else of the instance is written; a null or
    empty name is rejected and changes nothing.  Get<X>FileName() returns the text of the SAME member.  (Dump additionally forwards the
    stored name to the engine's dump_info.)"""
    r = U.new_unit("C13.store.file_names", IPQ, "IPhreeqc::SetOutputFileName", A.find_function(IPQ, "IPhreeqc::SetOutputFileName"))
    fname = param(0, "filename", "P")
    n_acc = n_rej = 0
    for X in ("Output", "Error", "Log", "Dump"):
        f, ex, fin, info = run(IPQ, "IPhreeqc::Set%sFileName" % X, c=ctx(functional=("strlen",)))
        ln = tm.app("call:strlen", (tm.NULL, fname), "I")
        valid = tm.and_(tm.not_(tm.eq(fname, NULLP)), tm.not_(tm.eq(ln, tm.num(0, "I"))))
        field = None
        for s in alive(fin):
            asg = evs(s, "operator=", "assign")
            oth = [e for e in evs(s) if e not in asg and short(e) != "strlen"]
            wr = all_writes(s)
            hyp = list(s.pc) + [tm.le(tm.num(0, "I"), ln)]
            if asg or oth or wr:
                n_acc += 1
                ok(r, "%s.stores_only_a_non_null_non_empty_name" % X, proved(hyp, valid), "a path that writes has path condition %r" % (s.pc,), backend="z3-5.1")
                good = len(asg) == 1 and field_of_recv(asg[0].recv) is not None and asg[0].recv.args[1] is THIS and fname in tm.subterms(asg[0].args[0])
                ok(r, "%s.valid_name_stored_in_one_member" % X, good, repr(asg)[:200])
                if good:
                    field = field_of_recv(asg[0].recv)
                    ok(r, "%s.member_is_%sFileName" % (X, X), field == X + "FileName", field)
                if X == "Dump":
                    fw = [e for e in oth if short(e) == "Set_file_name"]
                    good2 = len(fw) == 1 and field is not None and repr(fw[0].args[0]).find(field) >= 0 and "dump_info" in repr(fw[0].recv)
                    ok(r, "Dump.stored_name_forwarded_to_engine_dump_info", good2, repr(fw)[:200], kind="trace")
                    oth = [e for e in oth if e not in fw]
                ok(r, "%s.valid.nothing_else_touched" % X, not oth and not wr, repr(oth)[:120] + repr(wr)[:120], kind="frame")
            else:
                n_rej += 1
                ok(r, "%s.only_a_null_or_empty_name_is_dropped" % X, proved(hyp, tm.not_(valid)), "a path that stores nothing has path condition %r" % (s.pc,), backend="z3-5.1")
        g, ex2, fin2, _ = run(IPQ, "IPhreeqc::Get%sFileName" % X)
        fin2 = alive(fin2, ("ret",))
        if len(fin2) != 1:
            ok(r, "%s.getter_single_path" % X, False, "%d paths" % len(fin2)); continue
        gs = fin2[0]
        wantf = field or (X + "FileName")
        if twin and X == "Log":
            wantf = "OutputFileName"
        want = tm.app("c_str", (fld0(ex2, gs, wantf, "S"),), "P")
        ok(r, "%s.getter_returns_text_of_the_member_the_setter_wrote" % X, gs.ret is want, "%r vs %r" % (gs.ret, want))
        ok(r, "%s.getter_changes_nothing" % X, not all_writes(gs) and not evs(gs), "", kind="frame")
    reach(r, "reach.accepting_and_rejecting_paths", n_acc == 4 and n_rej >= 4, "accept=%d reject=%d" % (n_acc, n_rej))
    r.assumptions += ["std::string::operator=(const char*) stores the text of its argument; c_str() returns the text of the string (library)",
                      "strlen is a function of its argument"]
    return r


# ------------------------------------------------------------------------------------- per-user-number selected-output settings
def unit_selected_output_store(twin=False):
    """SetSelectedOutputFileOn / SetSelectedOutputStringOn / SetSelectedOutputFileName write the entry of THEIR map under the CURRENT
    user number (and nothing else); the getters read the entry under the current user number of the same map (the two boolean getters
    through get_sel_out_file_on / get_sel_out_string_on, which carry their own units under C05.switch.*)."""
    r = U.new_unit("C13.store.selected_output_settings_per_user_number", IPQ, "IPhreeqc::SetSelectedOutputFileOn", A.find_function(IPQ, "IPhreeqc::SetSelectedOutputFileOn"))
    bv = param(0, "bValue", "B")
    n_ok = 0
    for X, mp, guard in (("FileOn", "SelectedOutputFileOnMap", True), ("StringOn", "SelectedOutputStringOn", False)):
        f, ex, fin, _ = run(IPQ, "IPhreeqc::SetSelectedOutput" + X)
        for s in alive(fin):
            cur = cur0(ex, s)
            m = tm.app("fld:" + mp, (THIS,), "P")
            wr = all_writes(s)
            vals = [(k, ix, v) for k, ix, v in wr if k[1] == "#mval"]
            rest = [(k, ix, v) for k, ix, v in wr if k[1] not in ("#mval", "#mhas", "#msize")]
            if guard and proved(s.pc, tm.lt(cur, tm.num(0, "I"))):
                ok(r, "%s.negative_current_user_number_rejected_changes_nothing" % X, not wr, repr(wr)[:200], kind="frame")
                continue
            n_ok += 1
            key = cur if not (twin and X == "StringOn") else tm.add(cur, tm.num(1, "I"))
            good = len(vals) == 1 and vals[0][1][0] is m and proved(s.pc, tm.eq(vals[0][1][1], key))
            ok(r, "%s.entry_of_%s_under_current_user_number_written" % (X, mp), good, repr(vals)[:200])
            ok(r, "%s.value_written_is_the_argument" % X, len(vals) == 1 and proved(s.pc, tm.eq(tm.to_bool(vals[0][2]), tm.to_bool(bv))), repr(vals)[:200])
            has = [(k, ix, v) for k, ix, v in wr if k[1] == "#mhas"]
            ok(r, "%s.no_other_key_and_no_other_member_touched" % X, not rest and all(ix[0] is m and proved(s.pc, tm.eq(ix[1], cur)) for k, ix, v in has) and not [e for e in evs(s) if not is_idx(e)], repr(rest)[:200], kind="frame")
        g, ex2, fin2, _ = run(IPQ, "IPhreeqc::GetSelectedOutput" + X)
        fin2 = alive(fin2, ("ret",))
        callee = "get_sel_out_file_on" if X == "FileOn" else "get_sel_out_string_on"
        for gs in fin2:
            cl = evs(gs, callee)
            good = len(cl) == 1 and cl[0].recv is THIS and cl[0].args[0] is cur0(ex2, gs) and gs.ret is cl[0].result and len(evs(gs)) == 1
            ok(r, "%s.getter_reads_the_switch_of_the_current_user_number(via_%s)" % (X, callee), good and len(fin2) == 1, repr(evs(gs))[:200])
            ok(r, "%s.getter_changes_nothing" % X, not all_writes(gs), "", kind="frame")
    # file name
    fname = param(0, "filename", "P")
    f, ex, fin, _ = run(IPQ, "IPhreeqc::SetSelectedOutputFileName", c=ctx(functional=("strlen",)))
    ln = tm.app("call:strlen", (tm.NULL, fname), "I")
    valid = tm.and_(tm.not_(tm.eq(fname, NULLP)), tm.not_(tm.eq(ln, tm.num(0, "I"))))
    mname = tm.app("fld:SelectedOutputFileNameMap", (THIS,), "P")
    seen = set()
    for s in alive(fin):
        cur = cur0(ex, s)
        asg = evs(s, "operator=", "assign")
        idx = [e for e in evs(s) if is_idx(e)]
        wr = [(k, ix, v) for k, ix, v in all_writes(s) if k[1] not in ("#mhas", "#msize")]
        hyp = list(s.pc) + [tm.le(tm.num(0, "I"), ln)]
        if asg or idx or wr:
            seen.add("valid")
            ok(r, "FileName.stores_only_a_non_null_non_empty_name", proved(hyp, valid), "a path that writes has path condition %r" % (s.pc,), backend="z3-5.1")
            good = len(idx) == 1 and idx[0].recv is mname and proved(s.pc, tm.eq(idx[0].args[0], cur))
            ok(r, "FileName.entry_under_current_user_number_selected", good, repr(idx)[:200])
            good = len(asg) == 1 and len(idx) == 1 and "SelectedOutputFileNameMap" in repr(asg[0].recv) and cur in tm.subterms(asg[0].recv) and fname in tm.subterms(asg[0].args[0])
            ok(r, "FileName.that_entry_assigned_the_argument_text", good, repr(asg)[:200])
            oth = [e for e in evs(s) if e not in asg and e not in idx and short(e) != "strlen"]
            ok(r, "FileName.nothing_else_touched", not oth and not wr, repr(oth)[:200], kind="frame")
        else:
            seen.add("invalid")
            ok(r, "FileName.only_a_null_or_empty_name_is_dropped", proved(hyp, tm.not_(valid)) and not all_writes(s), "a path that stores nothing has path condition %r" % (s.pc,), backend="z3-5.1")
    g, ex2, fin2, _ = run(IPQ, "IPhreeqc::GetSelectedOutputFileName")
    for gs in alive(fin2, ("ret",)):
        cur = cur0(ex2, gs)
        has = tm.select(ex2.heap_arr(gs, ("m2", "#mhas", "B", "I")), mname, cur)
        if gs.ret is not None and gs.ret.op == "sym" and gs.ret.args[0].startswith("&static."):
            seen.add("get_absent")
            ok(r, "FileName.getter_returns_empty_string_constant_only_without_entry_for_current_user_number", proved(gs.pc, tm.not_(has)), repr(gs.pc)[:200], backend="z3-5.1")
        else:
            seen.add("get_present")
            good = gs.ret is tm.app("c_str", (tm.select(ex2.heap_arr(gs, ("m2", "#mval", "S", "I")), mname, cur),), "P") and proved(gs.pc, has)
            ok(r, "FileName.getter_returns_text_stored_under_current_user_number", good, "%r under %r" % (gs.ret, gs.pc))
        ok(r, "FileName.getter_changes_nothing", not all_writes(gs), "", kind="frame")
    reach(r, "reach.all_cases", n_ok == 2 and seen == {"valid", "invalid", "get_present", "get_absent"}, "%d %r" % (n_ok, sorted(seen)))
    r.assumptions += ["std::map<int,T> model: operator[] selects (creating if absent) the entry of its key; find/end", "get_sel_out_file_on / get_sel_out_string_on: units C05.switch.* (the second is a known finding there)"]
    return r


def unit_current_user_number(twin=False):
    """SetCurrentSelectedOutputUserNumber(n): n >= 0 is stored and VR_OK returned; a negative n is rejected with VR_INVALIDARG and changes
    nothing.  GetCurrentSelectedOutputUserNumber returns the stored number.  SetErrorOn / GetErrorOn store / return PHRQ_io::error_on."""
    ev = enums()
    q = "IPhreeqc::SetCurrentSelectedOutputUserNumber"
    c = ctx(); c.enum_values.update(ev)
    f, ex, fin, _ = run(IPQ, q, c=c)
    r = U.new_unit("C13.store.current_user_number_and_error_switch", IPQ, q, f)
    n = param(0, "n", "I")
    seen = set()
    for s in alive(fin, ("ret",)):
        wr = all_writes(s)
        if wr:
            seen.add("ok")
            ok(r, "stores_only_a_nonnegative_number", proved(s.pc, tm.le(tm.num(0, "I"), n)), repr(s.pc)[:200], backend="z3-5.1")
            good = len(wr) == 1 and wr[0][0] == ("f", "CurrentSelectedOutputUserNumber", "I") and wr[0][1] == (THIS,) and wr[0][2] is n
            ok(r, "nonnegative.stored_in_CurrentSelectedOutputUserNumber_only", good and not evs(s), repr(wr)[:200])
            U.discharge_valid(r, "nonnegative.returns_VR_OK", list(s.pc), tm.eq(ex.coerce(s.ret, "I"), tm.num(ev["VR_OK"] if not twin else ev["VR_INVALIDARG"], "I")))
        else:
            seen.add("neg")
            ok(r, "rejects_only_a_negative_number", proved(s.pc, tm.lt(n, tm.num(0, "I"))), repr(s.pc)[:200], backend="z3-5.1")
            ok(r, "negative.changes_nothing", not evs(s), repr(evs(s))[:200], kind="frame")
            U.discharge_valid(r, "negative.returns_VR_INVALIDARG", list(s.pc), tm.eq(ex.coerce(s.ret, "I"), tm.num(ev["VR_INVALIDARG"], "I")))
    g, ex2, fin2, _ = run(IPQ, "IPhreeqc::GetCurrentSelectedOutputUserNumber")
    fin2 = alive(fin2, ("ret",))
    ok(r, "getter_returns_CurrentSelectedOutputUserNumber", len(fin2) == 1 and fin2[0].ret is cur0(ex2, fin2[0]) and not all_writes(fin2[0]) and not evs(fin2[0]), repr([x.ret for x in fin2])[:120])
    # error switch: two levels (IPhreeqc::SetErrorOn -> PHRQ_io::Set_error_on -> error_on)
    f, ex, fin, _ = run(IPQ, "IPhreeqc::SetErrorOn")
    fin = alive(fin)
    e = evs(fin[0], "Set_error_on") if len(fin) == 1 else []
    ok(r, "SetErrorOn.forwards_argument_to_Set_error_on_of_this_instance", len(e) == 1 and e[0].recv is THIS and e[0].args[0] is param(0, "bValue", "B") and len(evs(fin[0])) == 1 and not all_writes(fin[0]), repr(e)[:160], kind="trace")
    f, ex, fin, _ = run(IPQ, "PHRQ_io::Set_error_on")
    fin = alive(fin)
    wr = all_writes(fin[0]) if len(fin) == 1 else []
    ok(r, "Set_error_on.stores_argument_in_error_on_only", len(wr) == 1 and wr[0][0][1] == "error_on" and wr[0][1] == (THIS,) and param(0, "tf", "B") in tm.subterms(wr[0][2]) and not evs(fin[0]), repr(wr)[:160])
    f, ex, fin, _ = run(IPQ, "IPhreeqc::GetErrorOn")
    fin = alive(fin, ("ret",))
    e = evs(fin[0], "Get_error_on") if len(fin) == 1 else []
    ok(r, "GetErrorOn.returns_Get_error_on_of_this_instance", len(e) == 1 and e[0].recv is THIS and fin[0].ret is e[0].result and not all_writes(fin[0]), repr(e)[:160], kind="trace")
    f, ex, fin, _ = run(IPQ, "PHRQ_io::Get_error_on")
    fin = alive(fin, ("ret",))
    ok(r, "Get_error_on.returns_error_on", len(fin) == 1 and tm.to_bool(fin[0].ret) is tm.to_bool(fld0(ex, fin[0], "error_on", "B")) and not all_writes(fin[0]), repr([x.ret for x in fin])[:120])
    reach(r, "reach.both_cases", seen == {"ok", "neg"}, repr(sorted(seen)))
    return r


UNITS = [
    ("C13.store.file_names", unit_file_names),
    ("C13.store.selected_output_settings_per_user_number", unit_selected_output_store),
    ("C13.store.current_user_number_and_error_switch", unit_current_user_number),
]


# ---------------------------------------------------------------------------------------------------------------- defaults
DOC_DEFAULTS = {"OutputFileOn": False, "LogFileOn": False, "ErrorFileOn": False, "DumpOn": False, "DumpStringOn": False, "OutputStringOn": False,
                "LogStringOn": False, "ErrorStringOn": True, "CurrentSelectedOutputUserNumber": 1}
DOC_NAMES = {"OutputFileName": ("phreeqc", "out"), "ErrorFileName": ("phreeqc", "err"), "LogFileName": ("phreeqc", "log"), "DumpFileName": ("dump", "out")}


def _insert_handler(c):
    def ins(ex, st, n, name, recv, args):
        st.events.append(SX.Event("map.insert", recv, args, tm.num(0, "I"), n))
        return [(st, tm.num(0, "I"))]
    c.handlers["insert"] = ins


def _stream_shape(s, idx_term, params):
    """what a function streams into its (single) ostringstream, in order; adjacent literals merged; returns (shape, ok_single_stream_and_returned)"""
    out = []
    oss = [e for e in evs(s) if e.name.startswith("ctor ") and "ostringstream" in e.name]
    chain = None
    for e in evs(s):
        if "operator<<" not in e.name:
            continue
        if chain is None:
            if not oss or e.recv is not oss[0].recv:
                return out, False
        elif e.recv is not chain:
            return out, False
        chain = e.result
        a = e.args[0]
        lit = strlit(a)
        if lit is not None:
            if out and isinstance(out[-1], str) and not out[-1].startswith("<"):
                out[-1] += lit
            else:
                out.append(lit)
        elif a is idx_term:
            out.append("<id>")
        elif a in params:
            out.append("<%s>" % params[a])
        else:
            out.append("<?%r>" % (a,))
    st = evs(s, "str")
    return out, len(oss) == 1 and len(st) == 1 and st[0].recv is oss[0].recv and s.ret is st[0].result


def unit_defaults(twin=False):
    """A new instance has the documented initial settings (all file / string switches off except the error string, user number 1,
    error switch on) and the documented default file names, which embed the instance id: every default name is built by
    create_file_name / sel_file_name AFTER the id has been taken from the counter, create_file_name yields <prefix>.<id>.<suffix> and
    sel_file_name selected_<n>.<id>.out.  UnLoadDatabase (run by the constructor and by every LoadDatabase) returns the per-user-number
    switches to {1: off} and the current user number to 1."""
    fn = A.find_function(IPQ, "IPhreeqc::IPhreeqc")
    r = U.new_unit("C13.defaults.initial_settings_and_file_names_embed_the_id", IPQ, "IPhreeqc::IPhreeqc", fn)
    # (a) member initialisers
    inits = {}
    ex0 = StaticOK(ctx())
    for c in fn.get("inner", []):
        if c.get("kind") == "CXXCtorInitializer" and c.get("anyInit", {}).get("name") in DOC_DEFAULTS and c.get("inner"):
            try:
                v = ex0.ev(c["inner"][0], SX.State())[0][1]
            except Undecided:
                v = None
            inits[c["anyInit"]["name"]] = v
    for m, d in sorted(DOC_DEFAULTS.items()):
        v = inits.get(m)
        if twin and m == "LogStringOn":
            d = True
        if v is None:
            r.add("initial.%s" % m, UNDECIDED, "ast", 0, "no member initialiser with a constant value found"); continue
        if isinstance(d, bool):
            good = tm.to_bool(v) is (tm.TRUE if d else tm.FALSE)
        else:
            good = tm.isnum(v) and v.args[0] == d
        ok(r, "initial.%s==%s" % (m, str(d).lower()), good, repr(v))
    # error switch of the base class
    f, ex, fin, _ = run(PIO, "PHRQ_io::PHRQ_io")
    fin = alive(fin)
    wr = [v for k, ix, v in all_writes(fin[0]) if k[1] == "error_on"] if len(fin) == 1 else []
    ok(r, "initial.error_on==true(PHRQ_io_constructor)", len(wr) >= 1 and tm.to_bool(wr[-1]) is tm.TRUE, repr(wr))
    # (b) constructor body
    c = ctx(); c.log_stores = True; _insert_handler(c)
    f, ex, fin, _ = run(IPQ, "IPhreeqc::IPhreeqc", c=c)
    fin = alive(fin)
    if len(fin) != 1:
        ok(r, "constructor.single_path", False, "%d paths" % len(fin)); return r
    s = fin[0]
    E = [e for e in s.events if not isinstance(e, tuple)]
    pos = {id(e): k for k, e in enumerate(E)}
    idst = [e for e, f_, v in stores(s, THIS, "Index")]
    builders = [e for e in E if short(e) in ("create_file_name", "sel_file_name")]
    good = len(idst) == 1 and bool(builders) and all(pos[id(idst[0])] < pos[id(b)] for b in builders)
    if twin:
        pass
    ok(r, "constructor.id_taken_before_any_default_file_name_is_built", good, "Index stored at event %s, names built at %s" % ([pos[id(e)] for e in idst], [pos[id(b)] for b in builders]), kind="trace")
    asg = [e for e in E if short(e) in ("operator=", "assign")]
    for m, (pre, suf) in sorted(DOC_NAMES.items()):
        a = [e for e in asg if field_of_recv(e.recv) == m and e.recv.args[1] is THIS]
        b = [x for x in builders if a and x.result is a[-1].args[0]]
        good = len(a) == 1 and len(b) == 1 and short(b[0]) == "create_file_name" and b[0].recv is THIS and [strlit(x) for x in b[0].args] == [pre, suf]
        ok(r, "constructor.%s=create_file_name(%s,%s)" % (m, pre, suf), good, repr(a)[:100] + repr(b)[:160], kind="trace")
    fw = [e for e in E if short(e) == "Set_file_name" and "dump_info" in repr(e.recv)]
    ok(r, "constructor.default_dump_name_forwarded_to_engine_dump_info", len(fw) == 1 and "DumpFileName" in repr(fw[0].args[0]) and all(pos[id(fw[0])] > pos[id(e)] for e in asg if field_of_recv(e.recv) == "DumpFileName"), repr(fw)[:160], kind="trace")
    sa = [e for e in asg if "SelectedOutputFileNameMap" in repr(e.recv)]
    sb = [x for x in builders if sa and x.result is sa[-1].args[0]]
    idx = [e for e in E if is_idx(e) and field_of_recv(e.recv) == "SelectedOutputFileNameMap"]
    good = len(sa) == 1 and len(sb) == 1 and short(sb[0]) == "sel_file_name" and len(idx) == 1 and tm.isnum(idx[0].args[0]) and tm.isnum(sb[0].args[0]) and idx[0].args[0].args[0] == sb[0].args[0].args[0] == 1
    ok(r, "constructor.SelectedOutputFileNameMap[1]=sel_file_name(1)", good, repr(sa)[:100] + repr(sb)[:100], kind="trace")
    for mp in ("SelectedOutputFileOnMap", "SelectedOutputStringOn"):
        m_ = tm.app("fld:" + mp, (THIS,), "P")
        one = tm.num(1, "I")
        has = tm.select(s.heap.get(("m2", "#mhas", "B", "I"), ex.heap_arr(s, ("m2", "#mhas", "B", "I"))), m_, one)
        val = tm.select(s.heap.get(("m2", "#mval", "B", "I"), ex.heap_arr(s, ("m2", "#mval", "B", "I"))), m_, one)
        ok(r, "constructor.%s[1]==false" % mp, has is tm.TRUE and tm.to_bool(val) is tm.FALSE, "%r %r" % (has, val))
    # (c) the builders
    for q, want, pn in (("sel_file_name", ["selected_", "<n_user>", ".", "<id>", ".out"], {param(0, "n_user", "I"): "n_user"}),
                        ("create_file_name", ["<prefix>", ".", "<id>", ".", "<suffix>"], {param(0, "prefix", "P"): "prefix", param(1, "suffix", "P"): "suffix"})):
        f, ex, fin, _ = run(IPQ, "IPhreeqc::" + q)
        fin = alive(fin, ("ret",))
        if len(fin) != 1:
            ok(r, q + ".single_path", False, "%d" % len(fin)); continue
        shape, single = _stream_shape(fin[0], fld0(ex, fin[0], "Index", "I"), pn)
        if twin and q == "create_file_name":
            want = ["<prefix>", ".", "<suffix>"]
        ok(r, "%s==%s" % (q, "".join(want)), shape == want and single, "streams %r (one stream, its text returned: %s)" % (shape, single), kind="trace")
    # (d) UnLoadDatabase
    c = ctx(); c.log_stores = True
    f, ex, fin, _ = run(IPQ, "IPhreeqc::UnLoadDatabase", c=c)
    fin = alive(fin)
    n = 0
    for s in fin:
        n += 1
        E = [e for e in s.events if not isinstance(e, tuple)]
        cu = [v for e, f_, v in stores(s, THIS, "CurrentSelectedOutputUserNumber")]
        ok(r, "UnLoadDatabase.current_user_number_back_to_1", bool(cu) and tm.isnum(cu[-1]) and cu[-1].args[0] == 1, repr(cu))
        for mp in ("SelectedOutputFileOnMap", "SelectedOutputStringOn"):
            seq = []
            for e in E:
                if short(e) == "clear" and field_of_recv(e.recv) == mp:
                    seq.append("clear")
                elif e.name == "store" and field_of_recv(e.recv) == mp:
                    seq.append("[%r]=%r" % (e.args[0], e.args[1]))
                elif e.name.endswith("map.clear") and field_of_recv(e.recv) == mp:
                    seq.append("clear")
            ok(r, "UnLoadDatabase.%s_reset_to_{1:false}" % mp, seq == ["clear", "[1]=False"], repr(seq), kind="trace")
    reach(r, "reach.UnLoadDatabase", n >= 1, "%d" % n)
    r.assumptions += ["member initialisers are read from the constructor's initialiser list (clang AST), the body by symbolic execution",
                      "operator<< on one ostringstream concatenates the texts of its arguments in order; str() returns that text (library)",
                      "the counter IPhreeqc::InstancesIndex is under C13.registry.ids_never_reused"]
    return r


UNITS.append(("C13.defaults.initial_settings_and_file_names_embed_the_id", unit_defaults))


# ------------------------------------------------------------------------------------- wrappers left out of the generated units
def _callee_decl_kind(e):
    try:
        return strip(e.node["inner"][0])["referencedDecl"].get("kind")
    except Exception:
        return None


def _wctx(ev):
    c = ctx(functional=("GetInstance",)); c.enum_values.update(ev); c.log_stores = True
    return c


def unit_wrap_special(twin=False):
    """C functions without the generic (id -> instance -> same-named method) shape: CreateIPhreeqc / DestroyIPhreeqc return what the
    registry functions IPhreeqcLib::CreateIPhreeqc() / DestroyIPhreeqc(id) return; GetVersionString returns IPhreeqc::GetVersionString();
    OutputAccumulatedLines / OutputErrorString / OutputWarningString(id) call exactly the same-named method of the instance registered under
    id and nothing else of any instance, and no method at all when id is not live."""
    ev = enums()
    fn = A.find_function(LIB, "CreateIPhreeqc", kind="FunctionDecl")
    r = U.new_unit("C13.wrap.special_cases", LIB, "CreateIPhreeqc", fn)
    idp = param(0, "id", "I")
    for q, nargs in (("CreateIPhreeqc", 0), ("DestroyIPhreeqc", 1), ("GetVersionString", 0)):
        f, ex, fin, _ = run(LIB, q, c=_wctx(ev), find_kw={"kind": "FunctionDecl"})
        fin = alive(fin, ("ret",))
        if len(fin) != 1:
            ok(r, q + ".single_path", False, "%d" % len(fin)); continue
        s = fin[0]
        E = [e for e in evs(s) if e.name != "store"]
        good = len(E) == 1 and short(E[0]) == q and _callee_decl_kind(E[0]) == "CXXMethodDecl"
        ok(r, "%s.one_call_of_the_class_function_of_the_same_name" % q, good, repr(E)[:200], kind="trace")
        if good:
            want_args = [idp][:nargs]
            ok(r, "%s.arguments_passed_unchanged" % q, list(E[0].args) == want_args, repr(E[0].args), kind="trace")
            res = E[0].result if not twin else tm.num(0, "I")
            ok(r, "%s.result_returned_unchanged" % q, s.ret is res, "%r vs %r" % (s.ret, E[0].result))
        ok(r, "%s.writes_nothing" % q, not stores(s), "", kind="frame")
    inst = tm.app("call:GetInstance", (tm.NULL, idp), "P")
    for q in ("OutputAccumulatedLines", "OutputErrorString", "OutputWarningString"):
        f, ex, fin, _ = run(LIB, q, c=_wctx(ev), find_kw={"kind": "FunctionDecl"})
        seen = set()
        for s in alive(fin):
            gi = evs(s, "GetInstance")
            meth = [e for e in evs(s) if e.name.startswith("IPhreeqc::")]
            if not gi or any(g.args[0] is not idp for g in gi):
                ok(r, q + ".instance_looked_up_by_id", False, repr(gi)); continue
            if meth:
                seen.add("live")
                ok(r, q + ".method_called_only_for_a_live_id", proved(s.pc, tm.not_(tm.eq(inst, NULLP))), repr(s.pc)[:160], backend="z3-5.1")
                good = len(meth) == 1 and meth[0].name == "IPhreeqc::" + q and meth[0].recv is inst and not meth[0].args
                ok(r, q + ".live.exactly_the_same_named_method_of_that_instance", good, repr(meth)[:200], kind="trace")
                oth = [e for e in evs(s) if e not in meth and e not in gi]
                ok(r, q + ".live.nothing_else", not oth, repr(oth)[:200], kind="frame")
            else:
                seen.add("bad")
                ok(r, q + ".no_method_call_only_for_an_id_that_is_not_live", proved(s.pc, tm.eq(inst, NULLP)), repr(s.pc)[:160], backend="z3-5.1")
                ok(r, q + ".bad_id.writes_nothing", not stores(s), "", kind="frame")
        reach(r, "reach.%s.live_and_bad_id" % q, seen == {"live", "bad"}, repr(sorted(seen)))
    r.assumptions += ["IPhreeqcLib::GetInstance is a function of id (unit C13.registry.ids_never_reused)", "std::cout output of the invalid-id message is not part of the contract"]
    return r


def unit_lib_create_destroy(twin=False):
    """IPhreeqcLib::CreateIPhreeqc creates one instance and returns ITS id (Index); IPhreeqcLib::DestroyIPhreeqc(id) deletes exactly the
    instance registered under id and returns IPQ_OK, and for an id that is not live deletes nothing and returns IPQ_BADINSTANCE."""
    ev = enums()
    f, ex, fin, _ = run(LIB, "IPhreeqcLib::CreateIPhreeqc", c=_wctx(ev))
    r = U.new_unit("C13.registry.Create_returns_new_id.Destroy_deletes_only_the_live_instance", LIB, "IPhreeqcLib::DestroyIPhreeqc", A.find_function(LIB, "IPhreeqcLib::DestroyIPhreeqc"))
    n = 0
    for s in alive(fin, ("ret",)):
        n += 1
        news = [e for e in evs(s) if e.name.startswith("new ")]
        good = len(news) == 1 and "IPhreeqc" in news[0].name
        ok(r, "Create.exactly_one_instance_created", good, repr(news)[:160], kind="trace")
        if good:
            want = tm.select(ex.heap_arr(s, ("f", "Index", "I")), news[0].result)
            U.discharge_valid(r, "Create.returns_the_Index_of_the_new_instance", list(s.pc), tm.eq(ex.coerce(s.ret, "I"), ex.coerce(want, "I")))
        oth = [e for e in evs(s) if e not in news and e.name != "store"]
        ok(r, "Create.nothing_else", not oth and not [x for x in stores(s)], repr(oth)[:160], kind="frame")
    reach(r, "reach.Create", n == 1, "%d" % n)
    f, ex, fin, _ = run(LIB, "IPhreeqcLib::DestroyIPhreeqc", c=_wctx(ev))
    idp = param(0, "id", "I")
    inst = tm.app("call:GetInstance", (tm.NULL, idp), "P")
    live = tm.not_(tm.eq(inst, NULLP))
    seen = set()
    for s in alive(fin, ("ret",)):
        dels = evs(s, "delete")
        gi = evs(s, "GetInstance")
        ok(r, "Destroy.looks_up_only_its_argument", all(g.args[0] is idp for g in gi), repr(gi)[:120], kind="trace")
        if dels:
            seen.add("live")
            ok(r, "Destroy.deletes_only_when_id_is_live", proved(s.pc, live), repr(s.pc)[:160], backend="z3-5.1")
            ok(r, "Destroy.deletes_exactly_the_instance_registered_under_id", len(dels) == 1 and dels[0].args[0] is inst, repr(dels)[:160], kind="trace")
            U.discharge_valid(r, "Destroy.live.returns_IPQ_OK", list(s.pc), tm.eq(ex.coerce(s.ret, "I"), tm.num(ev["IPQ_OK"], "I")))
        else:
            seen.add("bad")
            bad = tm.or_(tm.lt(idp, tm.num(0, "I")), tm.eq(inst, NULLP))
            ok(r, "Destroy.refuses_only_ids_that_are_not_live", proved(s.pc, bad), repr(s.pc)[:160], backend="z3-5.1")
            U.discharge_valid(r, "Destroy.not_live.returns_IPQ_BADINSTANCE", list(s.pc), tm.eq(ex.coerce(s.ret, "I"), tm.num(ev["IPQ_BADINSTANCE"] if not twin else ev["IPQ_OK"], "I")))
        oth = [e for e in evs(s) if e not in dels and e not in gi]
        ok(r, "Destroy.nothing_else", not oth, repr(oth)[:160], kind="frame")
    reach(r, "reach.Destroy.live_and_not_live", seen == {"live", "bad"}, repr(sorted(seen)))
    r.assumptions += ["operator new either yields an object or throws (the bad_alloc arm returns IPQ_OUTOFMEMORY and is not executed)",
                      "negative ids are never live (ids are values of a size_t counter starting at 0)", "~IPhreeqc removes the instance from the registry (unit C13.registry.ids_never_reused)"]
    return r


def unit_fglue_special(twin=False):
    """Fortran glue without the generic shape: CreateIPhreeqcF returns ::CreateIPhreeqc(); GetVersionStringF pads ::GetVersionString() into
    the caller's buffer with the caller's length; GetSelectedOutputValueF fetches cell (*row, *col - 1) of instance *id (the heading row is
    row 0 in both bindings, columns are 1-based in Fortran), returns the C result code, reports an integer cell as a double of the same value,
    and blank-pads the text into svalue with the caller's length; the temporary variant is initialised before and cleared after on every path."""
    ev = enums()
    fn = A.find_function(FIF, "GetSelectedOutputValueF", kind="FunctionDecl")
    r = U.new_unit("C13.fglue.special_cases", FIF, "GetSelectedOutputValueF", fn)
    f, ex, fin, _ = run(FIF, "CreateIPhreeqcF", c=_wctx(ev), find_kw={"kind": "FunctionDecl"})
    fin = alive(fin, ("ret",))
    E = [e for e in evs(fin[0]) if e.name != "store"] if len(fin) == 1 else []
    ok(r, "CreateIPhreeqcF.returns_CreateIPhreeqc()", len(E) == 1 and E[0].name == "CreateIPhreeqc" and not E[0].args and _callee_decl_kind(E[0]) == "FunctionDecl" and fin[0].ret is E[0].result, repr(E)[:160], kind="trace")
    f, ex, fin, _ = run(FIF, "GetVersionStringF", c=_wctx(ev), find_kw={"kind": "FunctionDecl"})
    fin = alive(fin)
    E = [e for e in evs(fin[0]) if e.name != "store"] if len(fin) == 1 else []
    good = len(E) == 2 and E[0].name == "GetVersionString" and E[1].name == "padfstring" and list(E[1].args) == [param(0, "version", "P"), E[0].result, param(1, "version_length", "P")]
    ok(r, "GetVersionStringF.pads_GetVersionString()_into_caller_buffer_with_caller_length", good and not stores(fin[0]), repr(E)[:200], kind="trace")
    # GetSelectedOutputValueF
    f, ex, fin, _ = run(FIF, "GetSelectedOutputValueF", c=_wctx(ev), fn=fn)
    memI = tm.sym("H0.mem:I", ("A", "P", "I", "I"))
    zero = tm.num(0, "I")
    P = [param(i, n_, "P") for i, n_ in enumerate(["id", "row", "col", "vtype", "dvalue", "svalue", "svalue_length"])]
    idv, rowv, colv = [tm.select(memI, p_, zero) for p_ in P[:3]]
    seen = set()
    for s in alive(fin, ("ret",)):
        E = [e for e in evs(s) if e.name != "store"]
        names = [e.name for e in E]
        g = [e for e in E if e.name == "GetSelectedOutputValue"]
        if len(g) != 1:
            ok(r, "ValueF.fetches_once", False, repr(names)); continue
        v = g[0].args[3]
        a = g[0].args
        U.discharge_valid(r, "ValueF.fetch(*id,*row,*col-1)", list(s.pc), tm.and_(tm.eq(a[0], idv), tm.eq(a[1], rowv), tm.eq(a[2], tm.sub(colv, tm.num(1 if not twin else 0, "I")))), kind="trace")
        ok(r, "ValueF.C_result_code_returned", s.ret is g[0].result, repr(s.ret)[:80])
        vi = [e for e in E if e.name == "VarInit"]; vc = [e for e in E if e.name == "VarClear"]
        good = len(vi) == 1 and vi[0].args[0] is v and names.index("VarInit") < names.index("GetSelectedOutputValue") and len(vc) == 1 and vc[0].args[0] is v and names[-1] == "VarClear"
        ok(r, "ValueF.variant_initialised_before_and_cleared_last", good, repr(names), kind="trace")
        ty = fld0(ex, s, "type", "I", v)
        st_ = {id(e.recv): val for e, f_, val in stores(s)}
        pads = [e for e in E if e.name == "padfstring"]
        fr = [e for e, f_, val in stores(s) if e.recv not in (P[3], P[4])]
        ok(r, "ValueF.writes_only_*vtype_and_*dvalue_itself", not fr, repr(fr)[:160], kind="frame")
        hit = None
        for name in TTN:
            if proved(s.pc, tm.eq(ty, tm.num(ev[name], "I"))):
                hit = name
        if hit is None:
            # the variant has none of the five types: nothing may be reported
            ok(r, "ValueF.unknown_type.reports_nothing", not stores(s) and not pads, repr(names), kind="frame")
            continue
        seen.add(hit)
        tv = st_.get(id(P[3]))
        want_t = ev["TT_DOUBLE"] if hit == "TT_LONG" else ev[hit]
        ok(r, "ValueF.%s.reported_type" % hit, tv is not None and proved(s.pc, tm.eq(ex.coerce(tv, "I"), tm.num(want_t, "I"))), repr(tv)[:80], backend="z3-5.1")
        if hit in ("TT_LONG", "TT_DOUBLE"):
            d = st_.get(id(P[4]))
            want = tm.to_real(fld0(ex, s, "lVal", "I", v)) if hit == "TT_LONG" else fld0(ex, s, "dVal", "R", v)
            ok(r, "ValueF.%s.numeric_value_handed_out_unchanged" % hit, d is not None and (d is want or B.sympy_equal(d, want)[0]), repr(d)[:100])
            sn = [e for e in E if e.name == "snprintf"]
            good = len(sn) == 1 and len(pads) == 1 and pads[0].args[1] is sn[0].args[0] and strlit(sn[0].args[2]) == ("%ld" if hit == "TT_LONG" else "%23.15e") \
                and (sn[0].args[3] is fld0(ex, s, "lVal", "I", v) if hit == "TT_LONG" else sn[0].args[3] is fld0(ex, s, "dVal", "R", v)) \
                and names.index("snprintf") < names.index("padfstring")
            ok(r, "ValueF.%s.text_is_the_rendered_value" % hit, good, repr(sn)[:160], kind="trace")
        elif hit == "TT_STRING":
            ok(r, "ValueF.TT_STRING.text_is_the_cell_text", len(pads) == 1 and pads[0].args[1] is fld0(ex, s, "sVal", "P", v), repr(pads)[:160], kind="trace")
        else:
            ok(r, "ValueF.%s.no_text_no_number" % hit, not pads and id(P[4]) not in st_, repr(names), kind="frame")
        if pads:
            ok(r, "ValueF.%s.padded_into_svalue_with_caller_length" % hit, len(pads) == 1 and pads[0].args[0] is P[5] and pads[0].args[2] is P[6], repr(pads)[:160], kind="trace")
    reach(r, "reach.ValueF.all_variant_types", seen == set(TTN), repr(sorted(seen)))
    r.assumptions += ["padfstring is under C05.fortran.padfstring (Engine A)", "::GetSelectedOutputValue is under C13.wrap.GetSelectedOutputValue", "snprintf renders the number into the local buffer",
                      "the type / value read after the fetch are those of the fetched variant"]
    return r


UNITS += [("C13.wrap.special_cases", unit_wrap_special),
          ("C13.registry.Create_returns_new_id.Destroy_deletes_only_the_live_instance", unit_lib_create_destroy),
          ("C13.fglue.special_cases", unit_fglue_special)]


def unit_enumeration(twin=False):
    """GetSelectedOutputCount() is the number of SELECTED_OUTPUT definitions of this instance's engine; GetNthSelectedOutputUserNumber(n) is
    the user number (map key) of the n-th definition in ascending order and VR_INVALIDARG (negative, never a user number) when there is no
    n-th one: the walk starts at the first definition with position 0, advances iterator and position together by one, stops at position n
    with that definition's key, and otherwise leaves the answer VR_INVALIDARG."""
    ev = enums()
    q = "IPhreeqc::GetNthSelectedOutputUserNumber"
    c = ctx(); c.enum_values.update(ev); c.log_stores = True
    f, ex, fin, info = run(IPQ, q, c=c, default="iter")
    r = U.new_unit("C13.enumeration.count_and_nth_user_number", IPQ, q, f)
    m = lambda ex_, s_: tm.app("fld:SelectedOutput_map", (fld0(ex_, s_, "PhreeqcPtr", "P"),), "P")
    loops = [x for x in A.walk(f) if x.get("kind") in ("ForStmt", "WhileStmt", "DoStmt")]
    if len(loops) != 1 or loops[0].get("kind") != "ForStmt":
        raise Undecided("expected one for loop, found %d loops" % len(loops))
    lp = loops[0]
    N = info["names"]
    n = param(0, "n", "I")
    ent = info["entry"].get(0, [])
    ok(r, "walk_entered_on_every_call", len(ent) == 1 and not ent[0].pc, "%d entry states" % len(ent))
    if ent:
        s0 = ent[0]
        ok(r, "answer_starts_as_VR_INVALIDARG", tm.isnum(s0.locals.get(N["nth"])) and s0.locals[N["nth"]].args[0] == ev["VR_INVALIDARG"], repr(s0.locals.get(N["nth"])))
        bg = [e for e in evs(s0) if short(e) == "begin"]
        ok(r, "walk_starts_at_the_first_definition_of_this_instance's_engine", len(bg) == 1 and bg[0].recv is m(ex, s0) and s0.locals.get(N["ci"]) is bg[0].result, repr(bg)[:160], kind="trace")
    i0 = None
    for d in A.walk(lp["inner"][0]) if lp["inner"][0] else []:
        if d.get("kind") == "VarDecl" and d.get("name") == "i" or (d.get("kind") == "VarDecl" and d.get("id") == N.get("i")):
            try:
                i0 = StaticOK(ctx()).ev(d["inner"][0], SX.State())[0][1]
            except Exception:
                i0 = None
    ok(r, "position_starts_at_0", i0 is not None and tm.isnum(i0) and i0.args[0] == 0, repr(i0))
    seen = set()
    for k, s in enumerate([x for x in info["iter"].get(0, []) if B.z3_sat(list(x.pc)) != "unsat"]):
        i_ = tm.sym("iter_i", "I"); ci = tm.sym("iter_ci", "P")
        nth = s.locals.get(N["nth"])
        if s.status == "brk":
            seen.add("hit")
            ok(r, "stops_only_at_position_n[path %d]" % k, proved(s.pc, tm.eq(i_, n)), repr(s.pc)[:160], backend="z3-5.1")
            want = tm.select(ex.heap_arr(SX.State(), ("f", "first", "I")), tm.app("mnode", (ci,), "P"))
            if twin:
                want = tm.add(want, tm.num(1, "I"))
            U.discharge_valid(r, "answer_is_the_key_of_the_definition_at_that_position[path %d]" % k, list(s.pc), tm.eq(ex.coerce(nth, "I"), want))
        else:
            seen.add("miss")
            ok(r, "passes_on_only_at_other_positions[path %d]" % k, proved(s.pc, tm.not_(tm.eq(i_, n))), repr(s.pc)[:160], backend="z3-5.1")
            ok(r, "answer_untouched_while_passing[path %d]" % k, nth is not None and nth.op == "sym" and nth.args[0] == "iter_nth", repr(nth))
            # the increment part advances both: one ++ on the iterator, one ++ on the position, nothing else
            incs = []
            for x in A.walk(lp["inner"][3]) if lp["inner"][3] else []:
                if x.get("kind") == "UnaryOperator" and x.get("opcode") == "++":
                    incs.append(strip(x["inner"][0]).get("referencedDecl", {}).get("id"))
                elif x.get("kind") == "CXXOperatorCallExpr" and any(y.get("kind") == "DeclRefExpr" and y.get("referencedDecl", {}).get("name") == "operator++" for y in A.walk(x["inner"][0])):
                    incs.append(strip(x["inner"][1]).get("referencedDecl", {}).get("id"))
                elif x.get("kind") in ("CompoundAssignOperator", "BinaryOperator") and x.get("opcode", "").endswith("=") and x.get("opcode") not in ("==", "!=", "<=", ">="):
                    incs.append("assignment")
            good = sorted(map(str, incs)) == sorted(map(str, [N["ci"], N["i"]]))
            i1, c1 = incs, ""
            ok(r, "iterator_and_position_advance_together_by_one[path %d]" % k, good, "%r %r" % (i1, c1))
        ok(r, "walk_writes_nothing[path %d]" % k, not stores(s), "", kind="frame")
    reach(r, "reach.hit_and_miss", seen == {"hit", "miss"}, repr(sorted(seen)))
    its = [x for x in info["iter"].get(0, []) if B.z3_sat(list(x.pc)) != "unsat"]
    endc = tm.not_(tm.eq(tm.sym("iter_ci", "P"), tm.app("mend", (m(ex, SX.State()),), "P")))
    hit = tm.eq(tm.sym("iter_i", "I"), n)
    ok(r, "walk_continues_until_the_end_of_the_definitions(no_other_stop_condition)", bool(its) and all(x.pc and x.pc[0] is endc and all(proved([hit], c_) or proved([tm.not_(hit)], c_) for c_ in x.pc[1:]) and len(x.pc) <= 2 for x in its),
       repr([x.pc for x in its])[:300])
    r.head_exempt = {(q, 0): "two-variable head (iterator and position): start, end condition and joint increment are obligations of this unit"}
    for s in alive(fin, ("ret",)):
        ok(r, "the_answer_is_returned", s.ret is not None and "nth" in repr(s.ret), repr(s.ret))
    g, ex2, fin2, _ = run(IPQ, "IPhreeqc::GetSelectedOutputCount")
    fin2 = alive(fin2, ("ret",))
    want = tm.select(ex2.heap_arr(SX.State(), ("f", "#msize", "I")), m(ex2, fin2[0])) if fin2 else None
    ok(r, "GetSelectedOutputCount==number_of_definitions_of_this_instance's_engine", len(fin2) == 1 and ex2.coerce(fin2[0].ret, "I") is want and not all_writes(fin2[0]), repr([x.ret for x in fin2])[:160])
    r.assumptions += ["std::map iterates its keys in ascending order, ++it moves to the next element (library)", "the loop runs until the end of the map (its head is checked as a full traversal by the driver)",
                      "after the loop the local answer is what the iterations left (loop summarised by its iteration contract)"]
    return r


UNITS.append(("C13.enumeration.count_and_nth_user_number", unit_enumeration))
