"""C05 (third wave) - cell side (punch_* of print.cpp / isotopes.cpp) paired with the heading side (tidy_punch)."""
from props.c05_ext3_tidy import *
from props.c05_ext3_tidy import _MEMO

UNITS = []
# section list -> function that writes its cells (the manual's meaning of the SELECTED_OUTPUT identifiers; SPECIFICATION)
CELLFN = {"totals": (PR, "punch_totals"), "molalities": (PR, "punch_molalities"), "activities": (PR, "punch_activities"), "pure_phases": (PR, "punch_pp_assemblage"),
          "si": (PR, "punch_saturation_indices"), "gases": (PR, "punch_gas_phase"), "kinetics": (PR, "punch_kinetics"), "s_s": (PR, "punch_ss_assemblage"),
          "isotopes": (ISO, "punch_isotopes"), "calculate_values": (ISO, "punch_calculate_values")}
GAS_BLOCK = ["pressure", "total mol", "volume"]


def unit(uid):
    def deco(f):
        UNITS.append((uid, f))
        return f
    return deco


def run_cells(rel, q, merge=True):
    key = (rel, q, merge)
    if key not in _MEMO:
        stash = LoopStash()
        c = stop_on_error_msg(mk_ctx(functional=FUNCTIONAL, loop=stash, log_stores=True))
        c.merge_ifs = merge
        fn, ex, fin = run(rel, "Phreeqc::" + q, c)
        _MEMO[key] = dict(fn=fn, ex=ex, fin=fin, runs=last_runs(stash), stash=stash)
    return _MEMO[key]


def pairs_with(head, cell):
    """the table's column name (cell side) is the heading text, optionally followed by a unit in parentheses"""
    return cell == head or (cell.startswith(head + "(") and cell.endswith(")"))


def cell_name(evs, k):
    """name argument of fpunchf event number k: ('lit', text) | ('item', prefix, suffix, term naming the item) | None"""
    a = evs[k].args[0]
    j = next((i for i in range(k - 1, -1, -1) if evs[i].result is a and sh(evs[i]) == "sformatf"), None)
    if j is not None:
        f = evs[j]
        if not (f.args and f.args[0].op == "str" and len(f.args) == 2):
            return None
        fmt = unq(f.args[0].args[0])
        if fmt.count("%") != 1 or "%s" not in fmt:
            return None
        pre, suf = fmt.split("%s")
        return ("item", pre, suf, f.args[1])
    lits = str_lits(a)
    if len(lits) == 1:
        return ("lit", unq(lits[0]))
    if list_of(a) is not None:
        return ("item", "", "", a)
    return None


def own_item(t, lst, ivar, d):
    """t names (reads .first of) the element with index `ivar` of the vector Get_<lst>(definition d or the member current_selected_output)"""
    if list_of(t) != lst or elem_index(t) is not ivar:
        return False
    if not reads_first(t):
        return False
    for x in [t] + list(tm.subterms(t)):
        if x.op == "app" and x.args[0] == "call:Get_" + lst:
            o = x.args[1]
            return o is d or (o.op == "select" and "current_selected_output:P" in repr(_base(o.args[0])) and o.args[1][0] is THIS)
    return False


def reads_first(t):
    """t reads the member .first (the name) of a pair"""
    for x in [t] + list(tm.subterms(t)):
        if x.op == "select":
            b = _base(x.args[0])
            if b.op == "sym" and isinstance(b.args[0], str) and b.args[0].endswith(".first:S"):
                return True
    return False


def _base(a):
    while a.op == "store":
        a = a.args[0]
    return a


def vec_of(t, lst):
    return next((x for x in [t] + list(tm.subterms(t)) if x.op == "app" and x.args[0] == "call:Get_" + lst), None)


def full_traversal(ex, node, e0, lst, name_term):
    """the loop visits the indices 0 .. size(Get_<lst>(def)) - 1 in steps of one"""
    h = loop_head(ex, node, e0)
    vec = vec_of(name_term, lst)
    if vec is None or h["cond"] is None:
        return False, "no bound"
    size = tm.select(ex.heap_arr(e0, ("f", "#vsize", "I")), vec)
    g = tm.isnum(h["first"]) and h["first"].args[0] == 0 and proved(e0.pc, tm.eq(h["cond"], tm.lt(h["K"], size))) and h["next"] is not None and proved(e0.pc, tm.eq(h["next"], tm.add(h["K"], tm.num(1, "I"))))
    return g, "%r | %r | %r" % (h["first"], h["cond"], h["next"])


def partition(hy, guards):
    """the guards are pairwise exclusive and one of them holds (under hy): exactly one of the guarded events happens"""
    if not guards:
        return False
    if not proved(hy, tm.or_(*guards)):
        return False
    for i in range(len(guards)):
        for j in range(i + 1, len(guards)):
            if not proved(hy, tm.not_(tm.and_(guards[i], guards[j]))):
                return False
    return True


def heading_sections():
    """heading side, per section loop of the heading pass: (list, node, entry state, [(pieces, guard)] of one arbitrary item, induction symbol, def)"""
    T = run_tidy_punch()
    n2, e2, it2 = T["heads"]
    out = {}
    for n_, e0_, its_ in T["runs"]:
        if not contains(n2, n_):
            continue
        for s in [s for s in its_ if sat(s.pc)]:
            evs = U.iter_events(s)
            hs = [k for k, e in enumerate(evs) if sh(e) == "fpunchf_heading"]
            if not hs:
                continue
            cols = [(heading_pieces(evs, k), evs[k].guard) for k in hs]
            lst = next((list_of(p) for pc_, _g in cols if pc_ for p in pc_ if isinstance(p, tm.T) and list_of(p)), None)
            if lst is None:
                continue
            did = loop_var(T["ex"], n_)[0]
            out.setdefault(lst, []).append(dict(node=n_, e0=e0_, s=s, cols=cols, ivar=s.locals.get(did), status=s.status))
    return T, out


@unit("C05.sections.heading_i_and_cell_i_name_the_same_item_of_the_same_list_with_the_same_prefix_in_the_same_order")
def unit_section_names(twin=False):
    """Per section (-totals -molalities -activities -equilibrium_phases -saturation_indices -gases -kinetic_reactants -solid_solutions
    -isotopes -calculate_values): the heading loop of tidy_punch and the cell loop of the section's punch_* function both run over ALL
    items 0 .. size-1 of the SAME list of the current definition; for item i the headings are <prefix_k><name of item i> and the cells
    carry the table names <prefix_k><name of item i>[(unit)] with the same prefixes in the same order, every one written on every path
    (high precision or not, item found or not).  The three block columns of -gases (pressure, total mol, volume) are written on both
    sides exactly when the list is not empty, in that order, before the per-gas columns.  punch_all calls the twelve punch_* routines
    once each, unconditionally, in the order in which tidy_punch writes the heading blocks."""
    T, H = heading_sections()
    r = U.new_unit("C05.sections.heading_i_and_cell_i_name_the_same_item_of_the_same_list_with_the_same_prefix_in_the_same_order", TD, "Phreeqc::tidy_punch / punch_* (print.cpp, isotopes.cpp)", T["fn"])
    done = 0
    for lst in LISTS:
        hs = H.get(lst, [])
        if len(hs) != 1:
            ok(r, "%s.one_heading_loop_with_one_joined_path" % lst, False, "symex", "%d" % len(hs), undecided=not hs); continue
        h = hs[0]
        d_h = the_def(T["ex"], [s for s in T["heads"][2] if s.status == "run"][0])
        hp = []
        good = h["status"] in ("run", "cont")
        for pieces, g in h["cols"]:
            if not pieces or not isinstance(pieces[-1], tm.T) or any(isinstance(p, tm.T) for p in pieces[:-1]):
                raise Undecided("tidy_punch: heading text of -%s not understood: %r" % (lst, pieces))
            hp.append(("".join(pieces[:-1]), pieces[-1]))
            good = good and proved(h["s"].pc, g)
        ok(r, "%s.headings.written_for_every_item_on_every_path" % lst, good, "trace+z3", "guards %r" % ([g for _p, g in h["cols"]],))
        ok(r, "%s.headings.name_item_i_of_the_list_of_the_definition_visited" % lst, all(own_item(t, lst, h["ivar"], d_h) for _p, t in hp), "trace", repr([t for _p, t in hp])[:300])
        g, det = full_traversal(T["ex"], h["node"], h["e0"], lst, hp[0][1])
        ok(r, "%s.headings.loop_runs_over_all_items_0..size-1" % lst, g, "symex+z3", det)
        # cell side
        rel, q = CELLFN[lst]
        C = run_cells(rel, q)
        cand = []
        for n_, e0_, its_ in C["runs"]:
            for s in [s for s in its_ if sat(s.pc)]:
                evs = U.iter_events(s)
                for k, e in enumerate(evs):
                    if sh(e) == "fpunchf":
                        cn = cell_name(evs, k)
                        if cn and cn[0] == "item" and list_of(cn[3]) == lst:
                            cand.append((n_, e0_, s, k, cn, e.guard))
        tops = [x for x in C["runs"] if not any(contains(y[0], x[0]) for y in C["runs"]) and any(c_[0] is x[0] or contains(x[0], c_[0]) for c_ in cand)]
        if len(tops) != 1:
            ok(r, "%s.cells.one_item_loop" % lst, False, "symex", "%d loops of %s write cells named after a -%s item" % (len(tops), q, lst), undecided=not tops); continue
        top = tops[0]
        ivar = None
        its_top = [s for s in top[2] if sat(s.pc)]
        if its_top:
            ivar = its_top[0].locals.get(loop_var(C["ex"], top[0])[0])
        cp = []          # distinct (prefix, suffix) in order of first appearance
        for n_, e0_, s, k, cn, g in cand:
            if (cn[1], cn[2]) not in cp:
                cp.append((cn[1], cn[2]))
        ok(r, "%s.cells.name_item_i_of_the_same_list_of_the_current_definition" % lst, ivar is not None and all(own_item(c_[4][3], lst, ivar, None) for c_ in cand), "trace", repr([c_[4][3] for c_ in cand][:2])[:300])
        g, det = full_traversal(C["ex"], top[0], top[1], lst, cand[0][4][3])
        ok(r, "%s.cells.loop_runs_over_all_items_0..size-1" % lst, g, "symex+z3", det)
        want = [p for p, _t in hp]
        if twin and lst == "kinetics":
            want = want[::-1]
        ok(r, "%s.same_prefixes_in_the_same_order(heading_k<->cell_k)" % lst, [p for p, _s in cp] == want, "trace", "headings %r cells %r" % (want, cp))
        ok(r, "%s.cells.table_name_is_the_heading_text_plus_at_most_a_unit_in_parentheses" % lst, all(sf == "" or (sf.startswith("(") and sf.endswith(")")) for _p, sf in cp), "trace", repr(cp))
        if lst != "s_s":
            # every column of the item written exactly once on every path of the item loop's body (found or not, high precision or not)
            g_all = bool(its_top)
            for s in its_top:
                mine = [c_ for c_ in cand if c_[2] is s]
                for pre, suf in cp:
                    gs = [c_[5] for c_ in mine if (c_[4][1], c_[4][2]) == (pre, suf)]
                    g_all = g_all and s.status in ("run", "cont") and partition(s.pc, gs)
            ok(r, "%s.cells.each_column_of_item_i_written_exactly_once_on_every_path" % lst, g_all, "trace+z3", "%d joined path(s)" % len(its_top))
            ok(r, "%s.cells.none_written_inside_a_search_loop(one_per_item_not_one_per_match)" % lst, all(c_[0] is top[0] for c_ in cand), "trace", "%d cell events in nested loops" % len([c_ for c_ in cand if c_[0] is not top[0]]))
        done += 1
    ok(r, "reach.sections", done == len(LISTS), "symex", "%d of %d" % (done, len(LISTS)), kind="vacuity", undecided=True)
    _gas_block(r, T, twin)
    _order(r, T, H, twin)
    r.assumptions += ["std::string locals are read through the operator= / append calls made on them (a heading built another way is reported undecided, not violated)",
                      "exactly-one-cell for -solid_solutions needs the search invariant and is C05.punch_ss_assemblage.exactly_one_cell_per_listed_component",
                      "sformatf / fpunchf / fpunchf_heading are opaque events (C05.punch.* units); getters of SelectedOutput functional; which punch_* function serves which list is specification (CELLFN)"]
    return r


def _gas_block(r, T, twin):
    ex = T["ex"]
    runs2 = [s for s in T["heads"][2] if s.status == "run" and sat(s.pc)]
    if len(runs2) != 1:
        raise Undecided("tidy_punch: heading pass has %d normal joined paths" % len(runs2))
    s = runs2[0]
    evs = U.iter_events(s)
    d = the_def(ex, s)
    size = None
    for x in tm.subterms(tm.and_(*[e.guard for e in evs if isinstance(e.guard, tm.T)] + [tm.TRUE])):
        if x.op == "select" and "#vsize" in repr(_base(x.args[0])) and x.args[1][0].op == "app" and x.args[1][0].args[0] == "call:Get_gases":
            size = x
    hk = [(k, heading_pieces(evs, k)) for k, e in enumerate(evs) if sh(e) == "fpunchf_heading"]
    blk = [(k, p[0]) for k, p in hk if p and len(p) == 1 and p[0] in GAS_BLOCK]
    ok(r, "gases.block_headings_pressure_total_mol_volume_in_this_order_once_each", [t for _k, t in blk] == GAS_BLOCK, "trace", repr(blk))
    if size is None:
        ok(r, "gases.block_headings_written_exactly_when_the_list_is_not_empty", False, "trace", "no guard on the size of the -gases list"); return
    nonempty = tm.lt(tm.num(0, "I"), size)
    ok(r, "gases.block_headings_written_exactly_when_the_list_is_not_empty", bool(blk) and all(proved(list(s.pc) + [tm.le(tm.num(0, "I"), size)], tm.eq(evs[k].guard, nonempty)) for k, _t in blk), "trace+z3", repr([evs[k].guard for k, _t in blk])[:200])
    # they stand between the last -saturation_indices column and the first per-gas column
    lp = {}
    for n_, e0_, its_ in T["runs"]:
        for st in its_:
            for e in U.iter_events(st):
                if sh(e) == "fpunchf_heading":
                    pcs = heading_pieces(U.iter_events(st), U.iter_events(st).index(e))
                    l_ = next((list_of(p) for p in (pcs or []) if isinstance(p, tm.T) and list_of(p)), None)
                    if l_:
                        lp[id(n_)] = l_
    pos = {lp[id(e.node)]: k for k, e in enumerate(evs) if e.name == "loop_passed" and id(e.node) in lp}
    ok(r, "gases.block_headings_stand_right_before_the_per_gas_headings", blk and "si" in pos and "gases" in pos and pos["si"] < blk[0][0] and blk[-1][0] < pos["gases"], "trace", "%r block at %r" % (pos, [k for k, _t in blk]))
    # cell side
    C = run_cells(PR, "punch_gas_phase")
    fin = [s_ for s_ in C["fin"] if sat(s_.pc)]
    szc = None
    seen = set()
    for j, s_ in enumerate(fin):
        cells = [(k, cell_name(s_.events, k), e.guard) for k, e in enumerate(s_.events) if sh(e) == "fpunchf"]
        lits = [(k, cn[1], g) for k, cn, g in cells if cn and cn[0] == "lit"]
        szs = _gas_sizes([s_] + [t_ for _n, _e, its_ in C["runs"] for t_ in its_])
        if not szs:
            ok(r, "gases.cells.size_of_the_list_read[path %d]" % j, False, "symex", "punch_gas_phase never reads the size of the -gases list", undecided=True); continue
        for hy, ne in cases(list(s_.pc) + [tm.le(tm.num(0, "I"), szs[0])] + _empty_axioms(s_, szs[0]), tm.lt(tm.num(0, "I"), szs[0])):
            seen.add(ne)
            if not ne:
                ok(r, "gases.cells.empty_list_writes_no_block_cell%s" % ("" if j == 0 else "#%d" % j), not cells, "trace", repr(lits)[:200])
                continue
            names = []
            for k, t, g in lits:
                if t not in names:
                    names.append(t)
            want = GAS_BLOCK if not twin else GAS_BLOCK[::-1]
            ok(r, "gases.cells.block_cells_pressure_total_mol_volume_in_heading_order%s" % ("" if j == 0 else "#%d" % j), names == want and all(pairs_with(a, b) for a, b in zip(GAS_BLOCK, names)), "trace", repr(names))
            ok(r, "gases.cells.each_block_cell_written_exactly_once%s" % ("" if j == 0 else "#%d" % j), all(partition(hy, [g for k, t, g in lits if t == nm]) for nm in names) and bool(names), "trace+z3", "")
            lps = [k for k, e in enumerate(s_.events) if e.name == "loop_passed" and any(c_ for c_ in C["runs"] if c_[0] is e.node and any(sh(e2) == "fpunchf" for st in c_[2] for e2 in U.iter_events(st)))]
            ok(r, "gases.cells.block_cells_precede_the_per_gas_cells%s" % ("" if j == 0 else "#%d" % j), bool(lps) and bool(lits) and max(k for k, _t, _g in lits) < min(lps), "trace", "%r / %r" % ([k for k, _t, _g in lits], lps))
    ok(r, "reach.gases_block_cases", seen == {True, False}, "symex", sorted(seen), kind="vacuity", undecided=True)


def _gas_sizes(states):
    """the term size(Get_gases(current definition)) as the function reads it (loop bound / emptiness test)"""
    out = []
    for t_ in states:
        for x in (tm.subterms(tm.and_(*t_.pc)) if t_.pc else ()):
            if x.op == "select" and "#vsize" in repr(_base(x.args[0])) and x.args[1][0].op == "app" and x.args[1][0].args[0] == "call:Get_gases" and x not in out:
                out.append(x)
    return out


def _empty_axioms(s_, size):
    """v.empty() <=> v.size() == 0 for the vector whose size is `size` (when the path tests emptiness through empty())"""
    vec = size.args[1][0]
    ax = []
    for x in (tm.subterms(tm.and_(*s_.pc)) if s_.pc else ()):
        if x.op == "app" and x.args[0] in ("call:empty", "empty") and len(x.args) > 1 and x.args[1] is vec:
            ax.append(tm.eq(tm.to_bool(x), tm.eq(size, tm.num(0, "I"))))
    return ax


def _order(r, T, H, twin):
    """order of the blocks: heading side (tidy_punch) against the call order of punch_all"""
    ex = T["ex"]
    s = [s for s in T["heads"][2] if s.status == "run" and sat(s.pc)][0]
    evs = U.iter_events(s)
    node2list = {id(v[0]["node"]): l for l, v in H.items() if v}
    hord = [node2list[id(e.node)] for e in evs if e.name == "loop_passed" and id(e.node) in node2list]
    P = run_cells(PR, "punch_all")
    tops = [x for x in P["runs"] if not any(contains(y[0], x[0]) for y in P["runs"])]
    its = [s_ for x in tops for s_ in x[2] if s_.status in ("run", "cont") and sat(s_.pc) and any(sh(e) == "fpunchf_end_row" for e in U.iter_events(s_))]
    if len(its) != 1:
        raise Undecided("punch_all: %d row-writing iteration paths" % len(its))
    pe = [e for e in U.iter_events(its[0]) if sh(e).startswith("punch_") and sh(e) not in ("punch_msg", "punch_flush")]
    fn2list = {q: l for l, (_rel, q) in CELLFN.items()}
    cord = [fn2list.get(sh(e), sh(e)) for e in pe]
    want = ["punch_identifiers"] + ["punch_user_punch" if l == "headings" else l for l in hord]
    if twin:
        want = want[:-1]
    ok(r, "punch_all.cell_blocks_in_the_order_of_the_heading_blocks(identifiers_first,USER_PUNCH_last)", cord == want, "trace", "headings %r cells %r" % (want, cord))
    ok(r, "punch_all.every_block_written_once_for_every_row(no_block_under_a_condition_of_its_own)", all(proved(its[0].pc, e.guard) for e in pe) and len(set(cord)) == len(cord), "trace+z3", repr([e.guard for e in pe if e.guard is not tm.TRUE])[:200])
    # heading side: USER_PUNCH headings after all sections, the newline last
    hk = [k for k, e in enumerate(evs) if sh(e) == "fpunchf_heading"]
    lastp = heading_pieces(evs, hk[-1]) if hk else None
    ok(r, "tidy_punch.heading_row_ends_with_the_newline_written_unconditionally", lastp == ["\\n"] and proved(s.pc, evs[hk[-1]].guard), "trace", repr(lastp))
    ok(r, "reach.block_order", len(hord) == len(LISTS) + 1, "symex", repr(hord), kind="vacuity", undecided=True)


@unit("C05.identifiers.one_heading_and_one_cell_per_switched_on_column_in_the_same_order")
def unit_identifiers(twin=False):
    """The fifteen identifier columns (-simulation -state -solution -distance -time -step -pH -pe -reaction -temperature -alkalinity
    -ionic_strength -water -charge_balance -percent_error): tidy_punch writes the heading of a column exactly when the definition's flag
    of THAT column is on, punch_identifiers writes exactly one cell for it exactly when the same flag is on (whatever the calculation
    state, high precision or not), the cell's table name is the heading text (plus at most a unit in parentheses) and is the same on every
    path, both sides keep the manual's column order, and neither side writes any other fixed-name column."""
    T = run_tidy_punch(); ex = T["ex"]
    r = U.new_unit("C05.identifiers.one_heading_and_one_cell_per_switched_on_column_in_the_same_order", PR, "Phreeqc::punch_identifiers / tidy_punch", A.find_function(PR, "Phreeqc::punch_identifiers"))
    runs2 = [s for s in T["heads"][2] if s.status == "run" and sat(s.pc)]
    if len(runs2) != 1:
        raise Undecided("tidy_punch: heading pass has %d normal joined paths" % len(runs2))
    s = runs2[0]
    evs = U.iter_events(s)
    d = the_def(ex, s)
    spec = list(IDENT)
    if twin:
        spec[6], spec[7] = (spec[6][0], spec[7][1]), (spec[7][0], spec[6][1])       # pH column under the -pe flag and vice versa
    hk = [(k, heading_pieces(evs, k)) for k, e in enumerate(evs) if sh(e) == "fpunchf_heading"]
    lits = [(k, p[0]) for k, p in hk if p and len(p) == 1 and isinstance(p[0], str) and p[0] not in GAS_BLOCK and p[0] != "\\n"]
    def flag_in(getter, terms):
        for t in terms:
            for x in tm.subterms(t):
                if x.op == "app" and x.args[0] == "call:" + getter:
                    return x
        return None
    def on_def(f, dd):
        o = f.args[1]
        return o is dd or (o.op == "select" and "current_selected_output:P" in repr(_base(o.args[0])) and o.args[1][0] is THIS)
    last = -1
    for getter, text in spec:
        mine = [k for k, t in lits if t == text]
        if len(mine) != 1:
            ok(r, "heading[%s].written_once" % text, False, "trace", "%d heading statements" % len(mine)); continue
        g = evs[mine[0]].guard
        f = flag_in(getter, [g])
        ok(r, "heading[%s].written_exactly_when_%s_of_the_definition_visited_is_on" % (text, getter), f is not None and on_def(f, d) and proved(s.pc, tm.eq(g, tm.to_bool(f))), "trace+z3", repr(g)[:200])
        ok(r, "heading[%s].in_the_manual's_column_order" % text, mine[0] > last, "trace", "position %d after %d" % (mine[0], last))
        last = max(last, mine[0])
    ok(r, "headings.no_other_fixed_name_column", {t for _k, t in lits} <= {t for _g, t in IDENT}, "trace", sorted({t for _k, t in lits} - {t for _g, t in IDENT}), kind="frame")
    lp = [k for k, e in enumerate(evs) if e.name == "loop_passed"]
    ok(r, "headings.identifier_columns_precede_every_list_section", bool(lits) and bool(lp) and max(k for k, _t in lits) < min(lp), "trace", "")
    # cell side (every obligation is demanded on every path of punch_identifiers; one line per column)
    C = run_cells(PR, "punch_identifiers")
    fin = [s_ for s_ in C["fin"] if s_.status == "ret" and sat(s_.pc)]
    seen = set()
    acc = {}
    def note(name, cond, det, backend="trace+z3", kind="post"):
        a_ = acc.setdefault(name, [True, [], backend, kind])
        if not cond:
            a_[0] = False; a_[1].append(str(det)[:120])
    for j, s_ in enumerate(fin):
        cells = [(k, cell_name(s_.events, k), e.guard) for k, e in enumerate(s_.events) if sh(e) == "fpunchf"]
        note("cells.every_cell_has_a_fixed_name", all(cn and cn[0] == "lit" for _k, cn, _g in cells), "path %d: %r" % (j, [cn for _k, cn, _g in cells if not cn or cn[0] != "lit"]), "trace")
        cells = [(k, cn[1], g) for k, cn, g in cells if cn and cn[0] == "lit"]
        used = set()
        last = -1
        for getter, text in spec:
            mine = [(k, t, g) for k, t, g in cells if pairs_with(text, t)]
            used |= {k for k, _t, _g in mine}
            f = flag_in(getter, [g for _k, _t, g in mine] + list(s_.pc))
            if f is None or not on_def(f, None):
                note("cell[%s].depends_on_%s_of_the_current_definition" % (text, getter), False, "path %d: %d cell statements, none guarded by the flag" % (j, len(mine)), "trace"); continue
            note("cell[%s].depends_on_%s_of_the_current_definition" % (text, getter), True, "", "trace")
            for hy, on in cases(s_.pc, tm.to_bool(f)):
                seen.add(on)
                if on:
                    note("cell[%s].flag_on.exactly_one_cell_whatever_the_state" % text, partition(hy, [g for _k, _t, g in mine]), "path %d: %d cell statements" % (j, len(mine)))
                else:
                    note("cell[%s].flag_off.no_cell" % text, not mine or proved(hy, tm.not_(tm.or_(*[g for _k, _t, g in mine]))), "path %d" % j)
            note("cell[%s].one_table_name_on_every_path" % text, len({t for _k, t, _g in mine}) <= 1, "path %d: %r" % (j, sorted({t for _k, t, _g in mine})), "trace")
            if mine:
                note("cell[%s].in_heading_order" % text, min(k for k, _t, _g in mine) > last, "path %d" % j, "trace")
                last = max(k for k, _t, _g in mine)
        note("cells.no_other_fixed_name_column", used == {k for k, _t, _g in cells}, "path %d: %r" % (j, sorted({t for k, t, _g in cells if k not in used})), "trace", "frame")
    for name, (g_, det, be, kd) in acc.items():
        ok(r, name, g_, be, "; ".join(det) if det else "%d paths" % len(fin), kind=kd)
    ok(r, "reach.identifier_cases", seen == {True, False} and len(fin) >= 2 and len(lits) >= 15, "symex", "%d paths of punch_identifiers, %d fixed headings" % (len(fin), len(lits)), kind="vacuity", undecided=True)
    r.assumptions += ["the manual's list and order of the identifier columns (IDENT in props/c05_ext3_tidy.py) is the specification; the table name may add a unit in parentheses (temp(C), Alk(eq/kgw), charge(eq))",
                      "PHAST_NULL(name) is the name itself outside PHAST (phast == FALSE in IPhreeqc); the values written are not under this contract"]
    return r


@unit("C05.punch_ss_assemblage.exactly_one_cell_per_listed_component(found_once_found_twice_or_not_found)")
def unit_ss_one_cell(twin=False):
    """Phreeqc::punch_ss_assemblage: for every listed solid-solution component exactly one cell is written, also when the name matches a
    component in two solid solutions and when it matches none.  Stated as the search invariant `flag raised <=> the cell of this item has
    been written`: the flag is lowered before the search of every item; an iteration of the innermost loop that writes the cell writes
    exactly one, raises the flag and leaves the loop, one that does not write leaves the flag alone; the enclosing loop goes on only
    while the flag is down and writes nothing itself; after the search exactly one cell is written when the flag is still down and none
    when it is raised."""
    C = run_cells(PR, "punch_ss_assemblage")
    ex = C["ex"]
    r = U.new_unit("C05.punch_ss_assemblage.exactly_one_cell_per_listed_component(found_once_found_twice_or_not_found)", PR, "Phreeqc::punch_ss_assemblage", C["fn"])
    runs = C["runs"]
    def ncells(x):
        return sum(1 for s in x[2] for e in U.iter_events(s) if sh(e) == "fpunchf")
    top = [x for x in runs if not any(contains(y[0], x[0]) for y in runs)]
    inner = [x for x in runs if not any(contains(x[0], y[0]) for y in runs) and ncells(x)]
    if len(top) != 1 or len(inner) != 1 or inner[0] is top[0]:
        raise Undecided("punch_ss_assemblage: item loop / innermost search loop not identified (%d / %d)" % (len(top), len(inner)))
    top, inner = top[0], inner[0]
    mids = [x for x in runs if contains(top[0], x[0]) and contains(x[0], inner[0])]
    st_in = [s for s in inner[2] if sat(s.pc)]
    def writes(s):
        """condition under which the iteration (joined path) s writes a cell"""
        gs = [e.guard for e in U.iter_events(s) if sh(e) == "fpunchf"]
        return tm.or_(*gs) if gs else tm.FALSE
    if not any(writes(s) is not tm.FALSE for s in st_in):
        raise Undecided("punch_ss_assemblage: innermost loop writes no cell")
    # the flag: the local that a writing iteration sets to a constant and a non-writing one leaves at its entry value
    id2name = {v: k for k, v in names_of(C["fn"]).items()}
    for x in A.walk(C["fn"]):
        if x.get("kind") == "VarDecl" and "id" in x:
            id2name[x["id"]] = x.get("name")
    flags = {}
    for s in st_in:
        W = writes(s)
        if W is tm.FALSE:
            continue
        for did, v in s.locals.items():
            if not isinstance(v, tm.T) or v.sort != "I" or did not in id2name:
                continue
            ent = tm.sym("iter_" + str(id2name[did]), "I")
            if v is ent:
                continue
            nums = [x for x in [v] + list(tm.subterms(v)) if tm.isnum(x) and x.sort == "I"]
            for c_ in nums:
                if proved(list(s.pc) + [W], tm.eq(v, c_)) and not proved(list(s.pc) + [W], tm.eq(ent, c_)) and ent in ([v] + list(tm.subterms(v)) + [ent] if tm.isnum(v) else tm.subterms(v)):
                    flags[did] = (c_, ent)
    if len(flags) != 1:
        ok(r, "search.a_flag_records_that_the_cell_was_written", False, "symex", "%d candidate locals" % len(flags)); return r
    fid, (EV, entry_sym) = list(flags.items())[0]
    ok(r, "search.a_flag_records_that_the_cell_was_written", True, "symex", "local %s, raised value %r" % (id2name.get(fid), EV))
    iv_top = [s for s in top[2] if sat(s.pc)][0].locals.get(loop_var(ex, top[0])[0])
    got = set()
    for j, s in enumerate(st_in):
        evs = U.iter_events(s)
        cells = [(k, cell_name(evs, k), e.guard) for k, e in enumerate(evs) if sh(e) == "fpunchf"]
        for hy, w in cases(s.pc, writes(s)):
            tg = "" if (w not in got) else "#%d" % j
            got.add(w)
            if w:
                ok(r, "match.writes_exactly_one_cell%s" % tg, partition(hy, [g for _k, _c, g in cells]), "trace+z3", "%d cell statements" % len(cells))
                ok(r, "match.the_cell_is_named_after_the_listed_item_k%s" % tg, all(cn and cn[0] == "item" and own_item(cn[3], "s_s", iv_top, None) for _k, cn, _g in cells), "trace", repr([cn for _k, cn, _g in cells][:1])[:200])
                ok(r, "match.raises_the_flag_and_leaves_the_search%s" % tg, proved(hy, tm.eq(s.locals.get(fid), EV)) and s.status == "brk", "symex+z3", "flag %r status %s" % (s.locals.get(fid), s.status))
            else:
                ok(r, "no_match.leaves_the_flag_alone%s" % tg, proved(hy, tm.eq(s.locals.get(fid), entry_sym)) and s.status in ("run", "cont"), "symex+z3", "flag %r status %s" % (s.locals.get(fid), s.status))
    ok(r, "reach.match_and_no_match", got == {True, False}, "symex", sorted(got), kind="vacuity", undecided=True)
    for x in mids:
        for j, s in enumerate([s for s in x[2] if sat(s.pc)]):
            evs = U.iter_events(s)
            ok(r, "enclosing_loop.writes_no_cell_itself[path %d]" % j, not any(sh(e) == "fpunchf" for e in evs), "trace", "")
            if s.status in ("run", "cont"):
                ok(r, "enclosing_loop.goes_on_only_with_the_flag_down[path %d]" % j, proved(s.pc, tm.not_(tm.eq(s.locals.get(fid), EV))), "symex+z3", "flag %r under %r" % (s.locals.get(fid), s.pc[-1:]))
    ok(r, "reach.enclosing_loop", len(mids) >= 1, "symex", len(mids), kind="vacuity", undecided=True)
    # item body
    first_loop_entry = [x for x in runs if contains(top[0], x[0]) and not any(contains(y[0], x[0]) and contains(top[0], y[0]) for y in runs)]
    v0s = [x[1].locals.get(fid) for x in first_loop_entry]
    ok(r, "item.flag_lowered_before_the_search_of_every_item", bool(v0s) and all(isinstance(v, tm.T) and tm.isnum(v) and v is not EV for v in v0s), "symex", repr(v0s))
    V0 = v0s[0] if v0s else tm.num(0, "I")
    for j, s in enumerate([s for s in top[2] if sat(s.pc)]):
        evs = U.iter_events(s)
        cells = [(k, cell_name(evs, k), e.guard) for k, e in enumerate(evs) if sh(e) == "fpunchf"]
        fl = s.locals.get(fid)
        dom = tm.or_(tm.eq(fl, V0), tm.eq(fl, EV))
        tg = "" if j == 0 else "#%d" % j
        down = tm.not_(tm.eq(fl, EV)) if not twin else tm.eq(fl, EV)
        for hy, dn in cases(list(s.pc) + [dom], down):
            if dn:
                ok(r, "after_the_search.flag_down.exactly_one_cell%s" % tg, partition(hy, [g for _k, _c, g in cells]), "trace+z3", "%d cell statements; flag %r" % (len(cells), fl))
            else:
                ok(r, "after_the_search.flag_raised.no_further_cell%s" % tg, not cells or proved(hy, tm.not_(tm.or_(*[g for _k, _c, g in cells]))), "trace+z3", "%d cell statements" % len(cells))
        ok(r, "after_the_search.the_cell_is_named_after_the_listed_item_k%s" % tg, bool(cells) and all(cn and cn[0] == "item" and own_item(cn[3], "s_s", iv_top, None) for _k, cn, _g in cells), "trace", "")
        ok(r, "item.ends_normally%s" % tg, s.status in ("run", "cont"), "symex", s.status)
    r.assumptions += ["the flag takes only its lowered value and the raised value (its only assignments, checked above); loops are run as one arbitrary iteration each from a state in which the flag is arbitrary",
                      "names / prefixes / loop range of the -solid_solutions section are in C05.sections.heading_i_and_cell_i...; Vectorize(), strcmp_nocase opaque"]
    return r
