"""C20 extension units, third batch.

* residuals(), the SURFACE_CB row of a DDL / CCM surface as an ITERATION contract of the per-unknown loop (the base units C20.residuals.DDL_/CCM_charge_potential_row
  locate the branch by the text of its guard and take the charge record as whatever the local holds): here the row is selected by the type code of x[i] and by
  the electrostatic model of the surface in use, so that (a) a DDL surface gets the Gouy-Chapman relation and a CCM surface sigma = C psi - whatever the guards
  look like -, (b) area, grams and capacitance are those of the charge record OF THIS UNKNOWN (Find_charge(x[i]->surface_charge) of the surface in use), the
  potential is that of this unknown's own potential master and the temperature is the current tk_x, (c) the constants of the potential (2 R T ln10 / F) are
  the ones the read-out EDL("psi") uses for the same model (basicsubs.cpp diff_layer_total: twin site), (d) an unbalanced row stops convergence.
* the diffuse-layer terms of prep.cpp mb_for_species_aq / _ex / _surf are units C02.mb_for_species* of props/c02_ext3_mb.py: they run under C20 through the
  alias rule (C20 <- C02 `.mb_for_species`).
* surfaces tied to a mineral or a kinetic reactant (prep.cpp build_min_surface, setup_related_surface; tidy.cpp update_min_surface, update_kin_surface): the
  units of props/c03_ext3.py run under C20 ids as well."""
from props.c20_ext_util import *
from props import c20_ext_resid as RS

MODEL = "src/phreeqcpp/model.cpp"
BS = "src/phreeqcpp/basicsubs.cpp"
Q = "Phreeqc::residuals"


def _abs(t):
    return tm.ite(tm.lt(t, tm.num(0)), tm.neg(t), t)


def _readout_psi_factor():
    """the factor k in EDL("psi") = la * k of a DDL / CCM surface, as diff_layer_total computes it (region: the chain of read-outs, path of the literal "psi")"""
    from props import c20_ext_edl as ED
    q = "Phreeqc::diff_layer_total"
    fn = A.find_function(BS, q)
    body = A.body_of(fn)["inner"]
    chain = [st for st in body if st.get("kind") == "IfStmt" and any(y.get("kind") in ("CallExpr", "CXXMemberCallExpr") and text_of(BS, y).startswith("calc_surface_charge(") for y in A.walk(st))]
    if len(chain) != 1:
        raise Undecided("diff_layer_total: the chain of read-outs was not found")
    c = ED._ctx(extra={"calc_surface_charge"})
    ev = surface_enums(c)
    fnx, ex, fin, info = U.run_region(BS, q, Sel(chain), ctx=c)
    out = {}
    sp = tm.app("call:Get_surface_ptr", (tm.app("fld:use", (THIS,), "P"),), "P")
    ty = tm.app("call:Get_type", (sp,), "I")
    for s in live(fin, ("ret",)):
        lit = None
        for e in s.events:
            if e.name.split("::")[-1] == "strcmp_nocase" and proves(s.pc, tm.eq(e.result, tm.num(0, "I"))):
                lit = next((str(a.args[0]).strip('"') for a in e.args if a.op == "str"), None)
        if lit != "psi" or s.ret is None:
            continue
        las = [u for u in tm.subterms(s.ret) if u.op == "select" and u.args[0].op == "sym" and ".la:" in str(u.args[0].args[0])]
        if len(las) != 1:
            continue
        for name in ("DDL", "CCM"):
            if sat(list(s.pc) + [tm.eq(ty, tm.num(ev[name], "I"))]):
                out.setdefault(name, []).append((s.ret, las[0], fld(ex, s, "tk_x", "R"), fld(ex, s, "LOG_10", "R")))
    return out


def unit_edl_rows(twin=False):
    fn0 = A.find_function(MODEL, Q)
    r = U.new_unit("C20.residuals.DDL_CCM_rows_by_model_with_the_unknown's_own_record_potential_and_temperature", MODEL, Q, fn0)
    R_, FK, FC, E0 = KR("R_KJ_DEG_MOL"), KR("F_KJ_V_EQ"), KR("F_C_MOL"), KR("EPSILON_ZERO")
    seen = set()
    readout = _readout_psi_factor()
    for model in ("DDL", "CCM"):
        c = RS._ctx()
        ev = surface_enums(c)
        NO_DL = tm.num(ev["NO_DL"], "I")
        fn, ex, its, info = concrete_type_iteration(MODEL, Q, int(K("SURFACE_CB")), c, surface_type=ev[model])
        for s in live(its, ("run", "cont")):
            row = RS.Row(fn, ex, s, info)
            if not RS._charge_is_this_unknowns(r, row, model):
                continue
            surf = tm.app("call:Get_surface_ptr", (tm.app("fld:use", (THIS,), "P"),), "P")
            r.add("%s.charge_record_looked_up_in_the_surface_in_use#%d" % (model, len(r.obligations)), DISCHARGED if all(e.recv is surf for e in row.fc) else FAILED, "symex", 0, repr([e.recv for e in row.fc])[:120]) if not all(e.recv is surf for e in row.fc) or (model + ".surf") not in seen else None
            seen.add(model + ".surf")
            grams = row.ch0("grams")
            m0 = tm.select(entry_arr(ex, s, ("m", "P")), tm.select(entry_arr(ex, s, ("f", "#vdata", "P")), tm.app("fld:master", (row.xi,), "P")), tm.num(0, "I"))
            la = fld0(ex, s, "la", "R", fld0(ex, s, "s", "P", m0))
            sigma = row.f * FC / row.area_grams()
            for hy0, zero in cases(row.hy, tm.eq(grams, tm.num(0))):
                if zero:
                    seen.add(model + ".no_surface")
                    U.discharge_valid(r, "%s.zero_grams.residual==0#%d" % (model, len(r.obligations)), hy0, tm.eq(row.res, tm.num(0)))
                    continue
                for hy, explicit in cases(hy0, tm.not_(tm.eq(row.dl, NO_DL))):
                    if explicit:
                        seen.add(model + ".explicit_layer")
                        U.discharge_valid(r, "%s.explicit_layer.residual==-(surface+layer_charge_f)#%d" % (model, len(r.obligations)), hy, tm.eq(row.res, tm.neg(row.f)))
                    else:
                        seen.add(model + ".law")
                        if model == "DDL":
                            k8 = tm.num(8) * row.eps * E0 * (R_ * tm.num(1000)) * row.tk * tm.num(1000)
                            law = tm.app("sqrt", (k8,), "R") * tm.app("sqrt", (row.mu,), "R") * tm.app("sinh", (la * row.ln10,), "R")
                            name = "DDL.gouy_chapman.residual==sqrt(8*eps_r*eps0*R*T(tk_x)*1e6*mu)*sinh(F*psi/2RT)-f*F/(A*g)(own_record,own_potential_master)"
                        else:
                            psi = la * tm.num(2) * R_ * row.tk * row.ln10 / FK
                            cap = row.cap(0) if not twin else row.cap(1)
                            law = cap * psi
                            name = "CCM.constant_capacitance.residual==C(own_record)*psi-f*F/(A*g),psi=2*R*T(tk_x)*ln10*la/F"
                        spec = law - (sigma if not (twin and model == "DDL") else sigma * tm.num(2))
                        U.discharge_eq_real(r, name + "#%d" % len(r.obligations), hy, row.res, spec)
                    RS._convergence(r, row, model, seen, hy)
        # twin site: the potential reported by EDL("psi") for this model is la * 2 R T ln10 / F with the same constants and the current temperature
        ro = readout.get(model, [])
        if not ro:
            r.add("%s.readout_EDL(psi)_path_found" % model, UNDECIDED, "symex", 0, "no path of diff_layer_total returns a potential for a %s surface" % model, kind="vacuity")
        for ret, la_r, tk_r, ln_r in ro[:2]:
            seen.add(model + ".readout")
            U.discharge_eq_real(r, "%s.readout_EDL(psi)==2*R*T(tk_x)*ln10*la/F:the_psi_of_the_residual_row#%d" % (model, len(r.obligations)), [], ret, la_r * tm.num(2) * R_ * tk_r * ln_r / FK)
    want = {m + x for m in ("DDL", "CCM") for x in (".no_surface", ".explicit_layer", ".law", ".readout")} | {"violated", "within"}
    r.add("reach.both_models_three_cases_and_both_convergence_cases", DISCHARGED if want <= seen else UNDECIDED, "symex", 0, "missing %r" % sorted(want - seen), kind="vacuity")
    RS._consts(r)
    r.assumptions += ["doubles as reals; sinh / sqrt as real functions", "Find_charge(name) is a deterministic look-up in the surface in use; cxxSurfaceCharge accessors are executed from their real inline definitions",
                      "x[i]->f is the charge summed over the species of this surface (and its layers): units C02/C20.mb_for_species*", "x[i]->master[0] is the potential master species of this unknown (setup_surface: C20.setup_surface.*)",
                      "the Jacobian entries of these rows (jacobian_sums) are not under contract: no property constrains the Jacobian, only the converged state",
                      "the surface in use is of the stated model for the whole iteration (Get_type() answers that model)"]
    return r


UNITS = [
    ("C20.residuals.DDL_CCM_rows_by_model_with_the_unknown's_own_record_potential_and_temperature", unit_edl_rows),
]


def _under_c20(uid, fname):
    """a unit of props/c03_ext3.py on a function that C20's quantifier names as well (surfaces related to phases or kinetic reactants): same contract, own evidence line"""
    def f(twin=False):
        from props import c03_ext3 as M3
        r_ = getattr(M3, fname)(twin=twin)
        r_.id = uid
        return r_
    return (uid, f)


UNITS += [
    _under_c20("C20.build_min_surface.related_component_enters_jacobian_and_deltas_with_formula_coefficient_x_proportion_on_the_mineral's_column", "unit_build_min_surface"),
    _under_c20("C20.setup_related_surface.site_and_charge_unknowns_start_at_moles_of_the_mineral_x_proportion", "unit_setup_related_surface"),
    _under_c20("C20.update_min_surface.totals_re-proportioned_to_site_coefficient_x_moles_of_the_partner_x_proportion", "unit_update_min_surface"),
    # fails on the unchanged tree (update_kin_surface discards the grams it reads): see props/c03_ext3.py and the report
    _under_c20("C20.update_kin_surface.totals_re-proportioned_to_site_coefficient_x_moles_of_the_partner_x_proportion", "unit_update_kin_surface"),
]
