"""C14 — numbered reactants behave as a keyed store (partial).
Keyed-store primitives Utilities::Rxn_find / Rxn_copy / Rxn_copies (cxxSolution instantiation) and
Phreeqc::delete_entities against an abstract map view with whole-view frame.  SAVE/USE, *_MODIFY, RUN_CELLS
equivalence and the component list are NOT decided."""
import time
from vf import core
from vf.core import Undecided, FAILED, DISCHARGED, UNDECIDED
from vf.astvc import ast as A, terms as tm, unit as U, backends as B, stl as STLM
from vf.astvc import symex as SX

PID = "C14"
TU = "src/phreeqcpp/mainsubs.cpp"
KW = {"type_contains": "cxxSolution"}


def mkctx():
    ctx = SX.Ctx(); ctx.stl = STLM.STL(SX)
    ctx.pure.update({"operator=", "Set_n_user", "Set_n_user_end"})     # they write only their receiver (events record which)
    return ctx


def unit_find(twin=False):
    fn = A.find_function(TU, "Utilities::Rxn_find", **KW)
    r = U.new_unit("C14.Rxn_find", "src/phreeqcpp/Phreeqc.h", "Utilities::Rxn_find<cxxSolution>", fn)
    ctx = mkctx(); ex = SX.Exec(ctx); finals = ex.run(fn, SX.State())
    M, i = tm.sym("P0_b", "P"), tm.sym("P1_i", "I")
    has = tm.select(tm.sym("H0.#mhas:B[I]", ("A", "P", "I", "B")), M, i)
    for k, s in enumerate(finals):
        want = tm.ite(has if not twin else tm.not_(has), ctx.stl.mobj(M, i), tm.NULL)
        U.discharge_valid(r, "result==(i in M ? &M[i] : NULL)[path %d]" % k, list(s.pc), tm.eq(s.ret, want))
        wr = [e for e in s.events if e.name in ("map.operator[]", "map.insert", "map.erase", "map.clear")] + [k2 for k2, v in s.heap.items() if v.op == "store"]
        r.add("store_unchanged[path %d]" % k, DISCHARGED if not wr else FAILED, "trace", 0, repr(wr)[:120], kind="frame")
    r.add("reach.two_paths", DISCHARGED if len(finals) == 2 else UNDECIDED, "symex", 0, "%d" % len(finals), kind="vacuity")
    return r


def check_copy_events(r, tag, ctx, s, M, j, src_addr, hyps, twin=False):
    """events of one copy: M[j] default-inserted, assigned from the source object, renumbered to j; nothing else written"""
    dst = ctx.stl.mobj(M, j)
    evs = [e for e in (U.iter_events(s) if any(getattr(e, "name", "") == "iter_begin" for e in s.events) else s.events)]
    idx = [e for e in evs if e.name == "map.operator[]"]
    ok = len(idx) == 1 and idx[0].recv is M and idx[0].args[0] is j
    r.add(tag + ".inserts_or_overwrites_exactly_key_j", DISCHARGED if ok else FAILED, "trace", 0, repr(idx)[:150], kind="trace")
    asg = [e for e in evs if e.name.endswith("operator=")]
    ok = len(asg) == 1 and asg[0].recv is dst and len(asg[0].args) == 1 and asg[0].args[0] is src_addr
    r.add(tag + ".M[j]_assigned_a_copy_of_the_source_object", DISCHARGED if ok else FAILED, "trace", 0, repr(asg)[:200], kind="trace")
    for setter in ("Set_n_user", "Set_n_user_end"):
        se = [e for e in evs if e.name.endswith("::" + setter)]
        ok = len(se) == 1 and se[0].recv is dst and B.z3_prove(hyps, tm.eq(se[0].args[0], j if not twin else tm.add(j, tm.num(1, "I"))))[0] == "proved"
        r.add(tag + ".copy_renumbered:%s(j)" % setter, DISCHARGED if ok else FAILED, "trace+z3", 0, repr(se)[:150], kind="trace")
    other = [e for e in evs if e not in idx and e not in asg and not e.name.endswith(("::Set_n_user", "::Set_n_user_end")) and e.name not in ("iter_begin",)]
    r.add(tag + ".no_other_object_or_key_touched", DISCHARGED if not other else FAILED, "trace", 0, repr(other)[:150], kind="frame")
    order = [e.name.split("::")[-1] for e in evs if e in idx or e in asg or e.name.endswith(("::Set_n_user", "::Set_n_user_end"))]
    ok = order[:2] == ["map.operator[]", "operator="]
    r.add(tag + ".assigned_before_renumbering", DISCHARGED if ok else FAILED, "trace", 0, repr(order), kind="trace")


def unit_copy(twin=False):
    fn = A.find_function(TU, "Utilities::Rxn_copy", **KW)
    r = U.new_unit("C14.Rxn_copy", "src/phreeqcpp/Phreeqc.h", "Utilities::Rxn_copy<cxxSolution>", fn)
    ctx = mkctx(); ex = SX.Exec(ctx); finals = ex.run(fn, SX.State())
    M, i, j = tm.sym("P0_b", "P"), tm.sym("P1_i", "I"), tm.sym("P2_j", "I")
    has = tm.select(tm.sym("H0.#mhas:B[I]", ("A", "P", "I", "B")), M, i)
    seen = set()
    for k, s in enumerate(finals):
        hyps = list(s.pc)
        if B.z3_prove(hyps, tm.not_(has))[0] == "proved":
            seen.add("absent")
            U.discharge_valid(r, "source_absent.returns_NULL", hyps, tm.eq(s.ret, tm.NULL))
            wr = [e for e in s.events if e.name.startswith("map.") or e.name.endswith("operator=")]
            r.add("source_absent.store_unchanged", DISCHARGED if not wr else FAILED, "trace", 0, repr(wr)[:120], kind="frame")
        elif B.z3_prove(hyps, has)[0] == "proved":
            seen.add("present")
            check_copy_events(r, "source_present", ctx, s, M, j, ctx.stl.mobj(M, i), hyps, twin)
            U.discharge_valid(r, "source_present.returns_&M[j]", hyps, tm.eq(s.ret, ctx.stl.mobj(M, j)))
            hasarr = s.heap.get(("m2", "#mhas", "B", "I"))
            kk = tm.sym("k_other", "I")
            U.discharge_valid(r, "source_present.every_other_key_keeps_its_presence(whole-view frame)", hyps + [tm.not_(tm.eq(kk, j))],
                              tm.eq(tm.select(hasarr, M, kk), tm.select(tm.sym("H0.#mhas:B[I]", ("A", "P", "I", "B")), M, kk)), kind="frame")
            U.discharge_valid(r, "source_present.j_present_afterwards", hyps, tm.select(hasarr, M, j))
        else:
            r.add("path%d.case" % k, FAILED, "z3-5.1", 0, "undecided case")
    r.add("reach.both_cases", DISCHARGED if seen == {"absent", "present"} else UNDECIDED, "symex", 0, repr(sorted(seen)), kind="vacuity")
    r.assumptions += ["T::operator= copies the whole object; Set_n_user/Set_n_user_end write only their receiver", "std::map<int,T> model: find/end/operator[]; &it->second is the stable address of the mapped object"]
    return r


def unit_copies(twin=False):
    fnp = A.find_function(TU, "Utilities::Rxn_copies", **KW)
    r = U.new_unit("C14.Rxn_copies", "src/phreeqcpp/Phreeqc.h", "Utilities::Rxn_copies<cxxSolution>", fnp)
    ctx = mkctx()
    fn, ex, iters, info = U.run_loop_isolated(TU, "Utilities::Rxn_copies", 0, ctx=ctx, find_kw=KW)
    M = tm.sym("&L_b", "P")
    n = 0
    for s in iters:
        if s.status not in ("run", "cont", "brk"):
            continue
        n += 1
        j = U.local_of(info, s, "j")
        it0 = tm.sym("iter_it", "P")
        src = tm.app("fld:second", (tm.app("mnode", (it0,), "P"),), "P")
        Mv = None
        for e in U.iter_events(s):
            if e.name == "map.operator[]":
                Mv = e.recv
        if Mv is None:
            r.add("iteration.inserts_key_j", FAILED, "trace", 0, ""); continue
        check_copy_events(r, "iteration", ctx, s, Mv, j, src, list(s.pc), twin)
        itn = U.local_of(info, s, "it")
        ok = itn is tm.app("miter", (Mv, j), "P")
        r.add("iteration.iterator_moves_to_the_new_copy(it==find(j))", DISCHARGED if ok else FAILED, "term-inspection", 0, repr(itn)[:100])
        U.discharge_valid(r, "iteration.j_in_(n_user,n_user_end]", list(s.pc), tm.le(j, tm.sym("L_n_user_end", "I")))
    from props.common import check_loop_range
    nu, ne = tm.sym("L_n_user", "I"), tm.sym("L_n_user_end", "I")
    check_loop_range(r, "copies", ex, ctx, info, iters, "j", nu + tm.num(1, "I") if not twin else nu, lambda v: tm.le(v, ne))
    r.add("reach.iteration", DISCHARGED if n == 1 else UNDECIDED, "symex", 0, "%d" % n, kind="vacuity")
    # before the loop: nothing happens when n_user_end <= n_user or the source is absent
    ctx2 = mkctx(); ctx2.loop = lambda ex_, st, node, o: [st]
    ex2 = SX.Exec(ctx2); finals = ex2.run(fnp, SX.State())
    for k, s in enumerate(finals):
        wr = [e for e in s.events if e.name.startswith("map.op") or e.name.endswith("operator=")]
        r.add("outside_loop.writes_nothing[path %d]" % k, DISCHARGED if not wr else FAILED, "trace", 0, repr(wr)[:100], kind="frame")
    r.assumptions += ["each copy is taken from the element the iterator designates (the previous copy): content equality with M[n_user] up to the user numbers follows by induction (stated, not mechanised)"]
    return r


def unit_mix(twin=False):
    """Utilities::Rxn_mix(mix_map, entity_map): every pending *_MIX definition is applied once - stored under its own user number and
    replicated over its range - and the pending list is EMPTIED afterwards (a definition is never applied twice)."""
    kw = {"type_contains": "cxxSolution"}
    fnp = A.find_function("src/phreeqcpp/mainsubs.cpp", "Utilities::Rxn_mix", **kw)
    r = U.new_unit("C14.Rxn_mix", "src/phreeqcpp/Phreeqc.h", "Utilities::Rxn_mix<cxxSolution>", fnp)
    ctx = mkctx(); ctx.pure.update({"Get_n_user", "Get_n_user_end", "Get_phrq_io", "Rxn_copies"}); ctx.functional.update({"Get_n_user", "Get_n_user_end"})
    fn, ex, iters, info = U.run_loop_isolated("src/phreeqcpp/mainsubs.cpp", "Utilities::Rxn_mix", 0, ctx=ctx, find_kw=kw)
    n = 0
    for s in iters:
        if s.status not in ("run", "cont", "brk"):
            continue
        n += 1
        evs = U.iter_events(s)
        idx = [e for e in evs if e.name == "map.operator[]"]
        cp = [e for e in evs if e.name.endswith("Rxn_copies")]
        okk = len(idx) == 1 and idx[0].args[0].op == "app" and idx[0].args[0].args[0] == "call:Get_n_user"
        r.add("iteration.mixed_entity_stored_under_the_mix's_own_user_number", DISCHARGED if okk else FAILED, "trace", 0, repr(idx)[:160], kind="trace")
        okc = len(cp) == 1 and len(cp[0].args) == 3 and cp[0].args[1].op == "app" and cp[0].args[1].args[0] == "call:Get_n_user" and cp[0].args[2].op == "app" and cp[0].args[2].args[0] == ("call:Get_n_user_end" if not twin else "call:Get_n_user")
        r.add("iteration.replicated_over_(n_user,n_user_end]_by_Rxn_copies", DISCHARGED if okc else FAILED, "trace", 0, repr(cp)[:200], kind="trace")
    r.add("reach.iteration", DISCHARGED if n >= 1 else UNDECIDED, "symex", 0, "%d" % n, kind="vacuity")
    ctx2 = mkctx(); ctx2.loop = lambda ex_, st, node, o: [st]
    ex2 = SX.Exec(ctx2); finals = ex2.run(fnp, SX.State())
    mm = tm.sym("P0_mix_map", "P")
    for k, s in enumerate(finals):
        cl = [e for e in s.events if e.name == "map.clear" and e.recv is mm]
        last = s.events[-1] if s.events else None
        r.add("after_loop.pending_mix_list_emptied[path %d]" % k, DISCHARGED if cl and last is cl[-1] else FAILED, "trace", 0, repr(s.events[-2:])[:160], kind="trace")
    return r


def unit_delete_entities(twin=False):
    """Phreeqc::delete_entities: for each of the reactant kinds, the numbers listed in delete_info for THAT kind are erased from
    THAT kind's map (or the map is emptied when the list is empty); no other kind's map is touched in that block."""
    rel = "src/phreeqcpp/ReadClass.cxx"
    fn = A.find_function(rel, "Phreeqc::delete_entities")
    r = U.new_unit("C14.delete_entities", rel, "Phreeqc::delete_entities", fn)
    # structural: each top-level `if (delete_info.Get_X().Get_defined())` block mentions exactly one Rxn_*_map and the same X getter
    pairs = {"Get_solution": "Rxn_solution_map", "Get_pp_assemblage": "Rxn_pp_assemblage_map", "Get_exchange": "Rxn_exchange_map",
             "Get_surface": "Rxn_surface_map", "Get_ss_assemblage": "Rxn_ss_assemblage_map", "Get_gas_phase": "Rxn_gas_phase_map",
             "Get_kinetics": "Rxn_kinetics_map", "Get_mix": "Rxn_mix_map", "Get_reaction": "Rxn_reaction_map",
             "Get_temperature": "Rxn_temperature_map", "Get_pressure": "Rxn_pressure_map"}
    if twin:
        pairs["Get_surface"] = "Rxn_exchange_map"
    seen = {}
    for blk in A.body_of(fn).get("inner", []):
        if blk.get("kind") != "IfStmt":
            continue
        getters = {x["inner"][0].get("name") for x in A.walk(blk["inner"][0]) if x.get("kind") == "CXXMemberCallExpr" and x["inner"][0].get("kind") == "MemberExpr"} & set(pairs)
        if len(getters) != 1:
            continue
        g = getters.pop()
        maps = {x.get("name") for x in A.walk(blk["inner"][1]) if x.get("kind") == "MemberExpr" and str(x.get("name", "")).startswith("Rxn_") and str(x.get("name", "")).endswith("_map")}
        gets_in_body = {x["inner"][0].get("name") for x in A.walk(blk["inner"][1]) if x.get("kind") == "CXXMemberCallExpr" and x["inner"][0].get("kind") == "MemberExpr"} & set(pairs)
        ok = maps == {pairs[g]} and gets_in_body <= {g}
        seen[g] = ok
        r.add("block[%s].erases_only_%s_using_only_its_own_number_list" % (g, pairs[g]), DISCHARGED if ok else FAILED, "ast-scan", 0, "maps %s getters %s" % (sorted(maps), sorted(gets_in_body)), kind="structure")
        calls = {x["inner"][0].get("name") for x in A.walk(blk["inner"][1]) if x.get("kind") == "CXXMemberCallExpr" and x["inner"][0].get("kind") == "MemberExpr"}
        ok2 = "clear" in calls and "erase" in calls
        r.add("block[%s].empties_map_or_erases_listed_numbers" % g, DISCHARGED if ok2 else FAILED, "ast-scan", 0, repr(sorted(calls))[:150], kind="structure")
    missing = set(pairs) - set(seen)
    r.add("every_reactant_kind_has_a_block", DISCHARGED if not missing else FAILED, "ast-scan", 0, "missing %s" % sorted(missing), kind="structure")
    r.kind = "structural"
    return r


def units(tier):
    us = []
    def wrap(uid, f):
        def g():
            r = f()
            if not any(o.status == FAILED for o in r.obligations):
                U.must_fail_twin(r, "vacuity.must_fail_twin", lambda: f(twin=True))
            return r
        us.append((uid, g))
    wrap("C14.Rxn_find", unit_find)
    wrap("C14.Rxn_copy", unit_copy)
    wrap("C14.Rxn_copies", unit_copies)
    wrap("C14.Rxn_mix", unit_mix)
    wrap("C14.delete_entities", unit_delete_entities)
    from props import c14_use as CU
    from props.common import wrap as _wrap
    _wrap(us, "C14.copy_use.save_range_is_exactly_the_scratch_number", CU.unit_copy_use)
    _wrap(us, "C14.saver.writes_exactly_the_save_range", CU.unit_saver)
    from props import c14_merge as MG
    _wrap(us, "C14.merge_redox.removes_exactly_the_conflicting_entries", MG.unit_merge_redox, "C14")
    from props import c14_modify as MD
    _wrap(us, "C14.read_raw.component_blocks_start_from_the_stored_component", MD.unit_modify_starts_from_stored)
    _wrap(us, "C14.StorageBinList.Read_forgets_previous_cells", MD.unit_storagebin_read)
    from props import c14_components as CC
    _wrap(us, "C14.list_components.every_defined_reactant_contributes", CC.unit_list_components)
    from props import c14_numkey as NKY
    wrap("C14.read_number_description.one_number_is_the_range_n-n", NKY.unit_number_description)
    return us


def run(tier, seed, only, jobs):
    t0 = time.time()
    U.TIER.update(tier=tier, seed=seed)
    us = units(tier)
    from props.common import ext_units as _ext
    us += _ext("C14")
    if only:
        us = [x for x in us if only in x[0]]
    res = core.run_units(us, jobs=jobs)
    return core.finish(PID, tier, seed, "proof", res, t0,
        checker_cmd="astvc: clang AST of the cxxSolution instantiations in mainsubs.cpp -> symbolic execution with std::map model and ghost call trace -> z3 5.1",
        trusted_base=["clang 14 AST", "astvc (vf/astvc)", "z3 5.1", "std::map<int,T> model"],
        assumptions=["other instantiations of the templates are the same text (the cxxSolution instantiation is the one verified)"],
        explanation="Keyed-store primitives with whole-view frame; SAVE/USE, *_MODIFY, RUN_CELLS equivalence and list_components are not decided.")
