"""C14: copy_use(i) redirects every reactant kind that takes part in the step to scratch number i and saves back to exactly [i, i]:
for each kind the copy goes (map, used number) -> i and the save slot becomes i..i; a kind that does not take part is not saved."""
from props.common import *
from vf.core import FAILED, DISCHARGED, UNDECIDED

MS = "src/phreeqcpp/mainsubs.cpp"
Q = "Phreeqc::copy_use"


def unit_copy_use(twin=False):
    fn = A.find_function(MS, Q)
    r = U.new_unit("C14.copy_use.save_range_is_exactly_the_scratch_number", MS, Q, fn)
    body = A.body_of(fn).get("inner", [])
    kinds = 0
    I = tm.sym("P0_i", "I")
    for st in body:
        if st.get("kind") != "IfStmt":
            continue
        f, ex, fin, info = region(MS, Q, [st], ctx(functional=tuple("Get_%s_in" % k for k in ("mix", "solution", "pp_assemblage", "reaction", "exchange", "kinetics", "surface", "temperature", "pressure", "gas_phase", "ss_assemblage")) +
                                                       tuple("Get_n_%s_user" % k for k in ("mix", "solution", "pp_assemblage", "reaction", "exchange", "kinetics", "surface", "temperature", "pressure", "gas_phase", "ss_assemblage"))))
        for s in live(fin):
            wr = {}
            for key in s.heap:
                if key[0] != "f":
                    continue
                for ix, v in writes(s, key):
                    wr[key[1]] = v
            flags = [k for k, v in wr.items() if not k.startswith("n_") and tm.isnum(v) and v.args[0] == 1]
            copies = [e for e in s.events if e.name.split("::")[-1].startswith("Rxn_copy")]
            # a reactant is copied to the scratch number exactly when it is in use
            ins = [e for e in s.events if e.name.split("::")[-1].startswith("Get_") and e.name.endswith("_in")]
            if ins:
                kname = ins[0].name.split("::")[-1][4:-3]
                in_use = tm.eq(tm.to_int(ins[0].result) if hasattr(tm, "to_int") and ins[0].result.sort == "B" else ins[0].result, tm.num(1, "I")) if ins[0].result.sort != "B" else tm.to_bool(ins[0].result)
                if twin and kname == "exchange":
                    in_use = tm.not_(in_use)
                U.discharge_valid(r, "%s.%s" % (kname, "copied_only_when_in_use" if copies else "left_alone_only_when_not_in_use"), list(s.pc), in_use if copies else tm.not_(in_use))
            if not flags:
                # not taking part: nothing but `save.K = FALSE` may be written, nothing copied... or a kind without save slot (mix, temperature, pressure, solution)
                ranged = sorted(k[2:-5] for k in wr if k.startswith("n_") and k.endswith("_user"))
                if copies and ranged:
                    # a save range is written for this kind, so it has a save slot: the flag must be raised with it (saver() consults the flag first)
                    kinds += 1
                    r.add("%s.writes_flag_and_both_ends_of_the_save_range" % ranged[0], FAILED, "symex", 0, "written: %s (the save flag is not raised)" % sorted(wr), kind="frame")
                    continue
                if copies:
                    # kinds that are only copied (mix, solution, temperature, pressure)
                    e = copies[0]
                    ok = len(e.args) == 3 and e.args[2] is info_param(info, s, "i")
                    r.add("copy_only_kind.copied_to_scratch_number", DISCHARGED if ok else FAILED, "symex", 0, repr(e.args)[:200])
                else:
                    bad = [k for k, v in wr.items() if not (tm.isnum(v) and v.args[0] == 0)]
                    r.add("absent_kind.nothing_but_flag_cleared", DISCHARGED if not bad else FAILED, "symex", 0, repr(wr)[:200], kind="frame")
                continue
            K = flags[0]
            kinds += 1
            iv = info_param(info, s, "i")
            want = {K, "n_%s_user" % K, "n_%s_user_end" % K}
            if twin:
                want = {K, "n_%s_user" % K}
            r.add("%s.writes_flag_and_both_ends_of_the_save_range" % K, DISCHARGED if set(wr) == want else FAILED, "symex", 0, "written: %s" % sorted(wr), kind="frame")
            for end in ("n_%s_user" % K, "n_%s_user_end" % K):
                if end in wr:
                    r.add("%s.%s==i" % (K, end), DISCHARGED if wr[end] is iv else FAILED, "symex", 0, repr(wr[end])[:80])
            ok = len(copies) == 1 and len(copies[0].args) == 3 and copies[0].args[2] is iv and ("Rxn_%s_map" % K) in repr(copies[0].args[0]) and ("Get_n_%s_user" % K) in repr(copies[0].args[1])
            r.add("%s.copied_from_the_used_number_to_i" % K, DISCHARGED if ok else FAILED, "symex", 0, repr([e.args for e in copies])[:300])
    # the solution is always saved to i..i
    for nm in ("save.solution", "save.n_solution_user", "save.n_solution_user_end"):
        sts = [x for x in body if text_of(MS, x).startswith(nm.replace(" ", "") + "=")]
        okv = len(sts) == 1 and text_of(MS, sts[0]).split("=")[1] in (("TRUE",) if nm == "save.solution" else ("i",))
        r.add("solution.%s_set_unconditionally" % nm, DISCHARGED if okv else FAILED, "syntactic", 0, text_of(MS, sts[0]) if sts else "missing")
    r.add("reach.kinds", DISCHARGED if kinds >= 7 else UNDECIDED, "symex", 0, "%d kinds with a save slot" % kinds, kind="vacuity")
    r.assumptions += ["Utilities::Rxn_copy(map, from, to) is under C14.Rxn_copy", "saver() acts on the save slots (not under this contract)"]
    return r


def info_param(info, s, name):
    v = s.locals.get(info["names"][name])
    return v


def unit_saver(twin=False):
    """saver(): for every kind whose save flag is set the calculated state is written under save.n_K_user and every further number
    up to save.n_K_user_end becomes a copy of it — nothing outside [n_K_user, n_K_user_end] of that kind's map is written."""
    q = "Phreeqc::saver"
    fn = A.find_function(MS, q)
    r = U.new_unit("C14.saver.writes_exactly_the_save_range", MS, q, fn)
    body = A.body_of(fn).get("inner", [])
    kinds = ["solution", "pp_assemblage", "exchange", "surface", "gas_phase", "ss_assemblage"]
    short = {"solution": "xsolution_save", "pp_assemblage": "xpp_assemblage_save", "exchange": "xexchange_save", "surface": "xsurface_save", "gas_phase": "xgas_save", "ss_assemblage": "xss_assemblage_save"}
    for K in kinds:
        ifs = [x for x in body if x.get("kind") == "IfStmt" and len(x["inner"]) >= 2 and (short[K] + "(") in text_of(MS, x["inner"][1])]      # the block that saves this kind, whatever its condition
        if len(ifs) != 1:
            r.add("%s.block_present" % K, FAILED, "syntactic", 0, "%d blocks" % len(ifs)); continue
        blk = ifs[0]["inner"][1]
        cnd = text_of(MS, ifs[0]["inner"][0])
        r.add("%s.saved_exactly_when_a_SAVE_of_that_kind_was_requested" % K, DISCHARGED if cnd in ("save.%s==TRUE" % K, "save.%s" % K, "save.%s!=FALSE" % K, "TRUE==save.%s" % K) else FAILED, "syntactic", 0, cnd, kind="structural")
        stmts = [text_of(MS, x) for x in blk.get("inner", [])]
        import re as _re
        first = "save.n_%s_user" % K
        # locals that hold the first number
        alias = {first}
        for t in stmts:
            mm = _re.match(r"^(\w+)=" + _re.escape(first) + "$", t)
            if mm:
                alias.add(mm.group(1))
        calls = [(_re.match(r"^%s\((.+)\)$" % short[K], t), k) for k, t in enumerate(stmts)]
        calls = [(mm.group(1), k) for mm, k in calls if mm]
        if len(calls) != 1:
            r.add("%s.state_saved_once" % K, FAILED, "syntactic", 0, repr(stmts)[:300]); continue
        r.add("%s.state_saved_under_first_number" % K, DISCHARGED if calls[0][0] in alias else FAILED, "syntactic", 0, "%s(%s)" % (short[K], calls[0][0]))
        m = "Rxn_%s_map" % K
        end = "save.n_%s_user_end" % K if not twin else "save.n_%s_user" % K
        via_copies = [_re.match(r"^Utilities::Rxn_copies\((\w+),(.+),(.+)\)$", t) for t in stmts]
        via_copies = [mm.groups() for mm in via_copies if mm]
        loops = [x for x in blk.get("inner", []) if x.get("kind") == "ForStmt"]
        if via_copies and not loops:
            ok = len(via_copies) == 1 and via_copies[0][0] == m and via_copies[0][1] in alias and via_copies[0][2] == end
            r.add("%s.rest_of_range_copied(Rxn_copies first..end)" % K, DISCHARGED if ok else FAILED, "syntactic", 0, repr(via_copies))
        elif len(loops) == 1 and not via_copies:
            lp = loops[0]
            hi = _re.match(r"^(\w+)=(.+)\+1$", text_of(MS, lp["inner"][0]) or "")
            hc = _re.match(r"^(\w+)<=(.+)$", text_of(MS, lp["inner"][2]) or "")
            hb = _re.match(r"^Utilities::Rxn_copy\((\w+),(.+),(\w+)\)$", text_of(MS, lp["inner"][-1]).strip("{};"))
            inc = text_of(MS, lp["inner"][3]) or ""
            if not (hi and hc and hb and inc in (hi.group(1) + "++", "++" + hi.group(1))):
                r.add("%s.copy_loop_recognised" % K, UNDECIDED, "syntactic", 0, "loop shape not recognised: %s" % text_of(MS, lp)[:160]); continue
            ok = hi.group(2) in alias and hc.group(1) == hi.group(1) and hc.group(2) == end and hb.group(1) == m and hb.group(2) in alias and hb.group(3) == hi.group(1)
            r.add("%s.rest_of_range_copied(loop first+1..end)" % K, DISCHARGED if ok else FAILED, "syntactic", 0, text_of(MS, lp)[:200])
        else:
            r.add("%s.rest_of_range_copied" % K, FAILED, "syntactic", 0, repr(stmts)[:300])
        others = [t for t in stmts if "Rxn_" in t and m not in t]
        r.add("%s.touches_only_its_own_map" % K, DISCHARGED if not others else FAILED, "syntactic", 0, repr(others), kind="frame")
    r.proved_kind = "structural"
    r.assumptions += ["Rxn_copy / Rxn_copies are under their own contracts (C14.Rxn_copy, C14.Rxn_copies)", "the kinetics branch (depends on transport state) is not pinned"]
    return r
