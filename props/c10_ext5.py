"""C10 extension, fifth batch.

C10.precision.<class>       every path of cxx<Class>::dump_raw (symbolic execution from an arbitrary object, the writer model of c10_ext3): the first
                            floating-point value sent to the stream parameter - directly, inside a value loop, or by a nested writer that does not set
                            the precision itself - is preceded ON THAT PATH by <stream parameter>.precision(p) with p >= DBL_DIG - 1 (14 digits: what the
                            1e-7 agreement and the text fixed point of the property need).  A writer without any precision call (cxxSolutionIsotope)
                            inherits the stream state: it is then counted as a floating-point write of each of its callers.
C10.read_raw.nested_block_temporaries_are_fresh
                            every read_raw that parses a nested record into a local object (temp_comp, temp_ss, temp_charge, iso, temp_totals ...):
                            the local is constructed anew for every block - its declaration lies inside the option loop that contains the nested
                            read_raw call and it is not static - or it is re-assigned from a newly constructed object before the call.
"""
import re
from props.c10_ext3 import *
from props.c10_ext3 import writer_model, class_file
from props import C10 as P

CLASSES5 = [c for r_, c in P.CLASSES] + ["cxxMix", "cxxNameDouble"]
_FILES = dict((c, D + r_) for r_, c in P.CLASSES)
_FILES.update({"cxxMix": D + "cxxMix.cxx", "cxxNameDouble": D + "NameDouble.cxx"})
DBL_DIG = 15


def _model(cls):
    try:
        return writer_model(cls)
    except KeyError:
        pass
    # classes outside P.CLASSES (cxxMix, cxxNameDouble): same executor, no option table
    rel = _FILES[cls]
    stash = Stash3()
    c = mk3(functional=("begin", "end", "size"), stash=stash)
    fn, ex, fin = run(rel, cls + "::dump_raw", c)
    return dict(fn=fn, ex=ex, paths=[dict(state=s) for s in fin], rel=rel, stash=stash)


def _sets_no_precision(cls):
    """a writer that never touches the precision inherits the stream state of its caller"""
    try:
        fn = A.find_function(_FILES[cls], cls + "::dump_raw")
    except Undecided:
        return False
    return not any(x.get("kind") == "MemberExpr" and x.get("name") == "precision" for x in A.walk(fn))


_INHERIT = {}


# the one writer that inherits the stream state BY DESIGN: cxxSolutionIsotope::dump_raw is a fragment of the -isotopes block, called only from
# cxxSolution::dump_raw after that writer's own precision call.  Every other writer must set the precision itself: a writer that loses its
# precision call does not become an inheriting one.
INHERIT_BY_DESIGN = ("cxxSolutionIsotope",)


def inherits(cls):
    if cls not in _INHERIT:
        _INHERIT[cls] = cls in INHERIT_BY_DESIGN and _sets_no_precision(cls)
    return _INHERIT[cls]


def _scan_precision(events, stash, stream, have, out, depth=0):
    """walk the events of a path (or of one loop iteration) in order.  `have` = precision already set on this path (the digits, or None).
    Appends (what, digits in force) for the FIRST floating-point write found; returns (found?, precision in force afterwards)."""
    for e in events:
        nm = sh(e)
        if nm == "precision" and e.recv is stream and e.args and tm.isnum(e.args[0]):
            have = int(e.args[0].args[0]); continue
        if nm == "precision" and e.recv is stream:
            have = -1; continue                       # not a literal: cannot be bounded
        if nm == "operator<<" and e.args and isinstance(e.args[0], tm.T) and getattr(e.args[0], "sort", None) == "R":
            out.append(("double " + repr(e.args[0])[:60], have)); return True, have
        if nm == "dump_raw" and e.name.split("::")[0] != nm and inherits(e.name.split("::")[0]) and any(a is stream for a in e.args):
            out.append(("nested writer " + e.name, have)); return True, have
        if e.name == "loop_passed" and depth < 4:
            info = stash.info(e)
            for s in (info or {}).get("its") or []:
                f, _h = _scan_precision(U.iter_events(s), stash, stream, have, out, depth + 1)
                if f:
                    return True, have
    return False, have


def unit_precision(cls, twin=False):
    rel = _FILES[cls]
    fn0 = A.find_function(rel, cls + "::dump_raw")
    r = U.new_unit("C10.precision." + cls, rel, cls + "::dump_raw", fn0)
    if inherits(cls):
        # decided from the callers: every writer that calls it has set the precision before the call (checked in the callers' units, where the
        # call counts as a floating-point write); here: it is called by at least one writer under contract and by nothing else in the RAW classes
        callers = []
        for c2 in CLASSES5:
            if c2 == cls:
                continue
            try:
                f2 = A.find_function(_FILES[c2], c2 + "::dump_raw")
            except Undecided:
                continue
            for x in A.walk(f2):
                if x.get("kind") == "CXXMemberCallExpr" and x.get("inner"):
                    me = P.strip(x["inner"][0])
                    if me.get("kind") == "MemberExpr" and me.get("name") == "dump_raw" and me.get("inner") and cls in me["inner"][0].get("type", {}).get("qualType", ""):
                        callers.append(c2)
        n_ok = 0
        for c2 in sorted(set(callers)):
            wm = _model(c2)
            stash = wm.get("stash") or _stash_of(wm)
            for k, p in enumerate(wm["paths"]):
                s = p["state"]
                if not sat(s.pc):
                    continue
                stream = _stream_param(wm["fn"], s)
                out = []
                found, _ = _scan_precision(s.events, stash, stream, None, out)
                need = DBL_DIG - 1 if not twin else DBL_DIG + 2
                good = (not found) or (out[0][1] is not None and out[0][1] >= need)
                n_ok += 1 if found else 0
                ok(r, "caller.%s.path%d.precision_set_before_the_inherited_write" % (c2, k), good, "trace", out[:1])
        ok(r, "reach.called_by_a_writer_that_sets_the_precision", bool(callers) and n_ok > 0, "symex", sorted(set(callers)), kind="vacuity", undecided=True)
        r.assumptions += ["%s::dump_raw has no precision call: it inherits the stream state; callers outside the RAW writer classes are not searched" % cls]
        return r
    wm = _model(cls)
    stash = wm.get("stash") or _stash_of(wm)
    nfound = 0
    for k, p in enumerate(wm["paths"]):
        s = p["state"]
        if not sat(s.pc):
            continue
        stream = _stream_param(wm["fn"], s)
        out = []
        found, _ = _scan_precision(s.events, stash, stream, None, out)
        if not found:
            continue
        nfound += 1
        need = DBL_DIG - 1 if not twin else DBL_DIG + 2
        ok(r, "path%d.precision_set_on_the_stream_parameter_before_the_first_floating_point_value" % k, out[0][1] is not None, "trace", out[0])
        if out[0][1] is not None:
            ok(r, "path%d.at_least_DBL_DIG-1_digits" % k, out[0][1] >= need, "trace", out[0])
    ok(r, "reach.paths_that_write_a_floating_point_value", nfound > 0, "symex", "%d of %d paths" % (nfound, len(wm["paths"])), kind="vacuity", undecided=True)
    r.assumptions += ["the stream reaches the writer with an arbitrary precision (a caller's earlier setting is not relied upon)", "loops are covered by one arbitrary iteration each (value loops that print doubles count as a write at the loop's position)",
                      "nested writers that set the precision themselves are under their own C10.precision unit"]
    return r


def _stream_param(fn, s):
    for i, p_ in enumerate(A.params_of(fn)):
        if "ostream" in p_.get("type", {}).get("qualType", ""):
            return tm.sym("P%d_%s" % (i, p_.get("name")), "P")
    raise Undecided("dump_raw without a std::ostream parameter")


_STASHES = {}


def _stash_of(wm):
    """the Stash3 the writer model of c10_ext3 was built with: recovered from the loop callback of its executor"""
    st = getattr(wm["ex"].ctx, "loop", None)
    if isinstance(st, Stash3):
        return st
    raise Undecided("writer model without a loop stash")


# ------------------------------------------------------------------------------------------------ fresh temporaries of nested blocks
def _ancestors(fn, target):
    path = []
    def find(n, trail):
        if n is target:
            path.extend(trail); return True
        for c_ in n.get("inner", []) or []:
            if isinstance(c_, dict) and find(c_, trail + [n]):
                return True
        return False
    find(fn, [])
    return path


def unit_fresh_temporaries(twin=False):
    r = U.new_unit("C10.read_raw.nested_block_temporaries_are_fresh", D + "Exchange.cxx", "cxx*::read_raw", None, kind="structural")
    n = 0
    seen_cls = set()
    for cls in [c for r_, c in P.CLASSES]:
        rel = _FILES[cls]
        try:
            fn = A.find_function(rel, cls + "::read_raw")
        except Undecided:
            continue
        decls = {x["id"]: x for x in A.walk(fn) if x.get("kind") == "VarDecl" and "id" in x}
        for x in A.walk(fn):
            if x.get("kind") != "CXXMemberCallExpr" or not x.get("inner"):
                continue
            me = P.strip(x["inner"][0])
            if me.get("kind") != "MemberExpr" or me.get("name") != "read_raw" or not me.get("inner"):
                continue
            base = P.strip(me["inner"][0])
            if base.get("kind") != "DeclRefExpr" or base.get("referencedDecl", {}).get("kind") != "VarDecl":
                continue                               # a member of *this (this->totals.read_raw): the block is read into the object itself
            did = base["referencedDecl"]["id"]
            d = decls.get(did)
            if d is None:
                continue
            q = d.get("type", {}).get("qualType", "")
            if q.strip().endswith(("&", "*")):
                continue
            name = d.get("name")
            anc = _ancestors(fn, x)
            loops = [a for a in anc if a.get("kind") in ("ForStmt", "WhileStmt", "DoStmt")]
            n += 1; seen_cls.add(cls)
            if not loops:
                ok(r, "%s.%s.read_inside_the_option_loop" % (cls, name), False, "ast", "nested read_raw call outside any loop", undecided=True); continue
            inner = loops[-1]
            declared_in_loop = any(y is d for y in A.walk(inner["inner"][-1]))
            static = d.get("storageClass") == "static"
            fresh = declared_in_loop and not static
            if twin and n == 1:
                fresh = fresh and static
            how = "declared inside the loop" if declared_in_loop else "declared outside the loop"
            if not fresh and not static:
                # reset before the call: an assignment  name = T(...)  as a statement of a block that encloses the call, ahead of it
                tgt = x
                for a in reversed(anc):
                    if a is inner:
                        break
                    if a.get("kind") == "CompoundStmt":
                        sib = a.get("inner", [])
                        idx = next((i for i, c_ in enumerate(sib) if c_ is tgt or any(y is tgt for y in A.walk(c_))), None)
                        for st_ in sib[:idx or 0]:
                            s0 = P.strip(st_)
                            if s0.get("kind") == "CXXOperatorCallExpr" and len(s0.get("inner", [])) == 3:
                                lhs, rhs = P.strip(s0["inner"][1]), P.strip(s0["inner"][2])
                                if lhs.get("kind") == "DeclRefExpr" and lhs.get("referencedDecl", {}).get("id") == did and rhs.get("kind") in ("CXXTemporaryObjectExpr", "CXXConstructExpr"):
                                    fresh = not twin or n != 1; how = "re-assigned from a new object before the call"
                    tgt = a
            ok(r, "%s.%s.is_a_new_object_for_every_nested_block" % (cls, name), fresh, "ast", "%s%s (%s)" % (how, ", static" if static else "", q))
    ok(r, "reach.nested_block_readers", n >= 8 and {"cxxExchange", "cxxSurface", "cxxSSassemblage", "cxxKinetics", "cxxGasPhase", "cxxPPassemblage", "cxxSS", "cxxSolution"} <= seen_cls,
       "ast", "%d nested read_raw calls on locals in %s" % (n, sorted(seen_cls)), kind="vacuity", undecided=True)
    r.assumptions += ["structural (AST): where the local that receives the nested block is declared relative to the option loop, its storage class, re-assignment from a new object",
                      "what the constructor leaves in a new object is under C01 / C10.defined_flags; starting from the stored component of the same name is C14.read_raw.component_blocks_start_from_the_stored_component"]
    return r


# these three writers print no floating-point value of their own (names, flags and nested writers that set the precision themselves): no unit
NO_DOUBLES = ("cxxSSassemblage", "cxxPPassemblage", "cxxExchange")
UNITS = [("C10.precision." + c, (lambda c: (lambda twin=False: unit_precision(c, twin)))(c)) for c in CLASSES5 if c not in NO_DOUBLES]
UNITS.append(("C10.read_raw.nested_block_temporaries_are_fresh", unit_fresh_temporaries))
