"""C02, fifth batch (helper-written).

* step.cpp add_pp_assemblage / add_ss_assemblage: the loop that books `amount_to_add` moles of the phase taken from the reactant books EVERY element of the
  formula - hydrogen into total_h_x, oxygen into total_o_x, any other element into its master total.  The loop is located by WHERE it is (inside the branch that
  reduces the component: Set_moles / Set_delta), not by the accumulators it writes, so that a booking loop that lost its H or O line is a counterexample and not a
  lost anchor (C02.add_pp_assemblage.amount_taken_... locates the loop through `total_h_x+=`).
* kinetics.cpp rk_kinetics: the trial states of the Runge-Kutta stages never reach the result.  After every stage of the main sequence (re-equilibration with the
  stage's moles, rate evaluation) the pure-phase assemblage AND the solid-solution assemblage are put back to the copies taken at the last saver() - stored under the
  copy's own number in the store they were taken from, and `use` re-pointed to that entry - before the next stage / the result step;  after every saver() inside
  the integration loop the copies are released (deleted, pointer nulled) and never written back over the state that was just saved."""
from props.c01_ext_util import *
from props import c02_ext as X2

STEP = "src/phreeqcpp/step.cpp"
KIN = "src/phreeqcpp/kinetics.cpp"


# ------------------------------------------------------------------------------------------------ add_pp_assemblage / add_ss_assemblage
def _booking_loop(fn):
    ifs = ifs_with_then(fn, STEP, "Set_delta(")
    if len(ifs) != 1:
        raise Undecided("branch that reduces the component (Set_delta) not found (%d)" % len(ifs))
    lps = loops_of(fn)
    inside = [k for k, lp in enumerate(lps) if any(y is lp for y in A.walk(ifs[0]["inner"][1]))]
    return ifs[0], inside


def unit_booking(twin=False):
    fn0 = A.find_function(STEP, "Phreeqc::add_pp_assemblage")
    r = U.new_unit("C02.add_pp_ss_assemblage.booking_of_the_amount_taken_covers_H_O_and_every_other_element", STEP, "Phreeqc::add_pp_assemblage; Phreeqc::add_ss_assemblage", fn0)
    for name in ("add_pp_assemblage", "add_ss_assemblage"):
        q = "Phreeqc::" + name
        fn = A.find_function(STEP, q)
        iff, inside = _booking_loop(fn)
        if not put(r, "%s.the_branch_that_takes_from_the_component_books_in_one_loop_over_the_formula" % name, len(inside) == 1, "%d loops in the branch" % len(inside), kind="trace"):
            continue
        amt = lambda coef, s, info: coef * tm.sym("L_amount_to_add", "R")
        f, ex, its, info = X2.elt_list_loop(r, name, STEP, q, inside[0], amt, twin=twin)
        # every element: decided by the species of the element's master (H -> total_h_x, O -> total_o_x, other -> its own master total)
        seen = set()
        for s in lives(its, ("run", "cont")):
            hy = list(s.pc)
            for i in X2.index_of(s):
                slot = X2.elt_slot(ex, s, i)
                mp = fld0(ex, s, "primary", "P", fld0(ex, s, "elt", "P", slot))
                if not any(mp in tm.subterms(p) for p in s.pc):
                    continue
                sp = fld0(ex, s, "s", "P", mp); hp = fld0(ex, s, "s_hplus", "P"); hw = fld0(ex, s, "s_h2o", "P")
                keys = [k[1] for k, ix, v in X2.acc_writes(s)]
                for h1, ish in cases(hy, tm.eq(sp, hp)):
                    if ish:
                        seen.add("H")
                        put(r, "%s.hydrogen_of_the_formula_is_booked_into_total_h_x" % name, keys == ["total_h_x"], repr(keys))
                        continue
                    for h2, iso in cases(h1, tm.eq(sp, hw)):
                        if iso:
                            seen.add("O")
                            put(r, "%s.oxygen_of_the_formula_is_booked_into_total_o_x" % name, keys == ["total_o_x"], repr(keys))
                        else:
                            seen.add("other")
                            put(r, "%s.any_other_element_is_booked_into_its_master_total" % name, keys == ["total"], repr(keys))
        put(r, "reach.%s.H_O_other" % name, seen == {"H", "O", "other"}, repr(sorted(seen)), kind="vacuity", undecided=True)
        # the loop is not under a further condition inside the branch: it is a direct statement of the branch
        body = iff["inner"][1]
        direct = [c for c in (body.get("inner", []) if body.get("kind") == "CompoundStmt" else [body])]
        put(r, "%s.booking_loop_runs_whenever_the_component_was_reduced" % name, any(c is loops_of(fn)[inside[0]] for c in direct), "", kind="trace")
    r.assumptions += ["how much is taken and that the component loses the same amount: C02.add_pp_assemblage.amount_taken_* / C02.add_ss_assemblage.amount_taken_*",
                      "the element list holds the formula of the phase (C02.add_pp_assemblage.formula_workspace / add_ss_assemblage.formula_workspace)",
                      "the booking loop is located as the only loop inside the branch that calls Set_delta (structure, not text of a condition)", "doubles as reals"]
    return r


# ------------------------------------------------------------------------------------------------ rk_kinetics
def _parent_seq(fn, node):
    for x in A.walk(fn):
        if x.get("kind") == "CompoundStmt":
            for k, c in enumerate(x.get("inner", [])):
                if c is node:
                    return x, k
    return None, None


def _is_call_stmt(n, name):
    n = strip(n)
    return n.get("kind") in ("CallExpr", "CXXMemberCallExpr") and text_of(KIN, n).startswith(name + "(")


def _slot(kind, sv):
    mp = tm.app("fld:Rxn_%s_assemblage_map" % kind, (THIS,), "P")
    nu = tm.app("call:Get_n_user", (sv,), "I")
    return mp, nu, tm.app("fld:second", (tm.app("mnode", (tm.app("miter", (mp, nu), "P"),), "P"),), "P")


def _copies_into(s, kind):
    """operator= events whose receiver is an entry of the store of `kind`"""
    out = []
    for e in s.events:
        if e.name.endswith("operator=") and e.recv is not None and not isinstance(e.recv, tuple) and ("Rxn_%s_assemblage_map" % kind) in repr(e.recv):
            out.append(e)
    return out


def unit_rk_restore(twin=False):
    q = "Phreeqc::rk_kinetics"
    fn = A.find_function(KIN, q)
    r = U.new_unit("C02.rk_kinetics.stage_states_are_put_back_to_the_last_saved_state_and_saved_copies_are_only_released_after_saver", KIN, q, fn)
    from props.c02_ext3_mb import Tally
    T = Tally(r)
    wl = [x for x in loops_of(fn) if x.get("kind") == "WhileStmt"]
    if not wl:
        raise Undecided("integration loop of rk_kinetics not found")
    W = wl[0]
    wbody = W["inner"][-1]
    c_ = lambda: ctx(functional=("Get_n_user", "Rxn_find"))
    SV = {k: tm.sym("L_%s_assemblage_save" % k, "P") for k in ("pp", "ss")}
    # ---- (A) stages of the main sequence: direct statements of the loop body `calc_kinetic_reaction(..)` that follow a re-equilibration
    nstage = 0
    seq = wbody.get("inner", [])
    for k, st in enumerate(seq):
        if not _is_call_stmt(st, "calc_kinetic_reaction"):
            continue
        if not any("set_and_run_wrapper(" in text_of(KIN, seq[j]) for j in range(k)):
            continue
        tail = []
        for j in range(k + 1, len(seq)):
            t = text_of(KIN, seq[j])
            if "set_and_run_wrapper(" in t or "calc_final_kinetic_reaction(" in t:
                break
            if "goto" in t or "saver()" in t:
                continue
            tail.append(seq[j])
        nstage += 1
        if not tail:
            T.put("stage.state_put_back_before_the_next_stage", False, "nothing between the rate evaluation #%d and the next stage" % nstage); continue
        f, ex, fin, info = region(KIN, q, tail, c_())
        seen = set()
        for s in lives(fin):
            hy = list(s.pc)
            for kind in ("pp", "ss"):
                sv = SV[kind]
                src_kind = kind if not (twin and kind == "ss") else "pp"
                mp, nu, slot = _slot(src_kind, sv)
                cp = _copies_into(s, kind) if not twin else _copies_into(s, src_kind)
                setp = [e for e in s.events if e.name.endswith("Set_%s_assemblage_ptr" % kind)]
                for h, on in cases(hy, nonnull(sv)):
                    if on:
                        seen.add(kind)
                        mine = [e for e in cp if e.args and sv in tm.subterms(e.args[0])]
                        T.put("stage.%s_assemblage:=the_copy_of_the_last_saver(stored_under_the_copy's_own_number)" % kind, len(mine) == 1 and (mine[0].recv is slot or repr(mine[0].recv) == repr(slot)) and len(cp) == 1,
                              "stage %d: %r" % (nstage, [(e.recv, e.args) for e in cp]))
                        want = tm.app("call:Rxn_find", (I(0), mp, nu), "P")
                        T.put("stage.use_points_to_the_restored_%s_assemblage" % kind, len(setp) == 1 and (setp[0].args[0] is want or repr(setp[0].args[0]) == repr(want)),
                              "stage %d: %r" % (nstage, [e.args for e in setp]))
                        if mine and setp:
                            T.put("stage.%s:restored_before_use_is_re-pointed" % kind, s.events.index(mine[0]) < s.events.index(setp[0]), "")
                    else:
                        T.put("stage.no_%s_copy:nothing_written_to_the_store" % kind, not cp, repr([(e.recv, e.args) for e in cp]), )
        put(r, "reach.stage%d.both_kinds" % nstage, seen == {"pp", "ss"}, repr(sorted(seen)), kind="vacuity", undecided=True)
    put(r, "reach.stages_k2..k6", nstage >= 5, "%d stages in the main sequence" % nstage, kind="vacuity", undecided=True)
    # ---- (B) after every saver() inside the integration loop: the copies are released, never written back
    nsav = 0
    for x in A.walk(wbody):
        if x.get("kind") != "CompoundStmt":
            continue
        sq = x.get("inner", [])
        for k, st in enumerate(sq):
            if not _is_call_stmt(st, "saver"):
                continue
            nsav += 1
            tail = [y for y in sq[k + 1:] if y.get("kind") != "GotoStmt" and "goto" not in text_of(KIN, y)]
            if not tail:
                T.put("after_saver.copies_released", False, "saver() #%d is the last statement of its block" % nsav); continue
            f, ex, fin, info = region(KIN, q, tail, c_())
            for s in lives(fin):
                hy = list(s.pc)
                for kind in ("pp", "ss"):
                    sv = SV[kind]
                    for h, on in cases(hy, nonnull(sv)):
                        if not on:
                            continue
                        cp = [e for e in _copies_into(s, kind) if e.args and sv in tm.subterms(e.args[0])]
                        T.put("after_saver.saved_%s_assemblage_is_not_overwritten_with_the_older_copy" % kind, not cp, "saver #%d: %r" % (nsav, [(e.recv, e.args) for e in cp]))
                        dl = [e for e in s.events if e.name == "delete" and e.args and e.args[0] is sv]
                        end = s.locals.get(info["names"]["%s_assemblage_save" % kind])
                        T.put("after_saver.%s_copy_released(deleted,pointer_nulled)" % kind, len(dl) == 1 and end is not None and not isinstance(end, tuple) and proved(h, isnull(end)),
                              "saver #%d: deletes %d, pointer afterwards %r" % (nsav, len(dl), end))
    put(r, "reach.savers_in_the_integration_loop", nsav >= 4, "%d" % nsav, kind="vacuity", undecided=True)
    r.assumptions += ["cxxPPassemblage / cxxSSassemblage assignment copies the whole record; std::map operator[] yields the entry of the key",
                      "set_and_run_wrapper changes the assemblages `use` points to in place (step.cpp add_pp_assemblage / model reset: C02.reset.*) and the solution only in the working copy (xsolution_save by saver())",
                      "stages: the rate evaluations that are direct statements of the integration loop and follow a re-equilibration (k2..k6); the rk=1 / rk=2 / rk=3 short cuts end in saver() and are covered by (B)",
                      "statements containing a goto are left out of the executed regions (the engine does not follow gotos); loops inside a region are replaced by their frame",
                      "that the copies are TAKEN from the assemblages in use after the last saver(): not under this contract"]
    return r


UNITS = [
    ("C02.add_pp_ss_assemblage.booking_of_the_amount_taken_covers_H_O_and_every_other_element", unit_booking),
    ("C02.rk_kinetics.stage_states_are_put_back_to_the_last_saved_state_and_saved_copies_are_only_released_after_saver", unit_rk_restore),
]
