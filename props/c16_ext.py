"""C16 extension units: the species-type conventions of Phreeqc::gammas that the base unit leaves out (exchange species with the
Gaines-Thomas equivalent-fraction term and the aqueous model of the exchanged ion, surface species, LLNL CO2, water), the
hand-over of the Debye-Hueckel constants, gammas_a_f, calc_dielectrics (DH_A, DH_B, A_phi), the Pitzer parameter temperature
functions (calc_pitz_param / PTEMP), the binary and Debye-Hueckel sums of Phreeqc::pitzer, gammas_pz / gammas_sit, the
PITZER_GAMMA residual row and the BASIC read-outs of activity coefficients."""
from props.common import *
from vf.core import FAILED, DISCHARGED, UNDECIDED
from vf.astvc import symex as SX

MODEL = "src/phreeqcpp/model.cpp"
ENUMS = ["TRUE", "FALSE", "OK", "STOP", "EX", "SURF", "SURF_PSI", "HPLUS", "EMINUS", "cxxSurface::CD_MUSIC"]


def error_stop(ex_, st, n, name, recv, args):
    """contract of Phreeqc::error_msg: with stop == STOP it throws PhreeqcStop and does not return"""
    if len(args) >= 2 and (args[1] is tm.TRUE or (tm.isnum(args[1]) and args[1].args[0] != 0)):
        st.events.append(SX.Event(name, recv, args, tm.num(0, "I"), n))
        st.status = "throw"
        return [(st, tm.num(0, "I"))]
    return None


def a_f_handler(ex_, st, n, name, recv, args):
    """gammas_a_f(i) adjusts lg of species i (its own unit); the call is recorded together with the memory as it stands at the call"""
    e = SX.Event(name, recv, args, tm.num(0, "I"), n)
    for k in (("f", "lg", "R"), ("f", "dg", "R"), ("f", "alk", "R")):
        ex_.heap_arr(st, k)
    e.snap = {"heap": dict(st.heap), "hprefix": st.hprefix}
    st.events.append(e)
    ex_.havoc_heap(st, "gammas_a_f")
    return [(st, tm.num(0, "I"))]


def view_before(s, call):
    """the state as the body sees it just before an opaque call that renames all memory components"""
    v = s.clone()
    v.heap = dict(call.snap["heap"]); v.hprefix = call.snap["hprefix"]
    v.iter_entry_arrays = getattr(s, "iter_entry_arrays", {})
    return v


def decide(s, c):
    """True / False when the path condition decides c, None otherwise"""
    if B.z3_prove(list(s.pc), c)[0] == "proved":
        return True
    if B.z3_prove(list(s.pc), tm.not_(c))[0] == "proved":
        return False
    return None


class _Fork(Exception):
    def __init__(self, c): self.c = c


def case_split(hyps, body, depth=0):
    """run body(dec, hyps) where dec(c) answers whether condition c holds under hyps; when the path does not decide c the case is split
    (both feasible sides are explored), so a specification by cases is compared with the code on every sub-case instead of giving up"""
    def dec(c):
        if B.z3_prove(list(hyps), c)[0] == "proved":
            return True
        if B.z3_prove(list(hyps), tm.not_(c))[0] == "proved":
            return False
        raise _Fork(c)
    try:
        return [body(dec, list(hyps))]
    except _Fork as f:
        if depth > 6:
            raise Undecided("case split too deep")
        out = []
        for c in (f.c, tm.not_(f.c)):
            if B.z3_sat(list(hyps) + [c]) != "unsat":
                out.extend(case_split(list(hyps) + [c], body, depth + 1))
        return out


def fabs_t(x):
    return tm.ite(tm.lt(x, tm.num(0)), tm.neg(x), x)


def log10_t(x):
    return tm.app("log10", (x,), "R")


def names_of(fn):
    names = {}
    for x in A.walk(fn):
        if x.get("kind") in ("VarDecl", "ParmVarDecl") and "name" in x:
            names.setdefault(x["name"], x["id"])
    return names


def run_species_function(rel, q, extra_functional=()):
    """Execute gammas / gammas_pz / gammas_sit as a whole; every loop over s_x is an iteration contract (body once for an arbitrary species
    on an arbitrary state of what the loop writes); the token scans `for (j = 1; ...token[j].s != NULL; j++)` inside a body are replaced
    by their frame (locals they assign and <scan_field> of THIS species become arbitrary) and are themselves put under an iteration contract."""
    fn = A.find_function(rel, q)
    c = ctx(functional=("Get_exchange_ptr", "Get_pitzer_exchange_gammas", "Get_surface_ptr", "Get_type") + tuple(extra_functional),
            enums_from="Phreeqc.h", enums=ENUMS, pure_all=False)
    c.handlers["Phreeqc::error_msg"] = error_stop
    c.handlers["Phreeqc::gammas_a_f"] = a_f_handler
    info = {"scan": {}, "species": {}, "entry": {}, "names": names_of(fn)}
    def sp_of(ex_, s):
        return tm.select(ex_.heap_arr(s, ("m", "P")), tm.select(ex_.heap_arr(s, ("f", "#vdata", "P")), tm.app("fld:s_x", (THIS,), "P")), s.locals[info["names"]["i"]])
    def loop(ex_, st, node, o):
        t = text_of(rel, node["inner"][2]) if node.get("kind") == "ForStmt" else ""
        if "s_x.size()" in t:
            info["entry"].setdefault(o, []).append(st.clone())
            info["species"].setdefault(o, []).extend(ex_.iterate_loop(node, st.clone()))
            return ex_.havoc_loop(node, st)
        if ".token[j].s!=" in t:
            its_ = ex_.iterate_loop(node, st.clone())
            info["scan"].setdefault(o, []).extend(its_)
            init, cond, inc, body = ex_.loop_parts(node)
            sts = ex_.exec(init, [st]) if init is not None else [st]
            ids, wm = ex_.assigned_locals(node)
            info.setdefault("scan_ids", {})[o] = dict(ids)
            # frame of the scan: the fields of THIS species its iterations write (checked per iteration by the units)
            fields = set()
            for s_ in its_:
                for k_, ix_, v_ in U.iter_writes(s_):
                    if k_[0] != "f":
                        raise Undecided("token scan writes memory other than a species field")
                    fields.add(k_)
            info.setdefault("scan_fields", {})[o] = fields
            for s in sts:
                for did, (name, qq) in ids.items():
                    s.locals[did] = SX.fresh("scan_" + str(name), SX.sort_of(qq))
                for key in sorted(fields):
                    fr = SX.fresh("scan_" + key[1], key[2])
                    info.setdefault("scan_pre", {})[fr] = tm.select(ex_.heap_arr(s, key), sp_of(ex_, s))      # value the scan starts from
                    s.heap[key] = tm.store(ex_.heap_arr(s, key), (sp_of(ex_, s),), fr)
            return sts
        return ex_.havoc_loop(node, st)
    c.loop = loop
    ex = SX.Exec(c)
    fin = ex.run(fn, SX.State())
    info.update(fn=fn, ex=ex, fin=fin)
    return info


def dh_consts(info, ex, s):
    """(A, B, mu, floored): the members DH_A / DH_B as they stand in state s (after k_temp) and the ionic-strength argument of the function"""
    p0 = A.params_of(info["fn"])[0]
    mu = tm.sym("P0_%s" % p0.get("name", "arg0"), "R")
    return tm.select(ex.heap_arr(s, ("f", "DH_A", "R")), THIS), tm.select(ex.heap_arr(s, ("f", "DH_B", "R")), THIS), mu, tm.le(mu, tm.num(0)) in s.pc


def gflag_of(s):
    for c in s.pc:
        if c.op == "==" and tm.isnum(c.args[1]) and c.args[0].op == "select" and c.args[0].args[0].op == "sym" and ".gflag:" in c.args[0].args[0].args[0]:
            return int(c.args[1].args[0]), c.args[0].args[1][0]
    return None, None


def base_arr(ex, s, key):
    """the memory component as it was when the iteration was entered (stores of the iteration peeled off)"""
    a = s.heap.get(key)
    if a is None:
        return ex.heap_arr(s, key)
    stop = getattr(s, "iter_entry_arrays", {}).get(key, ())
    while a.op == "store" and a not in stop:
        a = a.args[0]
    return a


def tok_addr(ex, s, sp, j, entry=True):
    get = base_arr
    return tm.add(tm.select(get(ex, s, ("f", "#vdata", "P")), tm.app("fld:token", (tm.app("fld:rxn_x", (sp,), "P"),), "P")), j)


def iter_frame(s, allowed):
    """stores of the iteration that are not (field in allowed, object allowed[field])"""
    bad = []
    for key, ix, v in U.iter_writes(s):
        if key[0] == "f" and key[1] in allowed and ix[0] is allowed[key[1]]:
            continue
        bad.append((key, ix))
    return bad


def scan_roles(info, ex, o):
    """which locals of the function receive the stoichiometric coefficient and the charge of an aqueous token in scan loop o (found by
    what the scan assigns, not by their names)"""
    roles = {}
    for s in info["scan"].get(o, []):
        sp = tm.select(base_arr(ex, s, ("m", "P")), tm.select(base_arr(ex, s, ("f", "#vdata", "P")), tm.app("fld:s_x", (THIS,), "P")), local(info, s, "i"))
        ta = tok_addr(ex, s, sp, local(info, s, "j"))
        ts = tm.select(base_arr(ex, s, ("f", "s", "P")), ta)
        for did in info["scan_ids"][o]:
            val = s.locals.get(did)
            if val is tm.select(base_arr(ex, s, ("f", "coef", "R")), ta):
                roles["coef"] = did
            if val is tm.select(base_arr(ex, s, ("f", "z", "R")), ts):
                roles["z"] = did
    return roles


def check_scan(r, info, ex, o, master_type, label, twin=False, sets_coef=False, roles=None):
    """iteration contract of a token scan: the token whose species has type <master_type> gives this species' alk := moles of the unknown of
    that master species; (exchange only) a token of an aqueous species (type <= HPLUS) gives coef / z; nothing else is written"""
    cnt = {"hit": 0, "aq": 0, "none": 0}
    seen = set()
    for s in live(info["scan"].get(o, []), ("run", "cont", "brk")):
        sp = tm.select(base_arr(ex, s, ("m", "P")), tm.select(base_arr(ex, s, ("f", "#vdata", "P")), tm.app("fld:s_x", (THIS,), "P")), local(info, s, "i"))
        j = local(info, s, "j")
        ta = tok_addr(ex, s, sp, j)
        ts = tm.select(base_arr(ex, s, ("f", "s", "P")), ta)
        ty = tm.select(base_arr(ex, s, ("f", "type", "I")), ts)
        wr = writes(s, ("f", "alk", "R"))
        gi = max([k for k, c in enumerate(s.pc) if ".gflag:" in repr(c)] or [0])
        key = norm_key(tuple(wr), s.status, s.pc[gi:], [s.locals.get(roles[k]) for k in ("coef", "z")] if sets_coef else "")
        if key in seen:
            continue
        seen.add(key)
        def body(dec, hyps, s=s, sp=sp, ta=ta, ts=ts, ty=ty, wr=wr):
            if dec(tm.eq(ty, tm.num(master_type, "I"))):
                cnt["hit"] += 1
                mol = tm.select(base_arr(ex, s, ("f", "moles", "R")), tm.select(base_arr(ex, s, ("f", "unknown", "P")), tm.select(base_arr(ex, s, ("f", "primary", "P")), ts if not twin else sp)))
                ok = len(wr) == 1 and wr[0][0][0] is sp and wr[0][1] is mol
                r.add(label + ".scan.alk:=moles_of_the_master_unknown_of_the_site_token", DISCHARGED if ok else FAILED, "symex", 0, repr(wr)[:200])
                if sets_coef:
                    ok = all(v_.op == "sym" and v_.args[0].startswith("iter_") for v_ in (s.locals[roles["coef"]], s.locals[roles["z"]]))
                    r.add(label + ".scan.exchanger_token_leaves_coef_and_charge", DISCHARGED if ok else FAILED, "symex", 0, "", kind="frame")
            else:
                r.add(label + ".scan.other_tokens_leave_alk", DISCHARGED if not wr else FAILED, "symex", 0, repr(wr)[:200], kind="frame")
                if sets_coef:
                    cf, zz = s.locals[roles["coef"]], s.locals[roles["z"]]
                    if dec(tm.le(ty, tm.num(info["HPLUS"], "I"))):
                        cnt["aq"] += 1
                        ok = cf is tm.select(base_arr(ex, s, ("f", "coef", "R")), ta) and zz is tm.select(base_arr(ex, s, ("f", "z", "R")), ts)
                        r.add(label + ".scan.aqueous_token_gives_coef_and_charge", DISCHARGED if ok else FAILED, "symex", 0, "%r %r" % (cf, zz))
                    else:
                        cnt["none"] += 1
                        ok = cf.op == "sym" and cf.args[0].startswith("iter_") and zz.op == "sym" and zz.args[0].startswith("iter_") and cf is not zz
                        r.add(label + ".scan.other_tokens_leave_coef_and_charge", DISCHARGED if ok else FAILED, "symex", 0, "", kind="frame")
        case_split(list(s.pc), body)
        bad = iter_frame(s, {"alk": sp})
        r.add(label + ".scan.frame_only_alk_of_this_species", DISCHARGED if not bad and not U.iter_events(s) else FAILED, "symex", 0, repr(bad)[:200], kind="frame")
    okr = cnt["hit"] >= 1 and (not sets_coef or (cnt["aq"] >= 1 and cnt["none"] >= 1))
    r.add("reach." + label + ".scan", DISCHARGED if okr else UNDECIDED, "symex", 0, repr(cnt), kind="vacuity")


def species_loop_of(info, rel, nth=0):
    os_ = sorted(info["species"])
    if len(os_) <= nth:
        raise Undecided("species loop %d not found" % nth)
    return os_[nth]


def enum_vals():
    ev = A.enum_values_compiled("Phreeqc.h", ENUMS)
    return {k.split("::")[-1]: v for k, v in ev.items()}


def aq_model(kind, Aa, Bb, mu, z, dha, dhb, al, bl, bd, twin=False):
    rt = tm.app("sqrt", (mu,), "R")
    one = tm.num(1)
    if kind == 1:
        return tm.neg(Aa) * z * z * (rt / (one + rt) - tm.Q("0.3") * mu)
    if kind == 2:
        return tm.neg(Aa) * z * z * rt / (one + dha * Bb * rt) + dhb * mu
    if kind == 7:
        return tm.neg(al) * z * z * rt / (one + dha * bl * rt) + bd * mu


def norm_key(*xs):
    import re
    return re.sub(r"![0-9]+", "!", re.sub(r"H[0-9]+\.", "H.", repr(xs)))


def unit_exchange(twin=False):
    """gammas, case 4 (exchange species).  Gaines-Thomas convention: the activity of an exchange species is its equivalent fraction, so
    log gamma = log10(|equiv| / CEC) with CEC = moles of the exchanger's master unknown (0 for the master species itself and when CEC <= 0);
    with -pitzer_exchange_gammas the aqueous model assigned to the species (Davies / WATEQ / LLNL B-dot, evaluated with the charge z and the
    stoichiometric coefficient coef of the exchanged ion) is added:  lg = coef * lg_aq(z) + log10(|equiv| / CEC)."""
    q = "Phreeqc::gammas"
    info = run_species_function(MODEL, q)
    fn, ex = info["fn"], info["ex"]
    ev = enum_vals(); info["HPLUS"] = ev["HPLUS"]
    r = U.new_unit("C16.gammas.exchange_species_equivalent_fraction_and_aqueous_model", MODEL, q, fn)
    o = species_loop_of(info, MODEL)
    seen = set(); cov = {}
    scans = [o_ for o_, vv in info["scan"].items() if any(gflag_of(s_)[0] == 4 for s_ in vv)]
    if len(scans) != 1:
        raise Undecided("token scan of case 4 not found")
    roles = scan_roles(info, ex, scans[0])
    if set(roles) != {"coef", "z"} or roles["coef"] == roles["z"]:
        nreal = [d for d, (nm, qq) in info["scan_ids"][scans[0]].items() if SX.sort_of(qq) == "R"]
        if len(roles) == 1 and len(nreal) == 2:
            r.add("CEC.scan.aqueous_token_gives_coef_and_charge", FAILED, "symex", 0, "only %r of (coef, z) is taken from the aqueous token" % (sorted(roles),))
            return r
        raise Undecided("the locals that receive coefficient and charge of the exchanged ion were not recognised")
    for s in info["species"][o]:
        if s.status not in ("run", "cont", "brk"):
            continue
        g, sp = gflag_of(s)
        if g != 4:
            continue
        calls = [e for e in U.iter_events(s) if e.name.endswith("gammas_a_f")]
        v = view_before(s, calls[0]) if calls else s
        wl = [val for ix, val in writes(v, ("f", "lg", "R")) if ix[0] is sp]
        Aa, Bb, mu, floored = dh_consts(info, ex, v)
        if floored:
            continue            # mu <= 0 is floored to a tiny constant; never the reported ionic strength
        gi = [k for k, c in enumerate(s.pc) if c.op == "==" and ".gflag:" in repr(c.args[0])][0]
        key0 = norm_key(wl, len(calls), s.pc[gi:], s.status)
        if key0 in seen:
            continue
        seen.add(key0)
        if B.z3_sat(list(s.pc)) == "unsat":
            continue
        cd = tm.select(base_arr(ex, s, ("f", "calculating_deriv", "I")), THIS)
        if s.status == "cont" and not wl:
            ok = decide(s, tm.not_(tm.eq(cd, tm.num(0, "I")))) is True and not U.iter_writes(s)
            if "skip" not in cov:
                r.add("derivative_pass.leaves_the_species_untouched", DISCHARGED if ok else FAILED, "symex", 0, "", kind="frame")
            cov["skip"] = 1
            continue
        if not wl:
            r.add("writes_lg", FAILED, "symex", 0, "a path of case 4 does not write lg: %r" % (s.pc[-4:],)); continue
        lg = wl[-1]
        alkv = [val for ix, val in writes(v, ("f", "alk", "R")) if ix[0] is sp]
        if len(alkv) != 1:
            r.add("alk_from_the_scan", FAILED, "symex", 0, repr(alkv)[:200]); continue
        alk = alkv[0]
        F = lambda nm, so="R", ob=sp: tm.select(base_arr(ex, v, ("f", nm, so)), ob)
        equiv, dha, dhb, moles = F("equiv"), F("dha"), F("dhb"), F("moles")
        prim = F("primary", "P"); eg = F("exch_gflag", "I"); af = F("a_f")
        pgs = [e.result for e in U.iter_events(s) if e.name.endswith("Get_pitzer_exchange_gammas")]
        if not pgs:
            r.add("asks_pitzer_exchange_gammas", FAILED, "symex", 0, ""); continue
        E = log10_t(fabs_t(equiv) / alk)
        if twin:
            E = log10_t(alk / fabs_t(equiv))
        al, bl, bd = (F(nm, "R", THIS) for nm in ("a_llnl", "b_llnl", "bdot_llnl"))
        coef, z = s.locals[roles["coef"]], s.locals[roles["z"]]
        want = tm.and_(tm.not_(tm.eq(af, tm.num(0))), tm.eq(prim, tm.num(0, "P")), tm.not_(tm.eq(moles, tm.num(0))))
        def body(dec, hyps, s=s, sp=sp, lg=lg, calls=calls, v=v):
            pg = dec(tm.to_bool(pgs[0]))
            kind = None
            if pg:
                for k in (1, 2, 7):
                    if dec(tm.eq(eg, tm.num(k, "I"))) and dec(tm.lt(tm.num(0), alk)):
                        kind = k
            if kind is not None:
                spec = coef * aq_model(kind, Aa, Bb, mu, z, dha, dhb, al, bl, bd) + E
                tag = "aqueous_model_%s" % {1: "Davies", 2: "WATEQ", 7: "LLNL"}[kind]
            else:
                isprim = dec(tm.not_(tm.eq(prim, tm.num(0, "P"))))
                pos = (not isprim) and dec(tm.lt(tm.num(0), alk))
                spec = tm.num(0) if (isprim or not pos) else E
                tag = ("pitzer_exchange_gammas" if pg else "plain") + (".master_species" if isprim else (".CEC>0" if pos else ".CEC<=0"))
            wanted = dec(want)
            cov[tag] = cov.get(tag, 0) + 1
            tag2 = tag + ("[a_f]" if calls else "") + "#%d" % cov[tag]
            U.discharge_eq_real(r, tag2 + ".lg==%s" % ("coef*lg_aq(z)+log10(|equiv|/CEC)" if kind else ("0" if spec is tm.num(0) else "log10(|equiv|/CEC)")), hyps, lg, spec)
            # active-fraction correction asked exactly when a_f != 0, not the master species, moles != 0
            okc = (wanted and len(calls) == 1 and calls[0].args[0] is local(info, v, "i")) or (not wanted and not calls)
            r.add(tag2 + ".gammas_a_f(i)_iff_a_f_and_not_master_and_moles", DISCHARGED if okc else FAILED, "symex", 0, "%r %d" % (wanted, len(calls)), kind="post")
            bad = iter_frame(v, {"lg": sp, "dg": sp, "alk": sp})
            r.add(tag2 + ".frame_only_lg_dg_alk_of_this_species", DISCHARGED if not bad else FAILED, "symex", 0, repr(bad)[:200], kind="frame")
        case_split(list(s.pc), body)
    need = {"aqueous_model_Davies", "aqueous_model_WATEQ", "aqueous_model_LLNL", "plain.master_species", "plain.CEC>0", "plain.CEC<=0", "pitzer_exchange_gammas.CEC>0", "skip"}
    missing = need - set(cov)
    r.add("reach.exchange_cases", DISCHARGED if not missing else UNDECIDED, "symex", 0, "covered %r missing %r" % (sorted(cov), sorted(missing)), kind="vacuity")
    # the scan that finds CEC, coef and z
    check_scan(r, info, ex, scans[0], ev["EX"], "CEC", twin=False, sets_coef=True, roles=roles)
    r.assumptions += ["iterations of the species loop are independent; the token scan is replaced by its frame (alk of this species, coef, z arbitrary) and checked by its own iteration contract",
                      "which token is LAST in the reaction (the scan does not stop at the first exchanger / ion) is not pinned", "gammas_a_f under its own unit",
                      "dg (a Jacobian entry) is not constrained by the property and is not checked here", "error_msg(STOP) throws", "doubles as reals; log10, sqrt uninterpreted"]
    return r


def vec_at(ex, s, name, k, sort="R"):
    d = tm.select(ex.heap_arr(s, ("f", "#vdata", "P")), tm.app("fld:" + name, (THIS,), "P"))
    return tm.select(ex.heap_arr(s, ("m", sort)), d, tm.num(k, "I") if isinstance(k, int) else k)


def unit_other_cases(twin=False):
    """gammas, cases 6 (surface species: log gamma = log10(equiv / sites), equiv = 1 for CD-MUSIC mole fractions, 0 when there are no sites),
    8 (LLNL CO2: ln gamma = (C + F T + G/T) I - (E + H T) I/(I+1), reported as log10) and 9 (water: the H2O species carries
    log gamma = log10(a_w * gfw_water) so that molality(55.5) * gamma = a_w)."""
    q = "Phreeqc::gammas"
    info = run_species_function(MODEL, q)
    fn, ex = info["fn"], info["ex"]
    ev = enum_vals()
    r = U.new_unit("C16.gammas.surface_LLNL_CO2_and_water_species", MODEL, q, fn)
    o = species_loop_of(info, MODEL)
    seen = set(); cov = {}
    for s in info["species"][o]:
        g, sp = gflag_of(s)
        if g not in (6, 8, 9) or s.status not in ("run", "cont", "brk"):
            continue
        Aa, Bb, mu, floored = dh_consts(info, ex, s)
        if floored:
            continue
        wl = [val for ix, val in writes(s, ("f", "lg", "R")) if ix[0] is sp]
        gi = [k for k, c in enumerate(s.pc) if c.op == "==" and ".gflag:" in repr(c.args[0])][0]
        k0 = norm_key(g, wl, s.pc[gi:])
        if k0 in seen or B.z3_sat(list(s.pc)) == "unsat":
            continue
        seen.add(k0)
        if len(wl) != 1:
            r.add("case%d.writes_lg_once" % g, FAILED, "symex", 0, repr(wl)[:200]); continue
        lg = wl[0]
        F = lambda nm, so="R", ob=sp: tm.select(base_arr(ex, s, ("f", nm, so)), ob)
        if g == 6:
            alkv = [val for ix, val in writes(s, ("f", "alk", "R")) if ix[0] is sp]
            tys = [e.result for e in U.iter_events(s) if e.name.endswith("Get_type")]
            if len(alkv) != 1 or not tys:
                r.add("surface.sites_from_the_scan_and_surface_type_asked", FAILED, "symex", 0, ""); continue
            alk = alkv[0]
            def body(dec, hyps, s=s, sp=sp, lg=lg, alk=alk, tys=tys, F=F):
                cd = dec(tm.eq(tys[0], tm.num(ev["CD_MUSIC"], "I")))
                pos = dec(tm.lt(tm.num(0), alk))
                eq_ = tm.num(1) if cd else F("equiv")
                if twin:
                    eq_ = F("equiv") if cd else tm.num(1)
                spec = log10_t(eq_ / alk) if pos else tm.num(0)
                tag = "surface.%s.%s" % ("CD_MUSIC" if cd else "other", "sites>0" if pos else "sites<=0")
                cov[tag] = cov.get(tag, 0) + 1
                U.discharge_eq_real(r, "%s#%d.lg==%s" % (tag, cov[tag], "log10(%s/sites)" % ("1" if cd else "equiv") if pos else "0"), hyps, lg, spec)
            case_split(list(s.pc), body)
            allowed = {"lg": sp, "dg": sp, "alk": sp}
        elif g == 8:
            T = F("tk_x", "R", THIS); ln10 = F("LOG_10", "R", THIS)
            c = [vec_at(ex, s, "llnl_co2_coefs", k) for k in range(5)]
            spec = ((c[0] + c[1] * T + c[2] / T) * mu - (c[3] + c[4] * T) * (mu / (mu + tm.num(1)))) / ln10
            if twin:
                spec = ((c[0] + c[1] * T + c[2] / T) * mu - (c[3] + c[4] * T) * (mu / (mu + tm.num(1)))) * ln10
            cov["co2"] = cov.get("co2", 0) + 1
            U.discharge_eq_real(r, "LLNL_CO2#%d.lg==((C+F*T+G/T)*I-(E+H*T)*I/(I+1))/ln10" % cov["co2"], list(s.pc), lg, spec)
            allowed = {"lg": sp, "dg": sp}
        else:
            h2o = F("s_h2o", "P", THIS)
            spec = log10_t(tm.app("exp", (F("la", "R", h2o) * F("LOG_10", "R", THIS),), "R") * F("gfw_water", "R", THIS))
            cov["water"] = cov.get("water", 0) + 1
            U.discharge_eq_real(r, "water#%d.lg==log10(10^la(H2O)*gfw_water)" % cov["water"], list(s.pc), lg, spec)
            allowed = {"lg": sp, "dg": sp}
        bad = iter_frame(s, allowed)
        r.add("case%d#%d.frame_only_lg_dg%s_of_this_species" % (g, len(seen), "_alk" if g == 6 else ""), DISCHARGED if not bad else FAILED, "symex", 0, repr(bad)[:200], kind="frame")
    need = {"surface.CD_MUSIC.sites>0", "surface.other.sites>0", "surface.other.sites<=0", "co2", "water"}
    missing = need - set(cov)
    r.add("reach.cases", DISCHARGED if not missing else UNDECIDED, "symex", 0, "covered %r missing %r" % (sorted(cov), sorted(missing)), kind="vacuity")
    # without LLNL parameters case 8 stops
    thr = [s for s in info["species"][o] if gflag_of(s)[0] == 8 and s.status == "throw"]
    runs_without = [s for s in info["species"][o] if gflag_of(s)[0] == 8 and s.status != "throw" and B.z3_sat(list(s.pc) + [tm.le(tm.select(ex.heap_arr(s, ("f", "#vsize", "I")), tm.app("fld:llnl_temp", (THIS,), "P")), tm.num(0, "I"))]) == "sat"]
    r.add("LLNL_CO2.no_value_without_LLNL_parameters(error)", DISCHARGED if thr and not runs_without else FAILED, "symex", 0, "%d/%d" % (len(thr), len(runs_without)))
    scans = [o_ for o_, vv in info["scan"].items() if any(gflag_of(s_)[0] == 6 for s_ in vv)]
    if len(scans) != 1:
        raise Undecided("token scan of case 6 not found")
    check_scan(r, info, ex, scans[0], ev["SURF"], "sites", twin=False)
    r.assumptions += ["iterations of the species loop are independent; the token scan is replaced by its frame and checked by its own iteration contract",
                      "the LLNL CO2 coefficient order (C, F, G, E, H) is the order of the -co2_coefs data block", "dg is not checked (Jacobian entry)", "doubles as reals; log10, exp uninterpreted"]
    return r


def unit_handover(twin=False):
    """gammas: the A and B in the Davies and extended Debye-Hueckel expressions are the members DH_A and DH_B (the values BASIC DH_A / DH_B
    report) as they stand after k_temp(tc_x, patm_x), and the ionic strength is the function's argument; Pitzer and SIT databases are
    handed to gammas_pz(true) / gammas_sit() and nothing is computed here."""
    q = "Phreeqc::gammas"
    info = run_species_function(MODEL, q)
    fn, ex = info["fn"], info["ex"]
    r = U.new_unit("C16.gammas.uses_reported_DH_A_DH_B_and_hands_Pitzer_SIT_over", MODEL, q, fn)
    o = species_loop_of(info, MODEL)
    n = 0
    for s in info["entry"][o]:
        if B.z3_sat(list(s.pc)) == "unsat":
            continue
        n += 1
        kt = [e for e in s.events if e.name.endswith("k_temp")]
        h0 = lambda nm: tm.select(tm.sym("H0.%s:R" % nm, ("A", "P", "R")), THIS)
        okk = len(kt) == 1 and kt[0].args[0] is h0("tc_x") and kt[0].args[1] is h0("patm_x" if not twin else "tk_x")
        r.add("entry#%d.k_temp(tc_x,patm_x)_refreshes_the_constants_first" % n, DISCHARGED if okk else FAILED, "symex", 0, repr(kt)[:200])
    r.add("reach.loop_entries", DISCHARGED if n >= 2 else UNDECIDED, "symex", 0, "%d" % n, kind="vacuity")
    cov = {}; seen = set()
    for s in info["species"][o]:
        g, sp = gflag_of(s)
        if g not in (0, 1, 2) or s.status not in ("run", "cont", "brk"):
            continue
        Aa, Bb, mu, floored = dh_consts(info, ex, s)
        if floored or Aa.args[0].args[0].startswith("H0."):
            continue
        wl = [val for ix, val in writes(s, ("f", "lg", "R")) if ix[0] is sp]
        k0 = norm_key(g, wl)
        if k0 in seen or len(wl) != 1 or B.z3_sat(list(s.pc)) == "unsat":
            continue
        seen.add(k0)
        F = lambda nm: tm.select(base_arr(ex, s, ("f", nm, "R")), sp)
        spec = F("dhb") * mu if g == 0 else aq_model(g, Aa, Bb, mu, F("z"), F("dha"), F("dhb"), None, None, None)
        cov[g] = cov.get(g, 0) + 1
        U.discharge_eq_real(r, "case%d#%d.lg==model(member_DH_A,member_DH_B,argument_mu)" % (g, cov[g]), list(s.pc), wl[0], spec)
    r.add("reach.cases_0_1_2", DISCHARGED if set(cov) == {0, 1, 2} else UNDECIDED, "symex", 0, repr(cov), kind="vacuity")
    # hand-over
    ev = enum_vals()
    for member, callee, args in (("pitzer_model", "gammas_pz", 1), ("sit_model", "gammas_sit", 0)):
        hit = [s for s in info["fin"] if s.status == "ret" and any(e.name.endswith(callee) for e in s.events)]
        ok = bool(hit)
        for s in hit:
            e = [e for e in s.events if e.name.endswith(callee)][0]
            ok = ok and s.ret is e.result and not any(x.name.endswith("k_temp") for x in s.events) and (args == 0 or e.args[0] is tm.TRUE or (tm.isnum(e.args[0]) and e.args[0].args[0] == 1))
            ok = ok and decide(s, tm.eq(tm.select(tm.sym("H0.%s:I" % member, ("A", "P", "I")), THIS), tm.num(ev["TRUE"], "I"))) is True
        r.add("handover.%s==TRUE_returns_%s(%s)" % (member, callee, "true" if args else ""), DISCHARGED if ok else FAILED, "symex", 0, "%d paths" % len(hit))
        other = [s for s in info["entry"][o] if B.z3_sat(list(s.pc)) != "unsat" and decide(s, tm.eq(tm.select(tm.sym("H0.%s:I" % member, ("A", "P", "I")), THIS), tm.num(ev["TRUE"], "I"))) is not False][:1]
        r.add("handover.%s:no_ion_association_gamma_computed" % member, DISCHARGED if not other else FAILED, "symex", 0, "")
    r.assumptions += ["k_temp -> calc_dielectrics sets DH_A / DH_B (unit C16.calc_dielectrics)", "gammas_pz / gammas_sit under their own units",
                      "an argument mu <= 0 is floored to a tiny positive constant; that path is not the reported ionic strength and is not checked"]
    return r


def unit_gammas_a_f(twin=False):
    """gammas_a_f(i1) (active-fraction model for exchange species): beta = min(1, moles*equiv of species i1 / sum of moles*equiv over the
    exchange species (gflag 4, not the master) on the SAME exchanger); the stored fraction dw_a moves towards beta by a damping weight w in
    [0.5, 0.8] (dw_a' - beta = w (dw_a - beta), so its fixed point is beta) and log gamma is lowered by a_f * (1 - dw_a'); only lg and dw_a
    of species i1 change."""
    import sympy
    q = "Phreeqc::gammas_a_f"
    c = ctx(functional=("strcmp", "c_str"), enums_from="Phreeqc.h", enums=ENUMS)
    fn, ex, fin, info = U.run_function(MODEL, q, modes={0: "iter", 1: "iter", 2: "havoc"}, ctx=c)
    r = U.new_unit("C16.gammas_a_f.equivalent_fraction_on_the_same_exchanger_and_damped_update", MODEL, q, fn)
    ev = enum_vals()
    loops = [x for x in A.walk(fn) if x.get("kind") in ("ForStmt", "WhileStmt", "DoStmt")]
    if len(loops) != 3:
        raise Undecided("gammas_a_f: expected the exchanger search, the species loop and its token scan (3 loops), found %d" % len(loops))
    i1 = tm.sym("P0_%s" % A.params_of(fn)[0].get("name", "arg0"), "I")
    spx = lambda s, i: tm.select(base_arr(ex, s, ("m", "P")), tm.select(base_arr(ex, s, ("f", "#vdata", "P")), tm.app("fld:s_x", (THIS,), "P")), i)
    # (1) the exchanger: name of the first token of type EX of species i1
    n0 = 0
    for s in live(info["iter"].get(0, []), ("run", "cont", "brk")):
        sp = spx(s, i1)
        ta = tok_addr(ex, s, sp, local(info, s, "j"))
        ts = tm.select(base_arr(ex, s, ("f", "s", "P")), ta)
        ty = tm.select(base_arr(ex, s, ("f", "type", "I")), ts)
        asg = [e for e in U.iter_events(s) if e.name.endswith("operator=")]
        def body(dec, hyps, s=s, ts=ts, asg=asg):
            if dec(tm.eq(ty, tm.num(ev["EX"], "I"))):
                ok = len(asg) == 1 and asg[0].args[0] is tm.select(base_arr(ex, s, ("f", "name", "P")), ts) and s.status == "brk"
                r.add("exchanger.name_is_taken_from_the_first_exchanger_token_of_species_i1", DISCHARGED if ok else FAILED, "symex", 0, repr(asg)[:200])
            else:
                r.add("exchanger.other_tokens_are_skipped", DISCHARGED if not asg and s.status != "brk" else FAILED, "symex", 0, "", kind="frame")
        case_split(list(s.pc), body)
        n0 += 1
    # (2) the sum over the species on that exchanger
    c2 = ctx(functional=("strcmp", "c_str"), enums_from="Phreeqc.h", enums=ENUMS)
    f2, ex2, its2, info2 = U.run_loop_isolated(MODEL, q, 2, ctx=c2)
    n2 = 0
    for s in live(its2, ("run", "cont", "brk")):
        i = local(info2, s, "i")
        sp = tm.select(base_arr(ex2, s, ("m", "P")), tm.select(base_arr(ex2, s, ("f", "#vdata", "P")), tm.app("fld:s_x", (THIS,), "P")), i)
        ta = tok_addr(ex2, s, sp, local(info2, s, "j"))
        ts = tm.select(base_arr(ex2, s, ("f", "s", "P")), ta)
        ty = tm.select(base_arr(ex2, s, ("f", "type", "I")), ts)
        sm, sm0 = local(info2, s, "sum"), tm.sym("iter_sum", "R")
        cmpv = [e for e in U.iter_events(s) if e.name.endswith("strcmp")]
        def body(dec, hyps, s=s, sp=sp, ts=ts, sm=sm, cmpv=cmpv):
            if dec(tm.eq(ty, tm.num(ev["EX"], "I"))):
                if len(cmpv) != 1 or tm.select(base_arr(ex2, s, ("f", "name", "P")), ts) not in cmpv[0].args:
                    r.add("sum.exchanger_name_of_the_token_compared", FAILED, "symex", 0, repr(cmpv)[:200]); return
                same = dec(tm.eq(cmpv[0].result, tm.num(0, "I")))
                F = lambda nm: tm.select(base_arr(ex2, s, ("f", nm, "R")), sp)
                add = F("moles") * F("equiv") if not twin else F("moles")
                U.discharge_eq_real(r, "sum.%s_exchanger:%s" % ("same" if same else "other", "sum+=moles*equiv" if same else "sum_unchanged"), hyps, sm, sm0 + add if same else sm0)
                r.add("sum.stops_at_the_species'_exchanger_token(%s)" % ("same" if same else "other"), DISCHARGED if s.status == "brk" else FAILED, "symex", 0, s.status)
            else:
                r.add("sum.non_exchanger_tokens_add_nothing", DISCHARGED if sm is sm0 and s.status != "brk" else FAILED, "symex", 0, "", kind="frame")
        case_split(list(s.pc), body)
        r.add("sum.scan_writes_no_memory#%d" % n2, DISCHARGED if not U.iter_writes(s) else FAILED, "symex", 0, "", kind="frame")
        n2 += 1
    n1 = 0
    for s in live(info["iter"].get(1, []), ("run", "cont", "brk")):
        sp = spx(s, local(info, s, "i"))
        g = tm.select(base_arr(ex, s, ("f", "gflag", "I")), sp); pr = tm.select(base_arr(ex, s, ("f", "primary", "P")), sp)
        inner = any(st_ for st_ in [1])
        def body(dec, hyps, s=s):
            counted = dec(tm.and_(tm.eq(g, tm.num(4, "I")), tm.eq(pr, tm.num(0, "P"))))
            if not counted:
                ok = local(info, s, "sum") is tm.sym("iter_sum", "R") and s.status == "cont"
                r.add("sum.only_exchange_species_that_are_not_the_master_count", DISCHARGED if ok else FAILED, "symex", 0, s.status)
            else:
                r.add("sum.exchange_species_reach_the_token_scan", DISCHARGED if s.status != "cont" else FAILED, "symex", 0, s.status)
        case_split(list(s.pc), body)
        r.add("sum.species_loop_writes_no_memory#%d" % n1, DISCHARGED if not U.iter_writes(s) else FAILED, "symex", 0, "", kind="frame")
        n1 += 1
    check_accumulator_init(r, fn, MODEL, loops[1], "sum", "sum")
    # (3) the update
    n3 = 0
    for s in live(fin, ("ret",)):
        sp = spx(s, i1)
        F = lambda nm: tm.select(base_arr(ex, s, ("f", nm, "R")), sp)
        # the sum the species loop leaves (arbitrary here: loop summarised)
        wl = [v for ix, v in writes(s, ("f", "lg", "R")) if ix[0] is sp]; wd = [v for ix, v in writes(s, ("f", "dw_a", "R")) if ix[0] is sp]
        if len(wl) != 1 or len(wd) != 1:
            r.add("update.writes_lg_and_dw_a_of_species_i1_once", FAILED, "symex", 0, "%d %d" % (len(wl), len(wd))); continue
        sums = [t for t in tm.subterms(wd[0]) if t.op == "sym" and t.args[0].startswith("havoc_")] + [t for c_ in s.pc for t in tm.subterms(c_) if t.op == "sym" and t.args[0].startswith("havoc_")]
        sums = list(dict.fromkeys(sums))
        if len(sums) != 1:
            r.add("update.uses_the_sum_left_by_the_species_loop", FAILED, "symex", 0, repr(sums)); continue
        ratio = F("moles") * F("equiv") / sums[0]
        def body(dec, hyps, s=s, wl=wl, wd=wd, ratio=ratio, F=F):
            big = dec(tm.lt(tm.num(1), ratio))
            beta = tm.num(1) if big else ratio
            X = wd[0]
            cv = B.SymConv()
            o_, t_, x_ = cv.conv(F("dw_a")), cv.conv(beta), cv.conv(X)
            w = sympy.diff(x_, o_)
            okl = sympy.simplify(sympy.cancel(x_ - (w * o_ + (1 - w) * t_))) == 0 and not w.has(o_)
            r.add("update.dw_a'-beta==w*(dw_a-beta)[%s]#%d" % ("beta=1" if big else "beta=ratio", n3), DISCHARGED if okl else FAILED, "sympy", 0, str(w))
            # w within [1/2, 4/5]: w is a term over a_f; rebuild it as a term by solving from the code value at dw_a = 1, beta = 0
            wt = tm.substitute(X, {F("dw_a"): tm.num(1), ratio: tm.num(0)}) if not big else None
            if wt is None:
                wt = tm.substitute(X, {F("dw_a"): tm.num(1)}) - tm.substitute(X, {F("dw_a"): tm.num(0)})
            lo, hi = (tm.Q("0.5"), tm.Q("0.8")) if not twin else (tm.Q("0.9"), tm.Q("1.0"))
            U.discharge_valid(r, "update.damping_weight_within_[0.5,0.8][%s]#%d" % ("beta=1" if big else "beta=ratio", n3), hyps, tm.and_(tm.le(lo, wt), tm.le(wt, hi)))
            U.discharge_eq_real(r, "update.lg'==lg-a_f*(1-dw_a')[%s]#%d" % ("beta=1" if big else "beta=ratio", n3), hyps, wl[0], F("lg") - F("a_f") * (tm.num(1) - X))
        case_split(list(s.pc), body)
        bad = [(k, ix) for k, ix, v in U.iter_writes(s) if not (k[0] == "f" and k[1] in ("lg", "dw_a") and ix[0] is sp)]
        r.add("update.frame_only_lg_and_dw_a_of_species_i1#%d" % n3, DISCHARGED if not bad else FAILED, "symex", 0, repr(bad)[:200], kind="frame")
        n3 += 1
    r.add("reach.search,scan,species,update", DISCHARGED if n0 >= 2 and n2 >= 3 and n1 >= 2 and n3 >= 3 else UNDECIDED, "symex", 0, "%d/%d/%d/%d" % (n0, n2, n1, n3), kind="vacuity")
    r.assumptions += ["strcmp == 0 iff the two exchanger names are equal (species names are interned strings)", "the damping constants themselves are not pinned, only that the weight stays in [0.5, 0.8]",
                      "sum != 0 (the species itself is counted when it has moles)", "doubles as reals"]
    return r


UTIL = "src/phreeqcpp/utilities.cpp"
BRADLEY_PITZER = ("3.4279e2", "-5.0866e-3", "9.4690e-7", "-2.0525", "3.1159e3", "-1.8289e2", "-8.0325e3", "4.2142e6", "2.1417")   # U1..U9, Bradley & Pitzer 1979, table II


def pitz_param_frame(ex_, st, n, name, recv, args):
    """frame of calc_pitz_param(pz, TK, TR) (its own unit): only pz->p and pz->U change"""
    st.events.append(SX.Event(name, recv, args, tm.num(0, "I"), n))
    k = ("f", "p", "R")
    st.heap[k] = tm.store(ex_.heap_arr(st, k), (args[0],), SX.fresh("pitz_p", "R"))
    return [(st, tm.num(0, "I"))]


def same_real(a, b):
    try:
        return a is b or B.sympy_equal(a, b)[0]
    except ValueError:
        return False


def unit_dielectrics(twin=False):
    """calc_dielectrics(tc, pa): relative dielectric constant of water by Bradley & Pitzer (1979): eps = D1000 + C ln((B + P)/(B + 1000)), P in
    bar, T = tc + 273.15 (tc capped at 350); with e2 = (e^2/k_B) / (eps T):  kappa-parameter DH_B = sqrt(8 pi N_A e2 rho_0 / 1000) in 1/cm,
    reported in 1/Angstrom (/1e8);  DH_A = DH_B[1/cm] * e2 / (2 ln 10)  (= the textbook (2 pi N_A rho_0/1000)^(1/2) e2^(3/2) / ln 10);  for
    Pitzer / SIT the osmotic-coefficient slope A0 = A_phi = DH_A ln10 / 3, or the database's APHI parameter evaluated at T when one is given;
    with an LLNL temperature grid nothing is recomputed."""
    from fractions import Fraction as Fr
    q = "Phreeqc::calc_dielectrics"
    c = ctx(enums_from="Phreeqc.h", enums=ENUMS)
    c.handlers["Phreeqc::calc_pitz_param"] = pitz_param_frame
    fn, ex, fin, info = U.run_function(UTIL, q, ctx=c)
    r = U.new_unit("C16.calc_dielectrics.DH_A_DH_B_Aphi_from_density_dielectric_constant_temperature", UTIL, q, fn)
    ps = A.params_of(fn)
    tc, pa = tm.sym("P0_%s" % ps[0]["name"], "R"), tm.sym("P1_%s" % ps[1]["name"], "R")
    u = [tm.Q(x) for x in BRADLEY_PITZER]
    NA = tm.num(hdr_value("AVOGADRO")); PI = tm.num(hdr_value("pi"))
    for nm, val, ideal, tol in (("AVOGADRO", NA, Fr("6.02214076e23"), Fr(1, 1000)), ("pi", PI, Fr("3.14159265358979323846"), Fr(1, 10**12))):
        r.add("const.%s~%s" % (nm, float(ideal)), DISCHARGED if abs(val.args[0] - ideal) / ideal < tol else FAILED, "exact-rational", 0, str(float(val.args[0])), kind="const")
    CE_ideal = Fr("4.803204e-10") ** 2 / Fr("1.38065e-16")
    n = nll = 0; cov = set()
    lit = None
    for s in live(fin, ("ret",)):
        if ("f", "DH_B", "R") in s.heap and lit is None:
            for t in tm.subterms(tm.select(s.heap[("f", "DH_B", "R")], THIS)):
                if t.op == "num" and t.sort == "R" and abs(float(t.args[0]) - float(CE_ideal)) < 1e-4 * float(CE_ideal):
                    lit = t
    r.add("const.e^2/k_B~1.671008e-3(rel 1e-5)", DISCHARGED if lit is not None and abs(lit.args[0] - CE_ideal) / CE_ideal < Fr(1, 10**5) else FAILED, "exact-rational", 0, repr(lit), kind="const")
    if lit is None:
        return r
    for s in live(fin, ("ret",)):
        H0 = lambda nm, so="R": tm.select(tm.sym("H0.%s:%s" % (nm, so), ("A", "P", so)), THIS)
        size = tm.select(tm.sym("H0.#vsize:I", ("A", "P", "I")), tm.app("fld:llnl_temp", (THIS,), "P"))
        wrote = sorted(k[1] for k, ix, v in U.iter_writes(s)) if False else sorted(k[1] for k, v in s.heap.items() if v.op == "store")
        llnl = decide(s, tm.lt(tm.num(0, "I"), size))
        if llnl is not False:
            nll += 1
            r.add("LLNL_grid.nothing_recomputed", DISCHARGED if llnl and not wrote else FAILED, "symex", 0, repr(wrote), kind="frame")
            continue
        n += 1
        fin_ = lambda nm: tm.select(s.heap[("f", nm, "R")], THIS) if ("f", nm, "R") in s.heap else H0(nm)
        capped = tm.lt(tm.num(350), tc) in s.pc
        r.add("path%d.temperature_cap_decided" % n, DISCHARGED if capped or tm.not_(tm.lt(tm.num(350), tc)) in s.pc else FAILED, "symex", 0, "")
        T = (tm.num(350) if capped else tc) + tm.Q("273.15")
        d1000 = u[0] * tm.app("exp", (T * (u[1] + T * u[2]),), "R")
        Cc = u[3] + u[4] / (u[5] + T)
        Bb = u[6] + u[7] / T + u[8] * T
        pb = pa * tm.Q("1.01325")
        eps_raw = d1000 + Cc * tm.app("log", ((Bb + pb) / (Bb + tm.num(1000)),), "R")
        eps = fin_("eps_r")
        guards = [c_ for c_ in s.pc if (c_.op == "<=" or (c_.op == "not" and c_.args[0].op == "<=")) and "exp" in repr(c_)]
        if tm.isnum(eps):
            ok = len(guards) == 1 and guards[0].op == "<=" and tm.isnum(guards[0].args[1]) and guards[0].args[1].args[0] == 0 and same_real(guards[0].args[0], eps_raw) and eps.args[0] > 0
            r.add("path%d.eps_r:fallback_only_when_Bradley_Pitzer_value<=0" % n, DISCHARGED if ok else FAILED, "sympy", 0, repr(guards)[:200])
            cov.add("fallback")
        else:
            ok = len(guards) == 1 and guards[0].op == "not" and tm.isnum(guards[0].args[0].args[1]) and guards[0].args[0].args[1].args[0] == 0 and same_real(guards[0].args[0].args[0], eps_raw)
            r.add("path%d.eps_r:kept_when_positive" % n, DISCHARGED if ok else FAILED, "sympy", 0, repr(guards)[:200])
            U.discharge_eq_real(r, "path%d.eps_r==D1000+C*ln((B+P_bar)/(B+1000))[Bradley-Pitzer_1979]" % n, list(s.pc), eps, eps_raw)
            cov.add("bp")
        e2 = lit / (eps * T)
        rho = H0("rho_0"); ln10 = H0("LOG_10")
        Bcm = tm.app("sqrt", (tm.num(8) * PI * NA * e2 * rho / tm.num(1000),), "R")
        U.discharge_eq_real(r, "path%d.DH_B==sqrt(8*pi*N_A*e2*rho_0/1000)/1e8" % n, list(s.pc), fin_("DH_B"), Bcm / tm.num(10**8))
        U.discharge_eq_real(r, "path%d.DH_A==DH_B[1/cm]*e2/(2*ln10)" % n, list(s.pc), fin_("DH_A"), Bcm * e2 / (tm.num(2) * ln10))
        # A0
        pz, st_, ap = H0("pitzer_model", "I"), H0("sit_model", "I"), H0("aphi", "P")
        def body(dec, hyps, s=s, n=n, T=T):
            used = dec(tm.or_(tm.not_(tm.eq(pz, tm.num(0, "I"))), tm.not_(tm.eq(st_, tm.num(0, "I")))))
            calls = [e for e in s.events if e.name.endswith("calc_pitz_param")]
            if not used:
                r.add("path%d.A0_untouched_without_Pitzer_or_SIT" % n, DISCHARGED if ("f", "A0", "R") not in s.heap or s.heap[("f", "A0", "R")].op != "store" else FAILED, "symex", 0, "", kind="frame")
                cov.add("noA0"); return
            db = dec(tm.and_(tm.not_(tm.eq(pz, tm.num(0, "I"))), tm.not_(tm.eq(ap, tm.num(0, "P")))))
            if db:
                ok = len(calls) == 1 and calls[0].args[0] is ap and same_real(calls[0].args[1], T) and tm.isnum(calls[0].args[2]) and calls[0].args[2].args[0] == Fr("298.15")
                r.add("path%d.APHI_parameter_evaluated_at_T_with_reference_298.15" % n, DISCHARGED if ok else FAILED, "symex", 0, repr(calls)[:200])
                ok2 = ok and fin_("A0") is tm.select(s.heap[("f", "p", "R")], ap)
                r.add("path%d.A0==database_APHI(T)" % n, DISCHARGED if ok2 else FAILED, "symex", 0, repr(fin_("A0"))[:100])
                cov.add("aphi")
            else:
                r.add("path%d.no_APHI_evaluation" % n, DISCHARGED if not calls else FAILED, "symex", 0, "")
                U.discharge_eq_real(r, "path%d.A0==DH_A*ln10/3" % n, hyps, fin_("A0"), fin_("DH_A") * ln10 / tm.num(3 if not twin else 2))
                cov.add("A0")
        case_split(list(s.pc), body)
        extra = [w for w in wrote if w not in ("eps_r", "DH_A", "DH_B", "A0", "DH_Av", "ZBrn", "QBrn", "dgdP", "p")]
        r.add("path%d.frame_dielectric_and_Debye_Hueckel_members_only" % n, DISCHARGED if not extra else FAILED, "symex", 0, repr(extra), kind="frame")
    need = {"bp", "fallback", "A0", "aphi", "noA0"}
    r.add("reach.paths", DISCHARGED if need <= cov and nll >= 1 else UNDECIDED, "symex", 0, "%r llnl=%d" % (sorted(cov), nll), kind="vacuity")
    r.assumptions += ["rho_0 is the water density member as left by calc_rho_0 (k_temp calls it first); DH_Av, ZBrn, QBrn are not checked here",
                      "calc_pitz_param writes only pz->p / pz->U (unit C16.calc_pitz_param)", "Bradley-Pitzer coefficients compared with the published table as exact decimals",
                      "doubles as reals; exp, log, sqrt uninterpreted"]
    return r


def hdr_value(name):
    from vf.astvc import hdr
    return hdr.define_value("src/phreeqcpp/global_structures.h", name)


PITZ = "src/phreeqcpp/pitzer.cpp"


def unit_calc_pitz_param(twin=False):
    """calc_pitz_param(pz, TK, TR): the parameter's temperature function of the Pitzer data bases
       p(T) = a0 + a1 (1/T - 1/Tr) + a2 ln(T/Tr) + a3 (T - Tr) + a4 (T^2 - Tr^2) + a5 (1/T^2 - 1/Tr^2)
    is stored in pz->p (the value the sums of pitzer() use); the short cut p = a0 is taken only within 0.001 K of the reference temperature
    (where the function equals a0 up to rounding); nothing but pz->p and the parameter's typed copy pz->U is written."""
    q = "Phreeqc::calc_pitz_param"
    c = ctx(enums_from="Phreeqc.h", enums=ENUMS)
    c.handlers["Phreeqc::error_msg"] = error_stop
    fn, ex, fin, info = U.run_function(PITZ, q, ctx=c)
    r = U.new_unit("C16.calc_pitz_param.temperature_function_of_a_Pitzer_parameter", PITZ, q, fn)
    ps = A.params_of(fn)
    pz, TK, TR = tm.sym("P0_%s" % ps[0]["name"], "P"), tm.sym("P1_%s" % ps[1]["name"], "R"), tm.sym("P2_%s" % ps[2]["name"], "R")
    a = lambda k: tm.select(tm.sym("H0.mem:R", ("A", "P", "I", "R")), tm.app("fld:a", (pz,), "P"), tm.num(k, "I"))
    one = tm.num(1)
    formula = (a(0) + a(1) * (one / TK - one / TR) + a(2) * tm.app("log", (TK / TR,), "R") + a(3) * (TK - TR) + a(4) * (TK * TK - TR * TR)
               + a(5) * (one / (TK * TK) - one / (TR * TR)))
    if twin:
        formula = formula - a(5) * (one / (TK * TK) - one / (TR * TR)) + a(5) * (one / TK - one / TR)
    near = tm.lt(fabs_t(TK - TR), tm.Q("0.001"))
    nf = ns = 0; seen = set()
    for s in live(fin, ("ret", "throw")):
        wp = [v for k, ix, v in U.iter_writes(s) if k == ("f", "p", "R") and ix[0] is pz]
        if len(wp) != 1:
            r.add("p_written_once", FAILED, "symex", 0, repr(wp)[:200]); continue
        val = wp[0]
        k0 = norm_key(val)
        first = k0 not in seen
        seen.add(k0)
        if first:
            if val is a(0):
                ns += 1
                U.discharge_valid(r, "shortcut.p=a0_only_within_0.001K_of_Tr", list(s.pc), near)
            else:
                nf += 1
                U.discharge_eq_real(r, "p==a0+a1(1/T-1/Tr)+a2*ln(T/Tr)+a3(T-Tr)+a4(T^2-Tr^2)+a5(1/T^2-1/Tr^2)", list(s.pc), val, formula)
        other = [(k, ix, v) for k, ix, v in U.iter_writes(s) if not (k == ("f", "p", "R") and ix[0] is pz)]
        bad = [(k, ix) for k, ix, v in other if not (ix[0] is tm.app("fld:U", (pz,), "P") and v is val)]
        if bad or first:
            r.add("frame.only_p_and_typed_copy(=p)_of_this_parameter#%d" % len(r.obligations), DISCHARGED if not bad else FAILED, "symex", 0, repr(bad)[:200], kind="frame")
    r.add("reach.formula_and_shortcut", DISCHARGED if nf >= 1 and ns >= 1 else UNDECIDED, "symex", 0, "%d/%d" % (nf, ns), kind="vacuity")
    r.assumptions += ["a[0..5] are the six numbers of the database line; Tr = 298.15 is passed by the callers (PTEMP, calc_dielectrics: checked there)", "doubles as reals; log uninterpreted"]
    return r


def limited_havoc(fields):
    def h(ex_, st, n, name, recv, args):
        st.events.append(SX.Event(name, recv, args, tm.num(0, "I"), n))
        for f, so in fields:
            k = ("f", f, so)
            st.heap[k] = tm.store(ex_.heap_arr(st, k), (THIS,), SX.fresh("new_" + f, so))
        return [(st, tm.num(0, "I"))]
    return h


def unit_ptemp(twin=False):
    """PTEMP(TK): unless temperature and pressure are those of the last evaluation (within 0.001 K and 0.1 atm) every Pitzer parameter in use
    (param_list) and the special parameters aphi, mcb0, mcb1, mcc0 are re-evaluated at TK with reference temperature 298.15 K, the water
    density and then the dielectric / Debye-Hueckel constants are refreshed at (TK - 273.15, patm_x), and TK / patm_x are remembered."""
    from fractions import Fraction as Fr
    q = "Phreeqc::PTEMP"
    c = ctx(enums_from="Phreeqc.h", enums=ENUMS, functional=("calc_rho_0",))
    c.handlers["Phreeqc::calc_pitz_param"] = pitz_param_frame
    c.handlers["Phreeqc::calc_dielectrics"] = limited_havoc([(f, "R") for f in ("eps_r", "DH_A", "DH_B", "A0", "DH_Av", "ZBrn", "QBrn", "dgdP")])
    fn, ex, fin, info = U.run_function(PITZ, q, modes={0: "iter"}, ctx=c)
    r = U.new_unit("C16.PTEMP.every_parameter_in_use_reevaluated_at_TK_reference_298.15", PITZ, q, fn)
    TK = tm.sym("P0_%s" % A.params_of(fn)[0]["name"], "R")
    H0 = lambda nm, so="R": tm.select(tm.sym("H0.%s:%s" % (nm, so), ("A", "P", so)), THIS)
    TR = Fr("298.15") if not twin else Fr("273.15")
    same = tm.and_(tm.lt(fabs_t(TK - H0("OTEMP")), tm.Q("0.001")), tm.lt(fabs_t(H0("patm_x") - H0("OPRESS")), tm.Q("0.1")))
    is_eval = lambda e, ptr: e.name.endswith("calc_pitz_param") and e.args[0] is ptr and e.args[1] is TK and tm.isnum(e.args[2]) and e.args[2].args[0] == TR
    nskip = nre = 0
    for s in live(fin, ("ret",)):
        evs = [e for e in s.events if e.name != "iter_begin"]
        wr = U.iter_writes(s)
        if not evs and not wr:
            nskip += 1
            U.discharge_valid(r, "skip.only_when_T_and_P_are_those_of_the_last_evaluation", list(s.pc), same)
            continue
        nre += 1
        tag = "recompute#%d" % nre
        U.discharge_valid(r, tag + ".because_T_or_P_changed", list(s.pc), tm.not_(same))
        rho = [e for e in evs if e.name.endswith("calc_rho_0")]; die = [e for e in evs if e.name.endswith("calc_dielectrics")]
        tcarg = TK - tm.Q("273.15")
        ok = len(rho) == 1 and len(die) == 1 and evs.index(rho[0]) < evs.index(die[0]) and all(same_real(e.args[0], tcarg) and e.args[1] is H0("patm_x") for e in (rho[0], die[0]))
        r.add(tag + ".density_then_dielectrics_at(TK-273.15,patm_x)", DISCHARGED if ok else FAILED, "symex", 0, repr(rho + die)[:200])
        fin_ = lambda nm: tm.select(s.heap[("f", nm, "R")], THIS) if ("f", nm, "R") in s.heap else H0(nm)
        r.add(tag + ".rho_0_is_the_density_just_computed", DISCHARGED if rho and fin_("rho_0") is rho[0].result else FAILED, "symex", 0, repr(fin_("rho_0"))[:100])
        r.add(tag + ".remembers_TK_and_patm_x", DISCHARGED if fin_("OTEMP") is TK and fin_("OPRESS") is H0("patm_x") else FAILED, "symex", 0, "")
        def body(dec, hyps, s=s, evs=evs, tag=tag):
            for nm in ("aphi", "mcb0", "mcb1", "mcc0"):
                ptr = H0(nm, "P")
                present = dec(tm.not_(tm.eq(ptr, tm.num(0, "P"))))
                k = sum(1 for e in evs if is_eval(e, ptr))
                stray = sum(1 for e in evs if e.name.endswith("calc_pitz_param") and e.args[0] is ptr) - k
                okp = (k == 1 and stray == 0) if present else (k == 0 and stray == 0)
                if not okp:
                    r.add(tag + ".%s_evaluated_at(TK,298.15)_iff_defined" % nm, FAILED, "symex", 0, "present=%r evaluations=%d other=%d" % (present, k, stray)); return
            r.add(tag + ".aphi,mcb0,mcb1,mcc0_evaluated_at(TK,298.15)_iff_defined", DISCHARGED, "symex", 0, "")
        case_split(list(s.pc), body)
    ni = 0
    for s in live(info["iter"].get(0, []), ("run", "cont")):
        ni += 1
        j = local(info, s, "j")
        idx = tm.select(ex.heap_arr(s, ("m", "I")), tm.select(ex.heap_arr(s, ("f", "#vdata", "P")), tm.app("fld:param_list", (THIS,), "P")), j)
        ptr = tm.select(ex.heap_arr(s, ("m", "P")), tm.select(ex.heap_arr(s, ("f", "#vdata", "P")), tm.app("fld:pitz_params", (THIS,), "P")), idx)
        evs = [e for e in U.iter_events(s) if e.name.endswith("calc_pitz_param")]
        r.add("list.pitz_params[param_list[j]]_evaluated_once_at(TK,298.15)", DISCHARGED if len(evs) == 1 and is_eval(evs[0], ptr) else FAILED, "symex", 0, repr(evs)[:300])
    loops = [x for x in A.walk(fn) if x.get("kind") == "ForStmt"]
    okb = len(loops) == 1 and squeeze_text(PITZ, loops[0]["inner"][2]).endswith("<param_list.size()")
    r.add("list.loop_runs_over_the_whole_param_list", DISCHARGED if okb else FAILED, "syntactic", 0, "", kind="structural")
    r.add("reach.skip,recompute,list", DISCHARGED if nskip >= 1 and nre >= 2 and ni >= 1 else UNDECIDED, "symex", 0, "%d/%d/%d" % (nskip, nre, ni), kind="vacuity")
    r.assumptions += ["calc_pitz_param writes only the parameter (unit C16.calc_pitz_param); calc_dielectrics writes only dielectric / Debye-Hueckel members (unit C16.calc_dielectrics)",
                      "calc_rho_0 treated as a function of its arguments", "the loop bound is compared as text (which list the loop runs over)"]
    return r


def squeeze_text(rel, n):
    return text_of(rel, n)


PZ_TYPES = ["TYPE_B0", "TYPE_B1", "TYPE_B2", "TYPE_C0", "TYPE_THETA", "TYPE_LAMBDA", "TYPE_ZETA", "TYPE_PSI", "TYPE_ETHETA", "TYPE_ALPHAS", "TYPE_MU", "TYPE_ETA", "TYPE_Other"]


def if_without_else(ifnode):
    """the `if (c) S` part of an if / else-if chain element (so that only this branch is executed)"""
    return {"kind": "IfStmt", "inner": list(ifnode["inner"][:2]), "id": ifnode.get("id"), "range": ifnode.get("range")}


def innermost_ifs_doing(fn, rel, what):
    """IfStmts located by what their then-branch DOES (its text contains `what`), innermost ones only"""
    c = [x for x in A.walk(fn) if x.get("kind") == "IfStmt" and len(x.get("inner", [])) >= 2 and what in text_of(rel, x["inner"][1])]
    return [x for x in c if not any(y is not x and y in c for y in A.walk(x["inner"][1]))]


def loop_doing(fn, rel, what, nth=0):
    """ordinal of the (innermost) loop located by what its body DOES: its text contains every string of `what`"""
    what = (what,) if isinstance(what, str) else what
    loops = [x for x in A.walk(fn) if x.get("kind") in ("ForStmt", "WhileStmt", "DoStmt")]
    c = [k for k, lp in enumerate(loops) if all(w in text_of(rel, lp["inner"][-1]) for w in what)]
    c = [k for k in c if not any(loops[k2] is not loops[k] and k2 in c for k2 in range(len(loops)) if any(y is loops[k2] for y in A.walk(loops[k]["inner"][-1])))]
    if len(c) <= nth:
        raise Undecided("loop whose body contains %r not found" % (what,))
    return c[nth]


def loop_bound_list(fn, rel, ordinal):
    lp = [x for x in A.walk(fn) if x.get("kind") in ("ForStmt", "WhileStmt", "DoStmt")][ordinal]
    return text_of(rel, lp["inner"][2]) if lp.get("kind") == "ForStmt" else ""


def loc(info, s, name):
    try:
        return local(info, s, name)
    except KeyError:
        raise Undecided("local `%s` of the function not found (renamed?)" % name)


def fn_value(rel, q, arg):
    """the value a one-argument real function returns for a non-zero argument, with its parameter replaced by arg"""
    f, ex, fin, info = U.run_function(rel, q, ctx=ctx())
    p0 = tm.sym("P0_%s" % A.params_of(f)[0]["name"], "R")
    rets = [s.ret for s in live(fin, ("ret",)) if tm.not_(tm.eq(p0, tm.num(0))) in s.pc]
    if len(rets) != 1:
        raise Undecided("%s: value for a non-zero argument not found" % q)
    return tm.substitute(rets[0], {p0: arg})


def real_exp_log(e):
    import sympy
    e = e.replace(lambda x: getattr(x, "func", None) is not None and str(x.func) == "uf_exp", lambda x: sympy.exp(x.args[0]))
    return e.replace(lambda x: getattr(x, "func", None) is not None and str(x.func) == "uf_log", lambda x: sympy.log(x.args[0]))


def unit_pitzer_binary(twin=False):
    """pitzer(): Gibbs-Duhem consistency of the binary-interaction terms and of the Debye-Hueckel term.  With Omega = (phi - 1) sum(m) =
    2*OSMOT and ln gamma_k = L_k + z_k^2 F + |z_k| CSUM, the relation  d Omega = sum_k m_k d ln gamma_k  must hold for every composition
    change; for the increments one parameter (B0, B1, B2, C0) contributes this is, for X in {m_i0, m_i1, I, Z = sum m|z|}:
        d(2 dOSMOT)/dX == m_i0 d(dL_i0)/dX + m_i1 d(dL_i1)/dX + 2 I d(F_var)/dX + Z d(dCSUM)/dX      (sum_k m_k z_k^2 = 2 I),
    with g(x), g'(x) the functions Phreeqc::G / GP return; the Debye-Hueckel part: F = -A0 (sqrt(I)/(1 + b sqrt(I)) + (2/b) ln(1 + b sqrt(I))),
    OSMOT_DH = -A0 I^1.5 / (1 + b sqrt(I)), b = 1.2, and d(2 OSMOT_DH)/dI == 2 I dF/dI."""
    import sympy
    q = "Phreeqc::pitzer"
    fn = A.find_function(PITZ, q)
    r = U.new_unit("C16.pitzer.binary_and_Debye_Hueckel_terms_obey_Gibbs_Duhem", PITZ, q, fn)
    o = loop_doing(fn, PITZ, ("F_var", "OSMOT+=", "LGAMMA["))
    r.add("lists.parameter_sums_run_over_param_list", DISCHARGED if loop_bound_list(fn, PITZ, o).endswith("<param_list.size()") else FAILED, "syntactic", 0, loop_bound_list(fn, PITZ, o), kind="structural")
    c = ctx(functional=("G", "GP"), enums_from="Phreeqc.h", enums=ENUMS + PZ_TYPES)
    c.handlers["Phreeqc::error_msg"] = error_stop
    f, ex, its, info = U.run_loop_isolated(PITZ, q, o, ctx=c)
    ev = A.enum_values_compiled("Phreeqc.h", PZ_TYPES)
    I_t, DI_t, Z_t = tm.sym("L_I", "R"), tm.sym("L_DI", "R"), tm.sym("L_BIGZ", "R")
    done = {}
    for s in live(its, ("run", "cont")):
        ty = [c_ for c_ in s.pc if c_.op == "==" and tm.isnum(c_.args[1]) and ".type:" in repr(c_.args[0])[:12 + 8]]
        ty = [c_ for c_ in s.pc if c_.op == "==" and tm.isnum(c_.args[1]) and c_.args[0].op == "select" and c_.args[0].args[0].op == "sym" and ".type:" in c_.args[0].args[0].args[0]]
        if not ty:
            continue
        label = [k for k, v_ in ev.items() if v_ == int(ty[0].args[1].args[0])]
        if not label or label[0] not in ("TYPE_B0", "TYPE_B1", "TYPE_B2", "TYPE_C0"):
            continue
        label = label[0]
        wr = writes(s, ("m", "R"))
        if not wr:
            continue                      # param == 0: nothing added
        LG = tm.select(base_arr(ex, s, ("f", "#vdata", "P")), tm.app("fld:LGAMMA", (THIS,), "P"))
        Mv = tm.select(base_arr(ex, s, ("f", "#vdata", "P")), tm.app("fld:M", (THIS,), "P"))
        mem0 = base_arr(ex, s, ("m", "R"))
        if len(wr) != 2 or any(ix[0] is not LG for ix, v_ in wr) or wr[0][0][1] is wr[1][0][1]:
            r.add("%s.adds_to_LGAMMA_of_both_ions" % label, FAILED, "symex", 0, repr([ix for ix, v_ in wr])[:200]); continue
        i0, i1 = wr[0][0][1], wr[1][0][1]
        # distinct species: the second update reads the array after the first one; for i0 != i1 that is the entry value
        unstore = {}
        for v_ in (wr[1][1],):
            for t in tm.subterms(v_):
                if t.op == "select" and t.args[0].op == "store" and t.args[1] == (LG, i1):
                    unstore[t] = tm.select(mem0, LG, i1)
        v1 = tm.substitute(wr[1][1], unstore)
        cv = B.SymConv()
        m0, m1 = cv.conv(tm.select(mem0, Mv, i0)), cv.conv(tm.select(mem0, Mv, i1))
        Isym, Zsym = sympy.Symbol("I", positive=True), sympy.Symbol("Z", positive=True)
        def conv(t):
            calls = {}
            for x in tm.subterms(t):
                if x.op == "app" and x.args[0] in ("call:G", "call:GP"):
                    calls[x] = fn_value(PITZ, "Phreeqc::" + x.args[0][5:], x.args[-1])
            e = cv.conv(tm.substitute(t, calls))
            e = real_exp_log(e)
            return e.subs({cv.conv(DI_t): sympy.sqrt(Isym)}).subs({cv.conv(I_t): Isym, cv.conv(Z_t): Zsym})
        dL0 = conv(wr[0][1] - tm.select(mem0, LG, i0)); dL1 = conv(v1 - tm.select(mem0, LG, i1))
        dO = conv(loc(info, s, "OSMOT") - tm.sym("iter_OSMOT", "R")); dC = conv(loc(info, s, "CSUM") - tm.sym("iter_CSUM", "R")); Fv = conv(loc(info, s, "F_var"))
        okF = all(conv(loc(info, s, nm) - tm.sym("iter_" + nm, "R") - loc(info, s, "F_var")) == 0 for nm in ("F", "F1", "F2"))
        if label in done:
            continue
        done[label] = 1
        r.add("%s.F_var_enters_F_for_every_charge_class" % label, DISCHARGED if okF else FAILED, "sympy", 0, "")
        for X, nm in ((m0, "m_i0"), (m1, "m_i1"), (Isym, "I"), (Zsym, "Z")):
            lhs = sympy.diff((2 if not twin else 3) * dO, X)
            rhs = m0 * sympy.diff(dL0, X) + m1 * sympy.diff(dL1, X) + 2 * Isym * sympy.diff(Fv, X) + Zsym * sympy.diff(dC, X)
            res = sympy.simplify(lhs - rhs)
            r.add("%s.Gibbs_Duhem:d(2*dOSMOT)/d%s==sum_k(m_k*d(dlngamma_k)/d%s)" % (label, nm, nm), DISCHARGED if res == 0 else FAILED, "sympy.diff", 0, "" if res == 0 else str(res)[:300])
        # symmetric pair: the two ions get the same coefficient of the partner's molality
        sym_ok = sympy.simplify(dL0 / m1 - dL1 / m0) == 0
        r.add("%s.symmetric_in_the_two_ions" % label, DISCHARGED if sym_ok else FAILED, "sympy", 0, "")
    r.add("reach.B0_B1_B2_C0", DISCHARGED if set(done) == {"TYPE_B0", "TYPE_B1", "TYPE_B2", "TYPE_C0"} else UNDECIDED, "symex", 0, repr(sorted(done)), kind="vacuity")
    # g + g' = exp(-x): the osmotic form of B1 / B2 (exp(-alpha sqrt(I))) is B + I B'
    y = tm.sym("y", "R")
    cv = B.SymConv(); ys = sympy.Symbol("y", positive=True)
    g, gp = (real_exp_log(cv.conv(fn_value(PITZ, "Phreeqc::" + nm, y))).subs({cv.conv(y): ys}) for nm in ("G", "GP"))
    r.add("G_GP.x*dG/dx==2*GP(x)", DISCHARGED if sympy.simplify(ys * sympy.diff(g, ys) - 2 * gp) == 0 else FAILED, "sympy.diff", 0, "")
    r.add("G_GP.G(x)+GP(x)==exp(-x)", DISCHARGED if sympy.simplify(g + gp - sympy.exp(-ys)) == 0 else FAILED, "sympy", 0, "")
    # Debye-Hueckel term
    sts = [find_stmt(fn, PITZ, t, prefix=True, kinds=("BinaryOperator",)) for t in ("DI = sqrt(I)", "B = 1.2", "F = F1 = F2 =", "OSMOT = -(A0)")]
    f2, ex2, fin2, info2 = region(PITZ, q, sts, ctx())
    nd = 0
    for s in live(fin2):
        nd += 1
        cv = B.SymConv(); cv.rational_pow = True
        Isym = sympy.Symbol("I", positive=True)
        A0 = cv.conv(fld0(ex2, s, "A0", "R"))
        cvt = lambda t: real_exp_log(cv.conv(t)).subs({cv.conv(tm.sym("L_I", "R")): Isym})
        Fd, Od = cvt(loc(info2, s, "F")), cvt(loc(info2, s, "OSMOT"))
        bb = sympy.Rational(6, 5)
        wantF = -A0 * (sympy.sqrt(Isym) / (1 + bb * sympy.sqrt(Isym)) + 2 / bb * sympy.log(1 + bb * sympy.sqrt(Isym)))
        wantO = -A0 * Isym ** sympy.Rational(3, 2) / (1 + bb * sympy.sqrt(Isym))
        r.add("DH.F==-A0*(sqrt(I)/(1+1.2*sqrt(I))+(2/1.2)*ln(1+1.2*sqrt(I)))", DISCHARGED if sympy.simplify(Fd - wantF) == 0 else FAILED, "sympy", 0, str(Fd)[:200])
        r.add("DH.OSMOT==-A0*I^1.5/(1+1.2*sqrt(I))", DISCHARGED if sympy.simplify(Od - wantO) == 0 else FAILED, "sympy", 0, str(Od)[:200])
        res = sympy.simplify(sympy.diff(2 * Od, Isym) - 2 * Isym * sympy.diff(Fd, Isym))
        r.add("DH.Gibbs_Duhem:d(2*OSMOT_DH)/dI==2*I*dF/dI", DISCHARGED if res == 0 else FAILED, "sympy.diff", 0, str(res)[:200])
        same = all(loc(info2, s, nm) is loc(info2, s, "F") for nm in ("F1", "F2"))
        r.add("DH.F1,F2_start_from_the_same_value", DISCHARGED if same else FAILED, "symex", 0, "")
    r.add("reach.DH", DISCHARGED if nd == 1 else UNDECIDED, "symex", 0, "%d" % nd, kind="vacuity")
    r.assumptions += ["distinct species in a binary term (i0 != i1)", "the per-type relations are required separately for X = m_i0, m_i1, I, Z (sufficient for, and what the Pitzer model gives for, the Gibbs-Duhem relation along every composition path)",
                      "A0 independent of composition", "for patm_x > 1 the code lowers b for |z| = 1, 2 ions (F1, F2) but not in OSMOT: that empirical pressure correction is outside this contract (it is not Gibbs-Duhem consistent by construction)",
                      "locals are read by their names OSMOT, CSUM, F_var, F, F1, F2, I, DI, BIGZ (renaming them gives undecided)", "mixing terms: unit C16.pitzer.mixing_terms...", "doubles as reals; exp / log as the real functions"]
    return r


def vdata_of(ex, s, name):
    return tm.select(base_arr(ex, s, ("f", "#vdata", "P")), tm.app("fld:" + name, (THIS,), "P"))


def last_write(s, key, ix):
    w = [v for i_, v in writes(s, key) if tuple(i_) == tuple(ix)]
    return w[-1] if w else None


def unit_pitzer_assembly(twin=False):
    """pitzer(): what goes into and comes out of the sums.  Molalities M[i] = 10^lm of the aqueous species in the model (exchange and surface
    species carry no molality); sum(m) and Z = sum(m |z|) over all of them; every ion receives z^2 F + |z| CSUM once (F of its charge class);
    the MacInnes scaling shifts ln gamma_i by z_i times ONE common term (so neutral combinations and Gibbs-Duhem are untouched), that term
    being ln gamma_Cl - ln gamma+-(KCl at I); phi = 1 + 2 OSMOT / sum(m); a_w = exp(-phi sum(m) / 55.50837); the reported log10 gamma of every
    species is its ln gamma / ln 10; ionic strength and temperature are the model's mu_x, tk_x and the parameters are refreshed by PTEMP(tk_x)."""
    import sympy
    from fractions import Fraction as Fr
    q = "Phreeqc::pitzer"
    fn = A.find_function(PITZ, q)
    r = U.new_unit("C16.pitzer.molalities_in_charge_terms_MacInnes_water_activity_and_readout", PITZ, q, fn)
    ev = enum_vals()
    byrole = [loop_doing(fn, PITZ, "under("), loop_doing(fn, PITZ, ("OSUM", "LGAMMA[i]=0")), loop_doing(fn, PITZ, "PHIMAC"), loop_doing(fn, PITZ, "lg_pitzer=")]
    SL = lambda nth: byrole[nth]
    n = {}
    for role, k_ in zip(("load", "sums", "MacInnes", "readout"), byrole):
        r.add("lists.%s_loop_runs_over_s_list" % role, DISCHARGED if loop_bound_list(fn, PITZ, k_).endswith("<s_list.size()") else FAILED, "syntactic", 0, loop_bound_list(fn, PITZ, k_), kind="structural")
    # (a) molalities
    f, ex, its, info = U.run_loop_isolated(PITZ, q, SL(0), ctx=ctx(functional=("under",), enums_from="Phreeqc.h", enums=ENUMS))
    for s in live(its, ("run", "cont")):
        i = tm.select(base_arr(ex, s, ("m", "I")), vdata_of(ex, s, "s_list"), loc(info, s, "j"))
        sp = tm.select(base_arr(ex, s, ("m", "P")), vdata_of(ex, s, "spec"), i)
        Mi = last_write(s, ("m", "R"), (vdata_of(ex, s, "M"), i)); Pi = last_write(s, ("m", "I"), (vdata_of(ex, s, "IPRSNT"), i))
        if Mi is None or Pi is None:
            r.add("load.M[i]_and_IPRSNT[i]_set_for_every_listed_species", FAILED, "symex", 0, ""); continue
        ty = tm.select(base_arr(ex, s, ("f", "type", "I")), sp); inn = tm.select(base_arr(ex, s, ("f", "in", "I")), sp)
        lm = tm.select(base_arr(ex, s, ("f", "lm", "R")), sp)
        aq = tm.and_(tm.not_(tm.eq(sp, tm.num(0, "P"))), tm.eq(inn, tm.num(ev["TRUE"], "I")), *[tm.not_(tm.eq(ty, tm.num(ev[k], "I"))) for k in (("EX", "SURF", "SURF_PSI") if not twin else ("EX", "SURF"))])
        def body(dec, hyps, s=s, Mi=Mi, Pi=Pi, lm=lm):
            if dec(aq):
                ok = Mi.op == "app" and Mi.args[0] == "call:under" and Mi.args[-1] is lm
                r.add("load.aqueous_species_in_the_model:M=10^lm", DISCHARGED if ok else FAILED, "symex", 0, repr(Mi)[:120])
                big = dec(tm.lt(tm.select(base_arr(ex, s, ("f", "MIN_TOTAL", "R")), THIS), Mi))
                r.add("load.present_iff_M>MIN_TOTAL", DISCHARGED if (Pi is tm.num(ev["TRUE"], "I")) == big and tm.isnum(Pi) else FAILED, "symex", 0, repr(Pi))
                n["aq"] = 1
            else:
                ok = tm.isnum(Mi) and Mi.args[0] == 0 and tm.isnum(Pi) and Pi.args[0] == ev["FALSE"]
                r.add("load.absent,exchange_and_surface_species:M=0,not_present", DISCHARGED if ok else FAILED, "symex", 0, "%r %r" % (Mi, Pi))
                n["not"] = 1
        case_split(list(s.pc), body)
        bad = [(k, ix) for k, ix, v in U.iter_writes(s) if not (k in (("m", "R"), ("m", "I")) and ix[0] in (vdata_of(ex, s, "M"), vdata_of(ex, s, "IPRSNT")) and ix[1] is i)]
        r.add("load.frame_only_M[i],IPRSNT[i]#%d" % len(r.obligations), DISCHARGED if not bad else FAILED, "symex", 0, repr(bad)[:200], kind="frame")
    # (b) sum(m), Z
    f, ex, its, info = U.run_loop_isolated(PITZ, q, SL(1), ctx=ctx())
    for s in live(its, ("run", "cont")):
        i = tm.select(base_arr(ex, s, ("m", "I")), vdata_of(ex, s, "s_list"), loc(info, s, "j"))
        sp = tm.select(base_arr(ex, s, ("m", "P")), vdata_of(ex, s, "spec"), i)
        Mi = tm.select(base_arr(ex, s, ("m", "R")), vdata_of(ex, s, "M"), i)
        z = tm.select(base_arr(ex, s, ("f", "z", "R")), sp)
        U.discharge_eq_real(r, "sums.OSUM+=m_i", list(s.pc), loc(info, s, "OSUM"), tm.sym("iter_OSUM", "R") + Mi)
        U.discharge_eq_real(r, "sums.Z+=m_i*|z_i|", list(s.pc), loc(info, s, "XX"), tm.sym("iter_XX", "R") + Mi * fabs_t(z))
        lgi = last_write(s, ("m", "R"), (vdata_of(ex, s, "LGAMMA"), i))
        r.add("sums.LGAMMA[i]_starts_at_0", DISCHARGED if lgi is not None and tm.isnum(lgi) and lgi.args[0] == 0 else FAILED, "symex", 0, repr(lgi))
        n["sums"] = 1
    lp1 = loop_node(fn, SL(1))
    for acc in ("OSUM", "XX"):
        check_accumulator_init(r, fn, PITZ, lp1, acc, "sums")
    bz = find_stmt(fn, PITZ, "BIGZ = XX", kinds=("BinaryOperator",))
    r.add("sums.BIGZ_is_that_sum", DISCHARGED if bz is not None else FAILED, "syntactic", 0, "", kind="structural")
    # (c) charge terms
    oi = loop_doing(fn, PITZ, ("CSUM", "LGAMMA[i]+="))
    r.add("lists.charge_terms_loop_runs_over_ion_list", DISCHARGED if loop_bound_list(fn, PITZ, oi).endswith("<ion_list.size()") else FAILED, "syntactic", 0, loop_bound_list(fn, PITZ, oi), kind="structural")
    f, ex, its, info = U.run_loop_isolated(PITZ, q, oi, ctx=ctx())
    for s in live(its, ("run", "cont")):
        i = tm.select(base_arr(ex, s, ("m", "I")), vdata_of(ex, s, "ion_list"), loc(info, s, "j"))
        sp = tm.select(base_arr(ex, s, ("m", "P")), vdata_of(ex, s, "spec"), i)
        za = fabs_t(tm.select(base_arr(ex, s, ("f", "z", "R")), sp))
        new = last_write(s, ("m", "R"), (vdata_of(ex, s, "LGAMMA"), i)); old = tm.select(base_arr(ex, s, ("m", "R")), vdata_of(ex, s, "LGAMMA"), i)
        if new is None:
            r.add("ions.LGAMMA[i]_updated", FAILED, "symex", 0, ""); continue
        def body(dec, hyps, s=s, za=za, new=new, old=old):
            cls = "F1" if dec(tm.eq(za, tm.num(1))) else ("F2" if dec(tm.eq(za, tm.num(2))) else "F")
            if twin and cls == "F2": cls = "F"
            Fs = tm.sym("L_" + cls, "R")
            U.discharge_eq_real(r, "ions.|z|%s:LGAMMA+=z^2*%s+|z|*CSUM" % ({"F1": "=1", "F2": "=2", "F": "_other"}[cls], cls), hyps, new, old + za * za * Fs + za * tm.sym("L_CSUM", "R"))
            n[cls] = 1
        case_split(list(s.pc), body)
        nw = len(U.iter_writes(s))
        r.add("ions.frame_one_update_of_LGAMMA[i]#%d" % len(r.obligations), DISCHARGED if nw == 1 else FAILED, "symex", 0, "%d" % nw, kind="frame")
    # (d) MacInnes
    f, ex, its, info = U.run_loop_isolated(PITZ, q, SL(2), ctx=ctx())
    for s in live(its, ("run", "cont")):
        i = tm.select(base_arr(ex, s, ("m", "I")), vdata_of(ex, s, "s_list"), loc(info, s, "j"))
        sp = tm.select(base_arr(ex, s, ("m", "P")), vdata_of(ex, s, "spec"), i)
        z = tm.select(base_arr(ex, s, ("f", "z", "R")), sp)
        new = last_write(s, ("m", "R"), (vdata_of(ex, s, "LGAMMA"), i)); old = tm.select(base_arr(ex, s, ("m", "R")), vdata_of(ex, s, "LGAMMA"), i)
        if new is None:
            r.add("MacInnes.LGAMMA[i]_shifted", FAILED, "symex", 0, ""); continue
        U.discharge_eq_real(r, "MacInnes.shift_is_z_i_times_one_common_term", list(s.pc), new, old + z * tm.sym("L_PHIMAC", "R"))
        r.add("MacInnes.frame_one_update#%d" % len(r.obligations), DISCHARGED if len(U.iter_writes(s)) == 1 else FAILED, "symex", 0, "", kind="frame")
        n["mac"] = 1
    mac_if = [x for x in A.body_of(fn)["inner"] if x.get("kind") == "IfStmt" and any(y is loop_node(fn, SL(2)) for y in A.walk(x["inner"][1]))]
    if len(mac_if) != 1:
        raise Undecided("the branch that applies the MacInnes scaling was not found")
    f, ex, fin, info = region(PITZ, q, [mac_if[0]], ctx(enums_from="Phreeqc.h", enums=ENUMS))
    nm_ = 0
    for s in live(fin):
        entered = loc(info, s, "PHIMAC") is not tm.sym("L_PHIMAC", "R")
        icon = tm.eq(fld0(ex, s, "ICON", "I"), tm.num(ev["TRUE"], "I"))
        U.discharge_valid(r, "MacInnes.%s#%d" % ("applied_only_with_ICON" if entered else "not_applied_only_without_ICON", nm_), list(s.pc), icon if entered else tm.not_(icon))
        nm_ += 1
    n["macif"] = nm_ >= 2
    sts = [find_stmt(fn, PITZ, t, prefix=True, kinds=("BinaryOperator",)) for t in ("XXX = 2.0 * DI", "XXX = (1.0 -", "GAMCLM = F1")]
    ifs = [x for x in A.body_of(fn)["inner"] if x.get("kind") == "IfStmt" and "GAMCLM+=" in text_of(PITZ, x["inner"][1])]
    if len(ifs) != 3:
        raise Undecided("the three optional KCl terms of GAMCLM were not found (%d)" % len(ifs))
    phs = find_stmt(fn, PITZ, "PHIMAC =", prefix=True, kinds=("BinaryOperator",))
    f, ex, fin, info = region(PITZ, q, sts + ifs + [phs], ctx())
    for s in live(fin):
        cv = B.SymConv()
        conv = lambda t: real_exp_log(cv.conv(t))
        I_, DI_, F1_ = conv(tm.sym("L_I", "R")), conv(tm.sym("L_DI", "R")), conv(tm.sym("L_F1", "R"))
        x = 2 * DI_
        g2 = (1 - (1 + x - x * x / 2) * sympy.exp(-x)) / (x * x)
        want = F1_
        def body(dec, hyps, s=s):
            w = want
            for nm, term in (("mcb0", lambda p_: 2 * I_ * p_), ("mcb1", lambda p_: 2 * I_ * p_ * g2), ("mcc0", lambda p_: sympy.Rational(3, 2) * p_ * I_ * I_)):
                ptr = fld0(ex, s, nm, "P")
                if dec(tm.not_(tm.eq(ptr, tm.num(0, "P")))):
                    w = w + term(conv(fld0(ex, s, "p", "R", ptr)))
            IC = fld0(ex, s, "IC", "I")
            lgic = conv(tm.select(entry_arr(ex, s, ("m", "R")), tm.select(entry_arr(ex, s, ("f", "#vdata", "P")), tm.app("fld:LGAMMA", (THIS,), "P")), IC))
            res = sympy.simplify(conv(loc(info, s, "PHIMAC")) - (lgic - w))
            r.add("MacInnes.common_term==lngamma[IC]-(f_gamma+2*I*B0+2*I*B1*g(2sqrtI)+1.5*C*I^2)[KCl]#%d" % len(r.obligations), DISCHARGED if res == 0 else FAILED, "sympy", 0, str(res)[:200])
            n["gamclm"] = 1
        case_split(list(s.pc), body)
    # (e) phi and a_w
    sts = [find_stmt(fn, PITZ, t, prefix=True, kinds=("BinaryOperator",)) for t in ("COSMOT =", "AW =")]
    f, ex, fin, info = region(PITZ, q, sts, ctx())
    for s in live(fin):
        osum, osm = tm.sym("L_OSUM", "R"), tm.sym("L_OSMOT", "R")
        phi = tm.num(1) + tm.num(2) * osm / osum
        U.discharge_eq_real(r, "water.phi==1+2*OSMOT/sum(m)", list(s.pc), fld(ex, s, "COSMOT", "R"), phi)
        aw = fld(ex, s, "AW", "R")
        if aw.op == "app" and aw.args[0] == "exp":
            lit = [t for t in tm.subterms(aw.args[1]) if t.op == "num" and 50 < abs(t.args[0]) < 60]
            okc = len(lit) == 1 and abs(lit[0].args[0] - Fr(1000) / Fr("18.01528")) / (Fr(1000) / Fr("18.01528")) < Fr(1, 10**5)
            r.add("water.const.55.50837~1000/M_w(rel 1e-5)", DISCHARGED if okc else FAILED, "exact-rational", 0, repr(lit), kind="const")
            if lit:
                U.discharge_eq_real(r, "water.ln(a_w)==-phi*sum(m)/55.50837", list(s.pc), aw.args[1], tm.neg(osum) * phi / lit[0])
        else:
            r.add("water.a_w_is_exp(...)", FAILED, "symex", 0, repr(aw)[:100])
        n["aw"] = 1
    # (f) read-out
    f, ex, its, info = U.run_loop_isolated(PITZ, q, SL(3), ctx=ctx())
    for s in live(its, ("run", "cont")):
        i = tm.select(base_arr(ex, s, ("m", "I")), vdata_of(ex, s, "s_list"), loc(info, s, "j"))
        sp = tm.select(base_arr(ex, s, ("m", "P")), vdata_of(ex, s, "spec"), i)
        w = [(k, ix, v) for k, ix, v in U.iter_writes(s)]
        ok = len(w) == 1 and w[0][0] == ("f", "lg_pitzer", "R") and w[0][1][0] is sp
        r.add("readout.writes_lg_pitzer_of_species_i_only", DISCHARGED if ok else FAILED, "symex", 0, repr(w)[:200], kind="frame")
        if ok:
            U.discharge_eq_real(r, "readout.lg_pitzer==LGAMMA[i]*CONV", list(s.pc), w[0][2], tm.select(base_arr(ex, s, ("m", "R")), vdata_of(ex, s, "LGAMMA"), i) * tm.sym("L_CONV", "R"))
        n["out"] = 1
    # (g) CONV = 1/ln10, I = mu_x, TK = tk_x, PTEMP(TK)
    sts = [find_stmt(fn, PITZ, t, prefix=True, kinds=("BinaryOperator",)) for t in ("CONV =", "I = mu_x", "TK = tk_x")] + [find_stmt(fn, PITZ, "PTEMP(", prefix=True, kinds=("CXXMemberCallExpr",))]
    f, ex, fin, info = region(PITZ, q, sts, ctx())
    for s in live(fin):
        U.discharge_eq_real(r, "setup.CONV==1/ln10", list(s.pc), loc(info, s, "CONV"), tm.num(1) / fld0(ex, s, "LOG_10", "R"))
        r.add("setup.I_is_mu_x_and_T_is_tk_x", DISCHARGED if loc(info, s, "I") is fld0(ex, s, "mu_x", "R") and loc(info, s, "TK") is fld0(ex, s, "tk_x", "R") else FAILED, "symex", 0, "")
        pt = [e for e in s.events if e.name.endswith("PTEMP")]
        r.add("setup.PTEMP(tk_x)", DISCHARGED if len(pt) == 1 and pt[0].args[0] is fld0(ex, s, "tk_x", "R") else FAILED, "symex", 0, repr(pt)[:100])
    # which lists
    lists = {"sums": SL(1), "MacInnes": SL(2), "readout": SL(3)}
    t0 = text_of(PITZ, loop_node(fn, SL(0))["inner"][4])
    r.add("lists.M_loaded_for_the_species_summed_and_read_out(s_list)", DISCHARGED if "M[i]=under(" in t0 else FAILED, "syntactic", 0, "", kind="structural")
    need = {"aq", "not", "sums", "F", "F1", "F2", "mac", "gamclm", "aw", "out"}
    r.add("reach.all_parts", DISCHARGED if need <= set(n) else UNDECIDED, "symex", 0, repr(sorted(n)), kind="vacuity")
    r.assumptions += ["under(x) = 10^x (with an underflow floor)", "s_list holds every aqueous species (pitzer_make_lists, not under this contract); ion_list the charged ones",
                      "loops are identified by the list in their bound; locals read by name: OSUM, XX, CSUM, F, F1, F2, PHIMAC, CONV, I, DI, TK, OSMOT",
                      "the pressure-dependent b of F1 / F2 is not part of this contract", "doubles as reals"]
    return r


SITF = "src/phreeqcpp/sit.cpp"


def unit_gammas_specific(which, twin=False):
    """gammas_pz / gammas_sit (specific-interaction databases): the log gamma of AQUEOUS species is not computed here - it is the solver's
    unknown, tied to the model value lg_pitzer by its own residual row - so no aqueous species is written; surface species get
    log10(equiv / sites) with equiv = 1 (mole fraction) for CD-MUSIC surfaces and the species' site coefficient otherwise, water gets log10(a_w * gfw_water); exchange species (only when an exchanger
    is present): 0 for the master species, else log10(|equiv| / CEC) (0 when equiv = 0 or CEC <= 0) plus, with -pitzer_exchange_gammas,
    sum over the non-exchanger reactants of coef * log gamma of that reactant."""
    rel, q = {"pz": (PITZ, "Phreeqc::gammas_pz"), "sit": (SITF, "Phreeqc::gammas_sit")}[which]
    info = run_species_function(rel, q)
    fn, ex = info["fn"], info["ex"]
    ev = enum_vals(); info["HPLUS"] = ev["HPLUS"]
    r = U.new_unit("C16.gammas_%s.aqueous_gammas_left_to_the_model_exchange_surface_water_conventions" % which, rel, q, fn)
    os_ = sorted(info["species"])
    if len(os_) != 2:
        raise Undecided("expected two species loops, found %d" % len(os_))
    cov = {}
    # first loop
    for s in live(info["species"][os_[0]], ("run", "cont", "brk")):
        g, sp = gflag_of(s)
        wr = U.iter_writes(s)
        if g is None:
            r.add("loop1.unknown_gflag_writes_nothing", DISCHARGED if not wr else FAILED, "symex", 0, "", kind="frame"); continue
        F = lambda nm, so="R", ob=sp: tm.select(base_arr(ex, s, ("f", nm, so)), ob)
        if g in (0, 1, 2, 3, 4, 5, 7, 8):
            if ("untouched", g) not in cov:
                r.add("loop1.gflag%d.species_not_written(lg_is_the_solver's_unknown%s)" % (g, "" if g != 4 else ";exchange_in_loop_2"), DISCHARGED if not wr and not U.iter_events(s) else FAILED, "symex", 0, repr([(k, ix) for k, ix, v in wr])[:200], kind="frame")
            cov[("untouched", g)] = 1
        elif g == 9:
            wl = [v for k, ix, v in wr if k == ("f", "lg", "R") and ix[0] is sp]
            h2o = F("s_h2o", "P", THIS)
            spec = log10_t(tm.app("exp", (F("la", "R", h2o) * F("LOG_10", "R", THIS),), "R") * F("gfw_water", "R", THIS))
            if len(wl) != 1:
                r.add("water.writes_lg_once", FAILED, "symex", 0, ""); continue
            U.discharge_eq_real(r, "water.lg==log10(10^la(H2O)*gfw_water)", list(s.pc), wl[0], spec)
            bad = iter_frame(s, {"lg": sp, "dg": sp})
            r.add("water.frame_only_lg_dg", DISCHARGED if not bad else FAILED, "symex", 0, repr(bad)[:200], kind="frame")
            cov["water"] = 1
        elif g == 6:
            wl = [v for k, ix, v in wr if k == ("f", "lg", "R") and ix[0] is sp]
            alkv = [v for k, ix, v in wr if k == ("f", "alk", "R") and ix[0] is sp]
            if len(wl) != 1 or len(alkv) != 1:
                r.add("surface.writes_lg_once_with_sites_from_the_scan", FAILED, "symex", 0, ""); continue
            tys = [e.result for e in U.iter_events(s) if e.name.endswith("Get_type")]
            # the type of the surface in use: the term the code asks for, or (when the code does not ask) the same accessor chain built here,
            # so that a missing CD-MUSIC case is compared with the specification in the CD-MUSIC case instead of being skipped
            styp = tys[0] if tys else tm.app("call:Get_type", (tm.app("call:Get_surface_ptr", (tm.app("fld:use", (THIS,), "P"),), "P"),), "I")
            def body(dec, hyps, s=s, sp=sp, lg=wl[0], alk=alkv[0], styp=styp, F=F):
                cd = dec(tm.eq(styp, tm.num(ev["CD_MUSIC"], "I")))
                if twin and which == "sit":
                    cd = not cd
                pos = dec(tm.lt(tm.num(0), alk))
                eq_ = tm.num(1) if cd else F("equiv")
                spec = log10_t(eq_ / alk) if pos else tm.num(0)
                tag = "surface.%s.%s" % ("CD_MUSIC" if cd else "other", "sites>0" if pos else "sites<=0")
                cov[tag] = cov.get(tag, 0) + 1
                U.discharge_eq_real(r, "%s#%d.lg==%s" % (tag, cov[tag], "log10(%s/sites)" % ("1" if cd else "equiv") if pos else "0"), hyps, lg, spec)
            case_split(list(s.pc), body)
            bad = iter_frame(s, {"lg": sp, "dg": sp, "alk": sp})
            r.add("surface.frame_only_lg_dg_alk#%d" % len(r.obligations), DISCHARGED if not bad else FAILED, "symex", 0, repr(bad)[:200], kind="frame")
    # second loop: entered only with an exchanger
    for s in info["entry"][os_[1]]:
        gp = [e.result for e in s.events if e.name.endswith("Get_exchange_ptr")]
        ok = bool(gp) and decide(s, tm.not_(tm.eq(gp[-1], tm.num(0, "P")))) is True
        r.add("loop2.only_with_an_exchanger", DISCHARGED if ok else FAILED, "symex", 0, repr(s.pc)[:200])
    sum_scans = [o_ for o_, fs in info["scan_fields"].items() if ("f", "lg", "R") in fs]
    alk_scans = [o_ for o_, fs in info["scan_fields"].items() if fs == {("f", "alk", "R")}]
    seen = set()
    for s in info["species"][os_[1]]:
        if s.status not in ("run", "cont", "brk"):
            continue
        g, sp = gflag_of(s)
        if g != 4:
            if g is not None and ("l2", g) not in cov:
                cov[("l2", g)] = 1
                r.add("loop2.gflag%d.not_written" % g, DISCHARGED if not U.iter_writes(s) and not U.iter_events(s) else FAILED, "symex", 0, "", kind="frame")
            continue
        calls = [e for e in U.iter_events(s) if e.name.endswith("gammas_a_f")]
        v = view_before(s, calls[0]) if calls else s
        gi = [k for k, c in enumerate(s.pc) if c.op == "==" and ".gflag:" in repr(c.args[0])][0]
        wl = [val for ix, val in writes(v, ("f", "lg", "R")) if ix[0] is sp]
        k0 = norm_key(wl, len(calls), s.pc[gi:])
        if k0 in seen or B.z3_sat(list(s.pc)) == "unsat":
            continue
        seen.add(k0)
        alkv = [val for ix, val in writes(v, ("f", "alk", "R")) if ix[0] is sp]
        if len(alkv) != 1 or not wl:
            r.add("exchange.CEC_from_the_scan_and_lg_written", FAILED, "symex", 0, "%d %d" % (len(alkv), len(wl))); continue
        alk = alkv[0]
        F = lambda nm, so="R", ob=sp: tm.select(base_arr(ex, v, ("f", nm, so)), ob)
        equiv, prim, af, moles = F("equiv"), F("primary", "P"), F("a_f"), F("moles")
        pgs = [e.result for e in U.iter_events(s) if e.name.endswith("Get_pitzer_exchange_gammas")]
        summed = [val for val in wl if val in info.get("scan_pre", {})]
        plain = [info["scan_pre"][val] for val in summed] if summed else wl[-1:]
        def body(dec, hyps, s=s, sp=sp, wl=wl, calls=calls, v=v, alk=alk, pgs=pgs, summed=summed, plain=plain):
            isprim = dec(tm.not_(tm.eq(prim, tm.num(0, "P"))))
            if isprim:
                ok = tm.isnum(wl[-1]) and wl[-1].args[0] == 0 and not pgs and not calls
                r.add("exchange.master_species:lg=0#%d" % len(r.obligations), DISCHARGED if ok else FAILED, "symex", 0, repr(wl[-1])[:100]); cov["master"] = 1; return
            has = dec(tm.and_(tm.not_(tm.eq(equiv, tm.num(0))), tm.lt(tm.num(0), alk)))
            base = log10_t(fabs_t(equiv) / alk) if has else tm.num(0)
            if twin and has:
                base = log10_t(alk / fabs_t(equiv))
            if not plain or not pgs:
                r.add("exchange.base_value_written_and_pitzer_exchange_gammas_asked", FAILED, "symex", 0, ""); return
            U.discharge_eq_real(r, "exchange.%s:lg_before_the_sum==%s#%d" % ("CEC>0" if has else "no_CEC_or_equiv", "log10(|equiv|/CEC)" if has else "0", len(r.obligations)), hyps, plain[-1], base)
            pg = dec(tm.to_bool(pgs[0]))
            okp = (len(summed) == 1 and wl[-1] is summed[0]) if pg else not summed
            r.add("exchange.reactant_gammas_added_iff_pitzer_exchange_gammas#%d" % len(r.obligations), DISCHARGED if okp else FAILED, "symex", 0, "%r %d" % (pg, len(summed)))
            cov["sum" if pg else "nosum"] = 1; cov["has" if has else "hasnot"] = 1
            if which == "pz":
                wanted = dec(tm.and_(tm.not_(tm.eq(af, tm.num(0))), tm.eq(prim, tm.num(0, "P")), tm.not_(tm.eq(moles, tm.num(0)))))
                okc = (wanted and len(calls) == 1 and calls[0].args[0] is local(info, v, "i")) or (not wanted and not calls)
                r.add("exchange.gammas_a_f(i)_iff_a_f_and_not_master_and_moles#%d" % len(r.obligations), DISCHARGED if okc else FAILED, "symex", 0, "%r %d" % (wanted, len(calls)))
        case_split(list(s.pc), body)
        bad = iter_frame(v, {"lg": sp, "dg": sp, "alk": sp})
        r.add("exchange.frame_only_lg_dg_alk#%d" % len(r.obligations), DISCHARGED if not bad else FAILED, "symex", 0, repr(bad)[:200], kind="frame")
    # the scans
    for o_ in alk_scans:
        is_surf = any(gflag_of(s_)[0] == 6 for s_ in info["scan"][o_])
        check_scan(r, info, ex, o_, ev["SURF"] if is_surf else ev["EX"], "sites" if is_surf else "CEC")
    nadd = nskip = 0
    for o_ in sum_scans:
        for s in live(info["scan"][o_], ("run", "cont", "brk")):
            sp = tm.select(base_arr(ex, s, ("m", "P")), tm.select(base_arr(ex, s, ("f", "#vdata", "P")), tm.app("fld:s_x", (THIS,), "P")), local(info, s, "i"))
            ta = tok_addr(ex, s, sp, local(info, s, "j"))
            ts = tm.select(base_arr(ex, s, ("f", "s", "P")), ta)
            ty = tm.select(base_arr(ex, s, ("f", "type", "I")), ts)
            wl = [val for ix, val in writes(s, ("f", "lg", "R")) if ix[0] is sp]
            def body(dec, hyps, s=s, sp=sp, ta=ta, ts=ts, wl=wl):
                nonlocal nadd, nskip
                if dec(tm.eq(ty, tm.num(ev["EX"], "I"))):
                    nskip += 1
                    r.add("sum.exchanger_token_adds_nothing", DISCHARGED if not U.iter_writes(s) else FAILED, "symex", 0, "", kind="frame")
                else:
                    nadd += 1
                    old = tm.select(base_arr(ex, s, ("f", "lg", "R")), sp)
                    coef = tm.select(base_arr(ex, s, ("f", "coef", "R")), ta)
                    if len(wl) != 1:
                        r.add("sum.reactant_token_updates_lg_once", FAILED, "symex", 0, ""); return
                    U.discharge_eq_real(r, "sum.lg+=coef_j*lg(reactant_j)", hyps, wl[0], old + coef * tm.select(base_arr(ex, s, ("f", "lg", "R")), ts if not twin else sp))
            case_split(list(s.pc), body)
            bad = iter_frame(s, {"lg": sp, "dg": sp})
            r.add("sum.frame_only_lg_dg_of_this_species#%d" % len(r.obligations), DISCHARGED if not bad else FAILED, "symex", 0, repr(bad)[:200], kind="frame")
    need = {"water", "surface.other.sites>0", "surface.other.sites<=0", "master", "sum", "nosum", "has", "hasnot"} | {("untouched", g) for g in (0, 1, 2, 3, 4, 5, 7, 8)}
    need.add("surface.CD_MUSIC.sites>0")
    missing = need - set(cov)
    r.add("reach.cases", DISCHARGED if not missing and nadd and nskip and len(alk_scans) == 2 and len(sum_scans) == 1 else UNDECIDED, "symex", 0, "missing %r scans %d/%d add/skip %d/%d" % (sorted(map(str, missing)), len(alk_scans), len(sum_scans), nadd, nskip), kind="vacuity")
    r.assumptions += ["lg of aqueous species is set by the solver (PITZER_GAMMA unknowns, unit C16.residuals.PITZER_GAMMA_row) from lg_pitzer computed by pitzer() / sit()",
                      "token scans replaced by their frame and checked by their own iteration contracts", "dg not checked (Jacobian)",
                      "the surface type is use.Get_surface_ptr()->Get_type() (functional accessors); the CD-MUSIC convention is demanded of both functions (gammas_sit: repaired in /repo 5428158b)"]
    return r


def unit_pitzer_gamma_row(twin=False):
    """Pitzer / SIT: the reported log gamma of an aqueous species is the solver unknown of type PITZER_GAMMA; its residual is
    lg - lg_pitzer (the value pitzer() / sit() just computed) and the iteration is not converged while |lg - lg_pitzer| exceeds the
    tolerance; the final check (check_gammas_pz / check_gammas_sit) recomputes the model first and refuses convergence for any species
    whose lg differs from the model value by more than 10 * convergence_tolerance."""
    q = "Phreeqc::residuals"
    fn = A.find_function(MODEL, q)
    r = U.new_unit("C16.PITZER_GAMMA.reported_lg_is_tied_to_the_model_value_lg_pitzer", MODEL, q, fn)
    ifs = innermost_ifs_doing(fn, MODEL, "->lg_pitzer")
    if len(ifs) != 1:
        raise Undecided("the branch of residuals() that computes lg - lg_pitzer was not found (%d)" % len(ifs))
    c = ctx(enums_from="Phreeqc.h", enums=ENUMS + ["PITZER_GAMMA"])
    f, ex, fin, info = region(MODEL, q, [if_without_else(ifs[0])], c)
    ev = enum_vals()
    pgv = A.enum_values_compiled("Phreeqc.h", ["PITZER_GAMMA"])["PITZER_GAMMA"]
    n = {}
    for s in live(fin, ("run", "cont")):
        i = tm.sym("L_i", "I")
        un = tm.select(entry_arr(ex, s, ("m", "P")), tm.select(entry_arr(ex, s, ("f", "#vdata", "P")), tm.app("fld:x", (THIS,), "P")), i)
        sp = fld0(ex, s, "s", "P", un)
        d = fld0(ex, s, "lg", "R", sp) - fld0(ex, s, "lg_pitzer", "R", sp if not twin else un)
        full = tm.not_(tm.eq(fld0(ex, s, "full_pitzer", "I"), tm.num(ev["FALSE"], "I")))
        wr = [(k, ix, v) for k, ix, v in U.iter_writes(s)]
        conv = loc(info, s, "converge")
        isrow = tm.eq(fld0(ex, s, "type", "I", un), tm.num(pgv, "I"))
        def body(dec, hyps, s=s, wr=wr, conv=conv, d=d):
            if not dec(isrow):
                r.add("residuals.branch_taken_only_for_PITZER_GAMMA_unknowns#%d" % len(r.obligations), DISCHARGED if not wr and conv is tm.sym("L_converge", "I") and s.status == "run" else FAILED, "symex", 0, "", kind="frame"); n["other"] = 1; return
            if not dec(full):
                r.add("residuals.row_inactive_until_full_pitzer:nothing_written", DISCHARGED if not wr and conv is tm.sym("L_converge", "I") else FAILED, "symex", 0, "", kind="frame"); n["off"] = 1; return
            res = [v for k, ix, v in wr if k == ("m", "R") and ix[0] is tm.select(entry_arr(ex, s, ("f", "#vdata", "P")), tm.app("fld:residual", (THIS,), "P")) and ix[1] is i]
            if len(res) != 1 or len(wr) != 1:
                r.add("residuals.writes_residual[i]_only", FAILED, "symex", 0, repr(wr)[:200]); return
            U.discharge_eq_real(r, "residuals.residual[i]==lg-lg_pitzer#%d" % len(r.obligations), hyps, res[0], d)
            over = dec(tm.lt(tm.sym("L_l_toler", "R"), fabs_t(d)))
            okc = (tm.isnum(conv) and conv.args[0] == ev["FALSE"]) if over else conv is tm.sym("L_converge", "I")
            r.add("residuals.%s#%d" % ("not_converged_while_|lg-lg_pitzer|>tolerance" if over else "within_tolerance_leaves_converge", len(r.obligations)), DISCHARGED if okc else FAILED, "symex", 0, repr(conv))
            n["over" if over else "within"] = 1
        case_split(list(s.pc), body)
    for rel, qq in ((PITZ, "Phreeqc::check_gammas_pz"), (SITF, "Phreeqc::check_gammas_sit")):
        tag = qq.split("::")[-1]
        c2 = ctx(enums_from="Phreeqc.h", enums=ENUMS + ["PITZER_GAMMA"], pure_all=False)
        f2, ex2, fin2, info2 = U.run_function(rel, qq, ctx=c2, modes={0: "iter"})
        pg = A.enum_values_compiled("Phreeqc.h", ["PITZER_GAMMA"])["PITZER_GAMMA"]
        for s in live(info2["iter"].get(0, []), ("run", "cont")):
            un = tm.select(ex2.heap_arr(s, ("m", "P")), tm.select(ex2.heap_arr(s, ("f", "#vdata", "P")), tm.app("fld:x", (THIS,), "P")), loc(info2, s, "i"))
            sp = tm.select(ex2.heap_arr(s, ("f", "s", "P")), un)
            d = tm.select(ex2.heap_arr(s, ("f", "lg", "R")), sp) - tm.select(ex2.heap_arr(s, ("f", "lg_pitzer", "R")), sp)
            bad = tm.and_(tm.eq(tm.select(ex2.heap_arr(s, ("f", "type", "I")), un), tm.num(pg, "I")), tm.lt(loc(info2, s, "tol"), fabs_t(d)))
            conv = loc(info2, s, "converge")
            def body(dec, hyps, s=s, conv=conv):
                if dec(bad):
                    r.add("%s.species_off_by_more_than_tol_refuses_convergence" % tag, DISCHARGED if tm.isnum(conv) and conv.args[0] == ev["FALSE"] else FAILED, "symex", 0, repr(conv)); n[tag + "bad"] = 1
                else:
                    r.add("%s.otherwise_converge_untouched#%d" % (tag, len(r.obligations)), DISCHARGED if conv is tm.sym("iter_converge", "I") else FAILED, "symex", 0, repr(conv)); n[tag + "ok"] = 1
            case_split(list(s.pc), body)
            r.add("%s.loop_writes_no_memory#%d" % (tag, len(r.obligations)), DISCHARGED if not U.iter_writes(s) else FAILED, "symex", 0, "", kind="frame")
        for s in info2["entry"].get(0, []):
            names = [e.name.split("::")[-1] for e in s.events]
            model = "pitzer" if "pz" in tag else "sit"
            r.add("%s.model_recomputed_before_the_comparison" % tag, DISCHARGED if model in names else FAILED, "symex", 0, repr(names))
            tol = loc(info2, s, "tol")
            ct = tm.select(ex2.heap_arr(s, ("f", "convergence_tolerance", "R")), THIS)
            U.discharge_valid(r, "%s.tol_is_positive_and_at_most_100*convergence_tolerance" % tag, list(s.pc) + [tm.lt(tm.num(0), ct)], tm.and_(tm.lt(tm.num(0), tol), tm.le(tol, ct * tm.num(100))))
        lp = [x for x in A.walk(f2) if x.get("kind") == "ForStmt"][0]
        init = initial_value_before(f2, rel, lp, "converge")
        r.add("%s.converge_starts_TRUE" % tag, DISCHARGED if init == ("=", "TRUE") else FAILED, "syntactic", 0, repr(init), kind="establishment")
        okret = all((tm.isnum(s.ret) and s.ret.args[0] == ev["FALSE"]) or (s.ret.op == "sym" and s.ret.args[0].startswith("havoc_converge")) for s in live(fin2, ("ret",)))
        r.add("%s.returns_the_loop's_verdict_or_FALSE" % tag, DISCHARGED if okret and live(fin2, ("ret",)) else FAILED, "symex", 0, "")
    need = {"other", "off", "over", "within", "check_gammas_pzbad", "check_gammas_pzok", "check_gammas_sitbad", "check_gammas_sitok"}
    r.add("reach.cases", DISCHARGED if need <= set(n) else UNDECIDED, "symex", 0, repr(sorted(n)), kind="vacuity")
    r.assumptions += ["the Newton iteration (model_pz / model_sit) is not under contract: this unit only says what `converged` means for these unknowns",
                      "locals read by name: converge, tol, l_toler, i", "statement contract on the PITZER_GAMMA branch of residuals(); the rest of residuals() is not executed"]
    return r


BASICSUBS = "src/phreeqcpp/basicsubs.cpp"
PBASIC = "src/phreeqcpp/PBasic.cpp"


def basic_case_body(fn, rel, tok):
    for sw in [x for x in A.walk(fn) if x.get("kind") == "SwitchStmt"]:
        for cst in sw["inner"][-1].get("inner", []):
            if cst.get("kind") != "CaseStmt":
                continue
            names = [y.get("referencedDecl", {}).get("name") for y in A.walk(cst["inner"][0]) if y.get("kind") == "DeclRefExpr"]
            if tok in names:
                inner = cst["inner"][-1]
                while inner.get("kind") == "CaseStmt":
                    inner = inner["inner"][-1]
                if any(y.get("kind") == "MemberExpr" and y.get("name") == "val" for y in A.walk(inner)):
                    return inner
    return None


def unit_basic_readouts(twin=False):
    """BASIC LG("sp") / GAMMA("sp") / OSMOTIC: LG returns the log10 activity coefficient the model holds for THAT species (the species the name
    resolves to; for exchange species without the equivalent-fraction term log10(equiv/CEC)), 0 for names that are unknown, not in the model
    or not aqueous / exchange / surface species; GAMMA = 10^LG for reportable species (0 otherwise); OSMOTIC returns the osmotic coefficient
    of the Pitzer / SIT model (COSMOT) and 0 for ion-association databases."""
    q1, q2 = "Phreeqc::log_activity_coefficient", "Phreeqc::activity_coefficient"
    fn = A.find_function(BASICSUBS, q1)
    r = U.new_unit("C16.BASIC.LG_GAMMA_OSMOTIC_report_what_the_model_computed_for_that_species", BASICSUBS, q1, fn)
    ev = enum_vals()
    n = {}
    for q in (q1, q2):
        tag = "LG" if q is q1 else "GAMMA"
        c = ctx(functional=("s_search",), enums_from="Phreeqc.h", enums=ENUMS)
        f, ex, fin, info = U.run_function(BASICSUBS, q, ctx=c)
        name = tm.sym("P0_%s" % A.params_of(f)[0]["name"], "P")
        for s in live(fin, ("ret",)):
            se = [e for e in s.events if e.name.endswith("s_search")]
            if len(se) != 1 or se[0].args[0] is not name:
                r.add("%s.species_is_the_one_the_name_resolves_to" % tag, FAILED, "symex", 0, repr(se)[:200]); continue
            sp = se[0].result
            F = lambda nm, so="R": tm.select(tm.sym("H0.%s:%s" % (nm, so), ("A", "P", so)), sp)
            ty = F("type", "I")
            reportable = tm.and_(tm.not_(tm.eq(sp, tm.num(0, "P"))), tm.not_(tm.eq(F("in", "I"), tm.num(ev["FALSE"], "I"))),
                                 tm.or_(tm.lt(ty, tm.num(ev["EMINUS"], "I")), tm.eq(ty, tm.num(ev["EX"], "I")), tm.eq(ty, tm.num(ev["SURF"], "I"))))
            def body(dec, hyps, s=s, sp=sp, F=F, ty=ty):
                if not dec(reportable):
                    r.add("%s.not_reportable:0#%d" % (tag, len(r.obligations)), DISCHARGED if tm.isnum(s.ret) and s.ret.args[0] == 0 else FAILED, "symex", 0, repr(s.ret)[:100]); n[tag + "0"] = 1; return
                exq = dec(tm.and_(tm.eq(ty, tm.num(ev["EX"], "I")), tm.not_(tm.eq(F("equiv"), tm.num(0))), tm.not_(tm.eq(F("alk"), tm.num(0)))))
                val = F("lg") - log10_t(F("equiv") / F("alk")) if exq else F("lg")
                if twin and not exq:
                    val = F("lg_pitzer")
                if tag == "GAMMA":
                    val = tm.app("pow", (tm.num(10), val), "R")
                U.discharge_eq_real(r, "%s.%s:%s#%d" % (tag, "exchange_species" if exq else "species", ("10^" if tag == "GAMMA" else "") + ("(lg-log10(equiv/CEC))" if exq else "lg_of_that_species"), len(r.obligations)), hyps, s.ret, val)
                n[tag + ("ex" if exq else "aq")] = 1
            case_split(list(s.pc), body)
            r.add("%s.pure#%d" % (tag, len(r.obligations)), DISCHARGED if not U.iter_writes(s) else FAILED, "symex", 0, "", kind="frame")
    # the interpreter's cases
    qf = "PBasic::factor"
    ff = A.find_function(PBASIC, qf)
    for tok, callee in (("toklg", "log_activity_coefficient"), ("tokgamma", "activity_coefficient"), ("tokosmotic", None)):
        bnode = basic_case_body(ff, PBASIC, tok)
        if bnode is None:
            r.add("%s.case_found" % tok, UNDECIDED, "syntactic", 0, ""); continue
        c = ctx(functional=("stringfactor", "log_activity_coefficient", "activity_coefficient"), enums_from="Phreeqc.h", enums=ENUMS)
        c.record_types.update({"valrec", "PBasic::valrec", "struct PBasic::valrec"})
        f, ex, fin, info = region(PBASIC, qf, [bnode], c)
        for s in live(fin):
            w = [(k, ix, v) for k, ix, v in U.iter_writes(s) if k == ("f", "val", "R")]
            if len(w) != 1:
                r.add("%s.assigns_the_result_once" % tok, FAILED, "symex", 0, repr(w)[:200]); continue
            v = w[0][2]
            ph = fld0(ex, s, "PhreeqcPtr", "P")
            if callee:
                sf = [e for e in s.events if e.name.endswith("stringfactor")]; ce = [e for e in s.events if e.name.split("::")[-1] == callee]
                ok = len(sf) == 1 and len(ce) == 1 and ce[0].args[0] is sf[0].result and ce[0].recv is ph
                ok = ok and v.op == "ite" and v.args[0] is fld0(ex, s, "parse_all", "B") and v.args[2] is ce[0].result
                r.add("%s.returns_%s(of_its_string_argument)_when_running" % (tok, callee), DISCHARGED if ok else FAILED, "symex", 0, repr(v)[:200]); n[tok] = 1
            else:
                pm = tm.or_(tm.eq(fld0(ex, s, "pitzer_model", "I", ph), tm.num(ev["TRUE"], "I")), tm.eq(fld0(ex, s, "sit_model", "I", ph), tm.num(ev["TRUE"], "I")))
                def body(dec, hyps, s=s, v=v, ph=ph):
                    if dec(pm):
                        r.add("tokosmotic.Pitzer_or_SIT:COSMOT", DISCHARGED if v is fld0(ex, s, "COSMOT", "R", ph) else FAILED, "symex", 0, repr(v)[:100]); n["osm1"] = 1
                    else:
                        r.add("tokosmotic.ion_association:0", DISCHARGED if tm.isnum(v) and v.args[0] == 0 else FAILED, "symex", 0, repr(v)[:100]); n["osm0"] = 1
                case_split(list(s.pc), body)
    need = {"LG0", "LGaq", "LGex", "GAMMA0", "GAMMAaq", "GAMMAex", "toklg", "tokgamma", "osm0", "osm1"}
    r.add("reach.cases", DISCHARGED if need <= set(n) else UNDECIDED, "symex", 0, repr(sorted(n)), kind="vacuity")
    r.assumptions += ["s_search(name) returns the species of that name or NULL (functional)", "COSMOT is the osmotic coefficient left by pitzer() / sit() (their units)",
                      "MU, DH_A, DH_B read-outs: unit C16.DH_readouts", "statement contracts on three case bodies of PBasic::factor; pow(10, x) uninterpreted"]
    return r


from fractions import Fraction as F_

UNITS = [
    ("C16.gammas.exchange_species_equivalent_fraction_and_aqueous_model", unit_exchange),
    ("C16.gammas.surface_LLNL_CO2_and_water_species", unit_other_cases),
    ("C16.gammas.uses_reported_DH_A_DH_B_and_hands_Pitzer_SIT_over", unit_handover),
    ("C16.gammas_a_f.equivalent_fraction_on_the_same_exchanger_and_damped_update", unit_gammas_a_f),
    ("C16.calc_dielectrics.DH_A_DH_B_Aphi_from_density_dielectric_constant_temperature", unit_dielectrics),
    ("C16.calc_pitz_param.temperature_function_of_a_Pitzer_parameter", unit_calc_pitz_param),
    ("C16.PTEMP.every_parameter_in_use_reevaluated_at_TK_reference_298.15", unit_ptemp),
    ("C16.pitzer.binary_and_Debye_Hueckel_terms_obey_Gibbs_Duhem", unit_pitzer_binary),
    ("C16.pitzer.molalities_in_charge_terms_MacInnes_water_activity_and_readout", unit_pitzer_assembly),
    ("C16.gammas_pz.aqueous_gammas_left_to_the_model_exchange_surface_water_conventions", lambda twin=False: unit_gammas_specific("pz", twin)),
    ("C16.gammas_sit.aqueous_gammas_left_to_the_model_exchange_surface_water_conventions", lambda twin=False: unit_gammas_specific("sit", twin)),
    ("C16.PITZER_GAMMA.reported_lg_is_tied_to_the_model_value_lg_pitzer", unit_pitzer_gamma_row),
    ("C16.BASIC.LG_GAMMA_OSMOTIC_report_what_the_model_computed_for_that_species", unit_basic_readouts),
]
from props.c16_ext2 import UNITS as _U2; UNITS = UNITS + _U2
from props.c16_ext3 import UNITS as _U3; UNITS = UNITS + _U3
from props.c16_ext5 import UNITS as _U5; UNITS = UNITS + _U5
