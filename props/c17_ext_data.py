"""C17 extension: READ / DATA / RESTORE, DIM (and the implicit dimension of findvar), PUT / GET, SAVE / PUNCH, LET."""
from props.c17_ext_model import *
from props.c17_ext_model import _cnt
from props.c17_ext_loops import line_advance_summary, check_line_advance, body_nodes, cond_node, pv

LINK0 = tm.sym("P0_LINK", "P")
LL = tm.sym("L_LINK", "P")


def unit_cmdread(twin=False):
    """READ v1, v2, ...: each variable in turn takes the NEXT item of the program's DATA statements: the item behind the comma at the DATA
    pointer, or - when the pointer is at the end of a DATA statement, or unset after RESTORE (then from the first line) - the first item
    of the next DATA statement in program order; 'Out of Data' when there is none.  A numeric variable takes a numeric expression, a
    string variable a string expression (the old string is released); the pointer is left behind the item; the statement cursor is
    restored behind the variable."""
    q = "PBasic::cmdread"
    fn = A.find_function(PB, q)
    r = U.new_unit("C17.cmdread.takes_the_next_DATA_item_in_order", PB, q, fn)
    lps = loops_of(fn)
    nested_in = lambda k: [j for j, o in enumerate(lps) if o is not lps[k] and any(y is lps[k] for y in A.walk(o))]
    outer = [k for k, l in enumerate(lps) if l["kind"] == "DoStmt" and not nested_in(k)]
    if len(outer) != 1:
        raise Undecided("cmdread: the per-variable loop was not found")
    def inner(ex, st, n, o):
        """the search loop inside the per-variable step: it writes only the token position and the data line (search.* / data_line_advance.*
        frame obligations); both are arbitrary afterwards and its exit condition holds"""
        init, cond, inc, body = ex.loop_parts(n)
        e_ = SX.Event("data_search", None, [tm.num(o, "I"), F(ex, st, "t", "P", LL), F(ex, st, "dataline", "P", THIS)], ZI)
        st.events.append(e_)
        for key in (("f", "t", "P"), ("f", "dataline", "P")):
            st.heap[key] = tm.sym("Hs%d.%s:%s" % (next(_cnt), key[1], key[2]), ("A", "P", key[2]))
        for did, (nm, qt) in ex.assigned_locals(n)[0].items():
            if not isinstance(st.locals.get(did), tuple):
                st.locals[did] = fresh("havoc_" + str(nm), SX.sort_of(qt))
        out = []
        for s2, v in ex.ev(cond, st):
            if s2.assume(tm.not_(tm.to_bool(v))):
                out.append(s2)
        return out
    f, ex, its, info = run_iter(q, outer[0], mkctx(repoint=False), loop=inner)
    # the search loop of the library build: the inner loop that paths with phreeqci_gui == false reach (the GUI branch holds a textual copy)
    reached = set()
    for s in alive_lib(its):
        reached.update(int(e.args[0].args[0]) for e in U.iter_events(s) if e.name == "data_search")
    search = sorted(reached)
    adv = [k for k, l in enumerate(lps) if l["kind"] == "WhileStmt" and search and search[0] in nested_in(k)]
    if len(search) != 1 or len(adv) != 1:
        raise Undecided("cmdread: search loop of the library build not identified (%s %s)" % (search, adv))
    n = {"num": 0, "str": 0, "next_item": 0, "next_stmt": 0, "restored": 0}
    for s in alive_lib(its, ("run", "cont")):
        E = U.iter_events(s)
        fv = [e for e in E if e.name.endswith("::findvar")]
        it_r = [e for e in E if e.name.endswith("::realexpr")]; it_s = [e for e in E if e.name.endswith("::strexpr")]
        ds = [e for e in E if e.name == "data_search"]
        t_s = tm.select(entry_arr(ex, s, ("f", "t", "P")), LL)
        if not ok(r, "one_variable_per_item,looked_up_at_the_statement_cursor", len(fv) == 1 and fv[0].args[-1] is t_s and len(it_r) + len(it_s) == 1, "findvar x%d items %d" % (len(fv), len(it_r) + len(it_s))):
            continue
        v = fv[0].result
        item = (it_r + it_s)[0]
        hy = hyp(s)
        dl0 = tm.select(entry_arr(ex, s, ("f", "dataline", "P")), THIS)
        dt0 = tm.select(entry_arr(ex, s, ("f", "datatok", "P")), THIS)
        kind0 = lambda t: tm.select(arr0(("f", "kind", "I")), t)
        lb = tm.select(arr0(("f", "linebase", "P")), THIS)
        unset = tm.eq(dl0, NULLP)
        p0 = tm.ite(unset, tm.select(arr0(("f", "txt", "P")), lb), dt0)          # the effective DATA position
        at_comma = tm.and_(tm.not_(tm.eq(p0, NULLP)), tm.eq(kind0(p0), tk("tokcomma")))
        # --- where the item is taken from
        if not ds:
            n["next_item"] += 1
            U.discharge_valid(r, "same_DATA_statement.only_when_the_pointer_stands_at_a_comma", hy, at_comma)
            U.discharge_valid(r, "same_DATA_statement.item_is_the_one_behind_that_comma", hy, tm.eq(item.args[-1], tm.select(arr0(("f", "next", "P")), p0) if not twin else p0))
        else:
            n["next_stmt"] += 1
            U.discharge_valid(r, "next_DATA_statement.searched_only_when_the_pointer_is_not_at_a_comma", hy, tm.not_(at_comma))
            t_from, dl_from = ds[0].args[1], ds[0].args[2]
            U.discharge_valid(r, "next_DATA_statement.search_starts_at_the_DATA_pointer(after_RESTORE:first_token_of_the_first_line)", hy,
                              tm.and_(tm.eq(dl_from, tm.ite(unset, lb, dl0)), tm.eq(t_from, p0)))
            if prove(hy, unset):
                n["restored"] += 1
            ok(r, "next_DATA_statement.item_is_the_first_one_behind_the_DATA_token_found", len(ds) == 1 and item.args[-1] is Fb(ex, s, "t", "P", LL), repr(item.args[-1]))
        # --- type and target
        w_r = [(i, x) for k, i, x in U.iter_writes(s) if k == ("m", "R")]
        w_p = [(i, x) for k, i, x in U.iter_writes(s) if k == ("m", "P")]
        isstr = tm.select(arr0(("f", "stringvar", "B")), v)
        if it_r:
            n["num"] += 1
            U.discharge_valid(r, "numeric_item.only_for_a_numeric_variable", hy, tm.not_(isstr))
            valp = tm.select(arr0(("f", "val", "P")), U0(v))
            ok(r, "numeric_item.stored_in_the_variable_named(and_nowhere_else)", len(w_r) == 1 and not w_p and w_r[0][0] == (valp, ZI) and w_r[0][1] is item.result, repr(w_r)[:160])
        else:
            n["str"] += 1
            U.discharge_valid(r, "string_item.only_for_a_string_variable", hy, isstr)
            svalp = tm.select(arr0(("f", "sval", "P")), U1(v))
            ok(r, "string_item.stored_in_the_variable_named(and_nowhere_else)", len(w_p) == 1 and not w_r and w_p[0][0] == (svalp, ZI) and w_p[0][1] is item.result, repr(w_p)[:160])
            old = tm.select(entry_arr(ex, s, ("m", "P")), svalp, ZI)
            fr = [e for e in E if e.name.split("::")[-1] in ("free_check_null", "PHRQ_free")]
            for hy2, had in cases(hy, tm.not_(tm.eq(old, NULLP))):
                if had:
                    ok(r, "string_item.old_string_released_once", len(fr) == 1 and fr[0].args[0] is old, "%s" % [e.args for e in fr])
                else:
                    ok(r, "string_item.nothing_released_when_there_was_no_old_string", not fr, "")
        # --- pointers afterwards
        ok(r, "DATA_pointer_left_behind_the_item", F(ex, s, "datatok", "P", THIS) is item.snap, repr(F(ex, s, "datatok", "P", THIS)))
        t_end = F(ex, s, "t", "P", LL)
        pos = fv[0].snap
        eos = tm.or_(tm.eq(pos, NULLP), tm.eq(kind0(pos), tk("tokelse")), tm.eq(kind0(pos), tk("tokcolon")))
        U.discharge_valid(r, "statement_cursor_restored_behind_the_variable(and_its_comma)", hy, tm.eq(t_end, tm.ite(eos, pos, tm.select(arr0(("f", "next", "P")), pos))))
    reach(r, "reach.read(numeric,string,same_statement,next_statement,after_RESTORE)", min(n.values()))

    # --- the search for the next DATA statement
    c = mkctx()
    f2, ex2, fin2, info2 = run_stmts(q, body_nodes(lps[search[0]]), c, loop=line_advance_summary())
    ns = 0
    for s in alive_lib(fin2, ("run", "cont")):
        k_arr = base_arr(s, ("f", "kind", "I")) or ex2.heap_arr(s, ("f", "kind", "I"))
        n_arr = base_arr(s, ("f", "next", "P")) or ex2.heap_arr(s, ("f", "next", "P"))
        t_arr = base_arr(s, ("f", "t", "P")) or ex2.heap_arr(s, ("f", "t", "P"))
        T = tm.select(t_arr, LL)
        hy = hyp(s)
        ns += 1
        t1 = F(ex2, s, "t", "P", LL)
        U.discharge_valid(r, "search.exactly_one_token_consumed", hy, tm.eq(t1, tm.select(n_arr, T)))
        outs = ex2.ev(cond_node(lps[search[0]]), s.clone())
        if len(outs) != 1:
            r.add("search.continuation_test_evaluates_without_branching", UNDECIDED, "symex", 0, "%d" % len(outs)); continue
        cont = tm.to_bool(outs[0][1])
        k1 = tm.select(k_arr, t1)
        stop = tm.and_(tm.eq(tm.select(k_arr, T), tk("tokdata")), tm.not_(tm.or_(tm.eq(t1, NULLP), tm.eq(k1, tk("tokelse")), tm.eq(k1, tk("tokcolon")))))
        U.discharge_valid(r, "search.stops_exactly_behind_a_DATA_token_that_has_an_item", hy, tm.and_(tm.implies(cont, tm.not_(stop)), tm.implies(tm.not_(stop), cont)))
        ok(r, "search.writes_only_the_position", not writes(s, ("f", "dataline", "P")) and not writes(s, ("f", "datatok", "P")) and not writes(s, ("m", "R")) and not writes(s, ("m", "P")), "", kind="frame")
    reach(r, "reach.search", ns)
    check_line_advance(r, q, adv[0], mkctx(), tag="data_line_advance", line_field="dataline", lib_only=True)

    # --- RESTORE without a line number; DATA as a statement
    f3, ex3, fin3, info3 = run_fn("PBasic::restoredata", mkctx())
    for s in alive(fin3, ("run", "ret")):
        pv(r, "RESTORE.unsets_the_DATA_line(the_next_READ_starts_at_the_first_line)", s, tm.eq(F(ex3, s, "dataline", "P", THIS), NULLP))
    f4, ex4, fin4, info4 = run_fn("PBasic::cmddata", mkctx())
    for s in alive(fin4, ("run", "ret")):
        sk = evs(s, "skiptoeos")
        ok(r, "DATA.as_a_statement_is_skipped_to_its_end_and_does_nothing_else", len(sk) == 1 and F(ex4, s, "t", "P", LINK0) is sk[0].result and sk[0].args[1] is F0("t", "P", LINK0)
           and not [k for k in s.heap if k != ("f", "t", "P") and writes(s, k)], "")
    r.assumptions += ["library build (phreeqci_gui false); the GUI branch is a textual duplicate and not under contract", "findvar / realexpr / strexpr return arbitrary values and move the position",
                      "DATA items do not re-point the variable being read (no array element of the same array inside a DATA item)",
                      "the search loop is summarised by its exit condition inside the per-variable step; its body carries the search.* and data_line_advance.* obligations",
                      "errormsg('Out of Data') does not return", "the first iteration is executed like the following ones (do-while)"]
    return r


# --------------------------------------------------------------------------------------------------------------- DIM

def _selective(ex, st, n, keys, tagname):
    """summary of an inner loop by what it may write (the locals it assigns, the listed memory components) and its exit condition"""
    init, cond, inc, body = ex.loop_parts(n)
    states = [st]
    if init is not None:
        states = ex.exec(init, states)
    out = []
    for s in states:
        for did, (nm, qt) in ex.assigned_locals(n)[0].items():
            if not isinstance(s.locals.get(did), tuple):
                s.locals[did] = fresh("after_%s_%s" % (tagname, nm), SX.sort_of(qt))
        for key in keys:
            ex.heap_arr(s, key)
            s.heap[key] = tm.sym("Hl%d.%s" % (next(_cnt), ("%s:%s" % (key[1], key[2])) if key[0] == "f" else "mem:%s" % key[1]), s.heap[key].sort)
        if cond is None:
            out.append(s); continue
        for s2, v in ex.ev(cond, s):
            if s2.assume(tm.not_(tm.to_bool(v))):
                out.append(s2)
    return out


def _full_range_head(ex, st0, loop, bound):
    """for (c = 0; c < bound; c++): returns the counter's declaration id when the head has this meaning, else None"""
    if loop["kind"] != "ForStmt":
        return None
    init, cond, inc, body = ex.loop_parts(loop)
    if init is None or cond is None or inc is None:
        return None
    ids = [d for d in ex.assigned_locals(init)[0]]
    if len(ids) != 1:
        return None
    c = ids[0]
    s = st0.clone()
    ss = ex.exec(init, [s])
    if len(ss) != 1 or ss[0].locals.get(c) is not ZI:
        return None
    s = ss[0]
    cs = tm.sym("c17_counter", "I")
    s.locals[c] = cs
    cv = ex.ev(cond, s.clone())
    if len(cv) != 1 or not prove([], tm.and_(tm.implies(tm.to_bool(cv[0][1]), tm.lt(cs, bound)), tm.implies(tm.lt(cs, bound), tm.to_bool(cv[0][1])))):
        return None
    s2 = s.clone()
    for s3, _ in ex.ev(inc, s2):
        if not prove([], tm.eq(s3.locals.get(c), cs + 1)):
            return None
    return c


def _array_creation(r, q, fn, ex, s, E, v, snaps, dim_k, fills, count_id, prod_id, twin=False, tag="create"):
    """obligations on the state behind the dimension loop: numdims, allocation of product-many elements of the variable's type, every
    element initialised (full-range fill loop; the fill iteration has its own obligation)"""
    lps = loops_of(fn)
    hy = hyp(s)
    dd = [e for e in E if e.name == "dim_done"]
    if not ok(r, "%s.subscript_loop_passed_once" % tag, len(dd) == 1, "%d" % len(dd)):
        return
    cnt_after, prod_after = dd[0].args
    U.discharge_valid(r, "%s.numdims==number_of_subscripts" % tag, hy, tm.eq(F(ex, s, "numdims", "I", v), cnt_after))
    al = [e for e in E if e.name.split("::")[-1] in ("PHRQ_malloc", "PHRQ_calloc")]
    if not ok(r, "%s.one_allocation" % tag, len(al) == 1, "%d" % len(al)):
        return
    isstr = F(ex, s, "stringvar", "B", v)
    reached = [e.args[0] for e in E if e.name == "inner_loop"]
    for hy2, st_ in cases(hy, isstr):
        want_fill = [k for k in fills if (text_kind(fn, lps[k]) == ("P" if st_ else "R"))]
        fld_, sub = ("sarr", U1(v)) if st_ else ("arr", U0(v))
        U.discharge_valid(r, "%s.%s.allocation_holds_product_of_extents_elements" % (tag, "string" if st_ else "numeric"), hy2, tm.eq(al[0].args[0], prod_after * 8 if not twin else prod_after))
        U.discharge_valid(r, "%s.%s.allocation_becomes_the_variable's_array" % (tag, "string" if st_ else "numeric"), hy2, tm.eq(F(ex, s, fld_, "P", sub), al[0].result))
        if prove(hy2, tm.eq(al[0].result, NULLP)):
            continue
        ok(r, "%s.%s.every_element_initialised(fill_loop_over_0..count-1_of_the_matching_type)" % (tag, "string" if st_ else "numeric"),
           len(want_fill) == 1 and any(x is tm.num(want_fill[0], "I") for x in reached) and
           any(_full_range_head(ex, s0, lps[want_fill[0]], s0.locals.get(prod_id)) is not None and s0.locals.get(prod_id) is prod_after for s0 in snaps.get(want_fill[0], [])),
           "fill loops reached %s, wanted %s" % (reached, want_fill))


def varrec_local(fn):
    """name of the function's one local of type varrec* (the variable being dimensioned)"""
    nm = [x.get("name") for x in A.walk(fn) if x.get("kind") == "VarDecl" and SX.strip_type(x["type"].get("desugaredQualType") or x["type"]["qualType"]).replace(" ", "") in ("varrec*",)]
    if len(nm) != 1:
        raise Undecided("expected one local of type varrec *, found %s" % nm)
    return tm.sym("L_%s" % nm[0], "P")


def text_kind(fn, loop):
    """sort of the element the fill loop body assigns ('R' numeric zero, 'P' null string)"""
    for x in A.walk(loop):
        if x.get("kind") == "BinaryOperator" and x.get("opcode") == "=" and strip(x["inner"][0]).get("kind") == "ArraySubscriptExpr":
            qt = x["inner"][0].get("type", {}).get("desugaredQualType") or x["inner"][0].get("type", {}).get("qualType", "")
            return SX.sort_of(qt)
    return None


def _fill_iteration(r, q, k, twin=False, tag="fill"):
    f, ex, its, info = run_iter(q, k, mkctx())
    n = 0
    v = varrec_local(f)
    for s in alive(its, ("run", "cont")):
        n += 1
        w = U.iter_writes(s)
        ctr = [nm for d, (nm, qt) in ex.assigned_locals(info["node"])[0].items()]
        c = tm.sym("iter_%s" % ctr[0], "I") if len(ctr) == 1 else None
        if len(w) != 1 or c is None:
            ok(r, "%s.one_element_written_per_step" % tag, False, repr(w)[:120]); continue
        key, idx, val = w[0]
        if key == ("m", "R"):
            base = tm.select(entry_arr(ex, s, ("f", "arr", "P")), U0(v))
            ok(r, "%s.numeric_element[c]:=0" % tag, idx == (base, c) and val is (tm.num(0) if not twin else tm.num(1)), "%r := %r" % (idx, val))
        elif key == ("m", "P"):
            base = tm.select(entry_arr(ex, s, ("f", "sarr", "P")), U1(v))
            ok(r, "%s.string_element[c]:=NULL(empty)" % tag, idx == (base, c) and val is NULLP, "%r := %r" % (idx, val))
        else:
            ok(r, "%s.writes_an_array_element" % tag, False, repr(key))
    reach(r, "reach.%s" % tag, n)


def _sizing_local(q, outer_k, dim_k, ints):
    """the integer local assigned in the subscript loop whose value behind that loop sizes the allocation"""
    def inner(ex, st, n, o):
        keys = [("m", "I"), ("f", "t", "P")] if o == dim_k else [("m", "R"), ("m", "P")]
        return _selective(ex, st, n, keys, "loop%d" % o)
    f, ex, its, info = run_iter(q, outer_k, mkctx(), loop=inner)
    found = set()
    for s in alive(its, ("run", "cont")):
        for e in U.iter_events(s):
            if e.name.split("::")[-1] in ("PHRQ_malloc", "PHRQ_calloc"):
                for x in tm.subterms(e.args[0]):
                    if x.op == "sym" and x.args[0].startswith("after_loop%d_" % dim_k):
                        nm = x.args[0][len("after_loop%d_" % dim_k):].split("!")[0]
                        found.update(d for d, n_ in ints.items() if n_ == nm)
    if len(found) != 1:
        raise Undecided("cmddim: the allocation is not sized by one quantity computed in the subscript loop (%s)" % sorted(found))
    return list(found)[0]


def unit_cmddim(twin=False):
    """DIM v(n1, ..., nk): v must not be dimensioned yet; subscript d runs 0..nd, so extent d is nd + 1 (nd < 0: bad subscript; more than
    maxdims subscripts: bad subscript); the extents are stored in order, numdims = k; the array holds the product of the extents elements,
    all 0 (numeric) or empty (string); several variables may follow, separated by commas."""
    q = "PBasic::cmddim"
    fn = A.find_function(PB, q)
    r = U.new_unit("C17.cmddim.extents_are_bound_plus_1_and_all_elements_start_empty", PB, q, fn)
    lps = loops_of(fn)
    nested = lambda k: any(lps[k] is not o and any(y is lps[k] for y in A.walk(o)) for o in lps)
    outer = [k for k, l in enumerate(lps) if l["kind"] == "DoStmt" and not nested(k)]
    dim = [k for k, l in enumerate(lps) if l["kind"] == "DoStmt" and nested(k)]
    fills = [k for k, l in enumerate(lps) if l["kind"] == "ForStmt"]
    if len(outer) != 1 or len(dim) != 1:
        raise Undecided("cmddim: loop structure changed (%s %s %s)" % (outer, dim, fills))
    MAXD = tm.num(define("maxdims"), "I")
    # ---- one subscript
    f1, ex1, its1, info1 = run_iter(q, dim[0], mkctx())
    v1 = varrec_local(fn)
    ints = {d: nm for d, (nm, qt) in ex1.assigned_locals(lps[dim[0]])[0].items() if SX.sort_of(qt) == "I"}
    count_id = None
    prod_id = _sizing_local(q, outer[0], dim[0], ints)       # the quantity that sizes the allocation behind the subscript loop
    nd = {"ok": 0, "err": 0, "more": 0, "last": 0}
    for s in alive(its1):
        ie = [e for e in U.iter_events(s) if e.name.endswith("::intexpr")]
        if len(ie) != 1:
            ok(r, "subscript.one_bound_expression_per_subscript", False, "%d" % len(ie)); continue
        e = ie[0].result
        hy = hyp(s)
        old = {d: tm.sym("iter_%s" % nm, "I") for d, nm in ints.items()}
        if count_id is None and s.status in ("run", "cont"):
            for d in ints:
                if prove(hy, tm.eq(s.locals[d], old[d] + 1)) and d != prod_id:
                    count_id = d
        if s.status == "throw":
            if any(x.name.endswith("badsubscr") for x in U.iter_events(s)):
                nd["err"] += 1
                if count_id is not None:
                    # ... or for an element count (times the element size) that does not fit a long: extents whose product wraps around cannot be stored
                    big = tm.FALSE
                    if prod_id is not None:
                        LIM = tm.num((2 ** 63 - 1) // 8, "I")
                        big = tm.lt(tm.idiv(LIM, old[prod_id]), tm.add(e, tm.num(1, "I")))
                    U.discharge_valid(r, "subscript.bad_subscript_only_for_a_negative_bound_more_than_maxdims_subscripts_or_an_element_count_that_does_not_fit", hy + ([tm.le(tm.num(1, "I"), old[prod_id])] if prod_id is not None else []), tm.or_(tm.lt(e, ZI), tm.le(MAXD, old[count_id]), big))
            continue
        if s.status not in ("run", "cont"):
            continue
        if count_id is None or prod_id is None:
            ok(r, "subscript.a_subscript_counter_and_an_element_product_are_kept", False, "%s" % ints); continue
        nd["ok"] += 1
        U.discharge_valid(r, "subscript.accepted_only_when_bound>=0_and_fewer_than_maxdims_before_it", hy, tm.and_(tm.le(ZI, e), tm.lt(old[count_id], MAXD)))
        w = [(i, x) for k, i, x in U.iter_writes(s) if k == ("m", "I")]
        if ok(r, "subscript.one_extent_stored", len(w) == 1, repr(w)[:120]):
            U.discharge_valid(r, "subscript.extent==bound+1", hy, tm.eq(w[0][1], e + 1 if not twin else e))
            U.discharge_valid(r, "subscript.extent_stored_at_the_subscript's_position_in_dims", hy, tm.and_(tm.eq(w[0][0][0], tm.app("fld:dims", (v1,), "P")), tm.eq(w[0][0][1], old[count_id])))
        U.discharge_valid(r, "subscript.counter+1", hy, tm.eq(s.locals[count_id], old[count_id] + 1))
        U.discharge_valid(r, "subscript.element_product*=extent", hy, tm.eq(s.locals[prod_id], old[prod_id] * (e + 1)))
        t_after = ie[0].snap
        kind_e = lambda t: tm.select(entry_arr(ex1, s, ("f", "kind", "I")), t)
        is_rp = tm.and_(tm.not_(tm.eq(t_after, NULLP)), tm.eq(kind_e(t_after), tk("tokrp")))
        outs = ex1.ev(cond_node(lps[dim[0]]), s.clone())
        if len(outs) == 1:
            cont = tm.to_bool(outs[0][1])
            U.discharge_valid(r, "subscript.list_ends_exactly_at_the_closing_parenthesis", hy, tm.and_(tm.implies(cont, tm.not_(is_rp)), tm.implies(tm.not_(is_rp), cont)))
            if prove(hy, cont):
                nd["more"] += 1
                U.discharge_valid(r, "subscript.a_comma_separates_subscripts_and_is_consumed", hy, tm.and_(tm.eq(kind_e(t_after), tk("tokcomma")), tm.eq(F(ex1, s, "t", "P", LL), tm.select(entry_arr(ex1, s, ("f", "next", "P")), t_after))))
            else:
                nd["last"] += 1
                ok(r, "subscript.position_stays_at_the_closing_parenthesis", F(ex1, s, "t", "P", LL) is t_after, "")
    reach(r, "reach.subscript(ok,error,more,last)", min(nd.values()))
    if count_id is None or prod_id is None:
        raise Undecided("cmddim: subscript counter / element product not identified")
    # ---- one variable
    snaps = {}

    def inner(ex, st, n, o):
        snaps.setdefault(o, []).append(st.clone())
        st.events.append(SX.Event("inner_loop", None, [tm.num(o, "I")], ZI))
        keys = [("m", "I"), ("f", "t", "P")] if o == dim[0] else [("m", "R"), ("m", "P")]
        res = _selective(ex, st, n, keys, "loop%d" % o)
        if o == dim[0]:
            for s_ in res:
                s_.events.append(SX.Event("dim_done", None, [s_.locals.get(count_id), s_.locals.get(prod_id)], ZI))
        return res
    f, ex, its, info = run_iter(q, outer[0], mkctx(), loop=inner)
    nv = {"num": 0, "str": 0}
    for s0 in alive(snaps.get(dim[0], [])):
        ok(r, "variable.subscript_counter_starts_at_0_and_element_product_at_1", s0.locals.get(count_id) is ZI and s0.locals.get(prod_id) is tm.num(1, "I"), "%r %r" % (s0.locals.get(count_id), s0.locals.get(prod_id)), kind="establishment")
    for s in alive(its, ("run", "cont")):
        E = U.iter_events(s)
        if any(e.name.endswith("malloc_error") for e in E):
            continue
        t_s = tm.select(entry_arr(ex, s, ("f", "t", "P")), LL)
        v = tm.select(entry_arr(ex, s, ("f", "vp", "P")), UUo(t_s))
        hy = hyp(s)
        U.discharge_valid(r, "variable.named_by_a_variable_token_and_not_dimensioned_before", hy, tm.and_(tm.not_(tm.eq(t_s, NULLP)), tm.eq(tm.select(entry_arr(ex, s, ("f", "kind", "I")), t_s), tk("tokvar")),
                                                                                                        tm.eq(tm.select(entry_arr(ex, s, ("f", "numdims", "I")), v), ZI)))
        rq = [e for e in E if e.name.endswith("::require")]
        ok(r, "variable.subscript_list_opens_with_a_parenthesis_behind_the_name", bool(rq) and prove(hy, tm.eq(rq[0].args[0], tk("toklp"))) and rq[0].args[2] is tm.select(entry_arr(ex, s, ("f", "next", "P")), t_s), "")
        _array_creation(r, q, fn, ex, s, E, v, snaps, dim[0], fills, count_id, prod_id, twin=twin, tag="variable")
        if prove(hy, F(ex, s, "stringvar", "B", v)):
            nv["str"] += 1
        elif prove(hy, tm.not_(F(ex, s, "stringvar", "B", v))):
            nv["num"] += 1
    reach(r, "reach.variable(numeric,string)", min(nv.values()))
    for k in fills:
        _fill_iteration(r, q, k, twin=False, tag="fill_%s" % ("string" if text_kind(fn, lps[k]) == "P" else "numeric"))
    r.assumptions += ["intexpr returns an arbitrary integer and moves the position", "badsubscr / errormsg / snerr do not return (unit C17.errormsg)", "sizeof(LDBLE) == sizeof(char *) == 8 (LP64 build)",
                      "inner loops are summarised inside the per-variable step by what they write and their exit condition; their bodies carry the subscript.* / fill_*.* obligations",
                      "integer products do not overflow (mathematical integers)", "PHRQ_malloc failure path not under contract"]
    return r


def unit_findvar_implicit_dim(twin=False):
    """A(e1, ..., ek) used before any DIM: the variable becomes an array with k subscripts of extent 11 each (0..10), 11^k elements, all 0 /
    empty (more than maxdims subscripts: bad subscript); the position returns to the opening parenthesis so that the subscripts are then
    evaluated like those of a dimensioned array."""
    q = "PBasic::findvar"
    fn = A.find_function(PB, q)
    r = U.new_unit("C17.findvar.undimensioned_array_gets_extent_11_per_subscript", PB, q, fn)
    lps = loops_of(fn)
    reg = [x for x in A.body_of(fn)["inner"] if x.get("kind") == "IfStmt" and any(y.get("kind") == "DoStmt" for y in A.walk(x["inner"][1]))
           and any(y.get("kind") == "CXXMemberCallExpr" and "PHRQ_malloc" in text_of(PB, y) for y in A.walk(x["inner"][1]))]
    if len(reg) != 1:
        raise Undecided("findvar: the if-statement whose then-branch scans the subscripts and allocates the array was not found")
    inside = lambda k: any(y is lps[k] for y in A.walk(reg[0]))
    dim = [k for k, l in enumerate(lps) if l["kind"] == "DoStmt" and inside(k)]
    fills = [k for k, l in enumerate(lps) if l["kind"] == "ForStmt" and inside(k)]
    if len(dim) != 1:
        raise Undecided("findvar: implicit-dimension loop not found")
    MAXD = tm.num(define("maxdims"), "I")

    def ctx_():
        c = mkctx()
        def skipparen(ex_, st, n, name, recv, args):
            t = cur_t(ex_, st, args[0])
            e_ = SX.Event(name, recv, list(args) + [t], ZI, n)
            e_.snap = fresh("tok_after_skipparen", "P")
            st.events.append(e_)
            ex_.store(st, ("field", "t", args[0]), e_.snap, "P")
            return [(st, ZI)]
        c.handlers["PBasic::skipparen"] = skipparen
        c.handlers.pop("PBasic::findvar", None)
        return c
    # ---- one subscript
    f1, ex1, its1, info1 = run_iter(q, dim[0], ctx_())
    v1 = varrec_local(fn)
    ints = {d: nm for d, (nm, qt) in ex1.assigned_locals(lps[dim[0]])[0].items() if SX.sort_of(qt) == "I"}
    # the sizing local: read by the allocation in the region
    count_id = None
    snaps = {}

    def inner(ex, st, n, o):
        snaps.setdefault(o, []).append(st.clone())
        st.events.append(SX.Event("inner_loop", None, [tm.num(o, "I")], ZI))
        keys = [("m", "I"), ("f", "t", "P")] if o == dim[0] else [("m", "R"), ("m", "P")]
        res = _selective(ex, st, n, keys, "loop%d" % o)
        if o == dim[0]:
            pass
        return res
    f, ex, fin, info = run_stmts(q, reg, ctx_(), loop=inner)
    sizing = set()
    for s in alive(fin, ("run",)):
        for e in s.events:
            if e.name.split("::")[-1] in ("PHRQ_malloc", "PHRQ_calloc"):
                for x in tm.subterms(e.args[0]):
                    if x.op == "sym" and x.args[0].startswith("after_loop%d_" % dim[0]):
                        nm = x.args[0][len("after_loop%d_" % dim[0]):].split("!")[0]
                        sizing.update(d for d, n_ in ints.items() if n_ == nm)
    if len(sizing) != 1:
        raise Undecided("findvar: the allocation is not sized by one quantity computed in the subscript loop")
    prod_id = list(sizing)[0]
    nd = {"ok": 0, "err": 0}
    for s in alive(its1):
        hy = hyp(s)
        old = {d: tm.sym("iter_%s" % nm, "I") for d, nm in ints.items()}
        if count_id is None and s.status in ("run", "cont"):
            for d in ints:
                if d != prod_id and prove(hy, tm.eq(s.locals[d], old[d] + 1)):
                    count_id = d
        if s.status == "throw":
            nd["err"] += 1
            if count_id is not None:
                U.discharge_valid(r, "subscript.bad_subscript_only_with_more_than_maxdims_subscripts", hy, tm.le(MAXD, old[count_id]))
            continue
        if s.status not in ("run", "cont") or count_id is None:
            continue
        nd["ok"] += 1
        U.discharge_valid(r, "subscript.accepted_only_with_fewer_than_maxdims_before_it", hy, tm.lt(old[count_id], MAXD))
        w = [(i, x) for k, i, x in U.iter_writes(s) if k == ("m", "I")]
        if ok(r, "subscript.one_extent_stored", len(w) == 1, repr(w)[:120]):
            U.discharge_valid(r, "subscript.extent==11(subscripts_0..10)", hy, tm.eq(w[0][1], tm.num(11 if not twin else 10, "I")))
            U.discharge_valid(r, "subscript.extent_stored_at_the_subscript's_position_in_dims", hy, tm.and_(tm.eq(w[0][0][0], tm.app("fld:dims", (v1,), "P")), tm.eq(w[0][0][1], old[count_id])))
        U.discharge_valid(r, "subscript.counter+1", hy, tm.eq(s.locals[count_id], old[count_id] + 1))
        U.discharge_valid(r, "subscript.element_product*=11", hy, tm.eq(s.locals[prod_id], old[prod_id] * 11))
        sp = [e for e in U.iter_events(s) if e.name.endswith("skipparen")]
        t0 = tm.select(entry_arr(ex1, s, ("f", "t", "P")), LL)
        ok(r, "subscript.one_subscript_expression_skipped,starting_behind_the_parenthesis_or_comma", len(sp) == 1 and sp[0].args[-1] is tm.select(entry_arr(ex1, s, ("f", "next", "P")), t0) and F(ex1, s, "t", "P", LL) is sp[0].snap, "")
        outs = ex1.ev(cond_node(lps[dim[0]]), s.clone())
        if len(outs) == 1:
            is_rp = tm.eq(tm.select(entry_arr(ex1, s, ("f", "kind", "I")), sp[0].snap), tk("tokrp")) if sp else tm.FALSE
            U.discharge_valid(r, "subscript.list_ends_exactly_at_the_closing_parenthesis", hy, tm.and_(tm.implies(tm.to_bool(outs[0][1]), tm.not_(is_rp)), tm.implies(tm.not_(is_rp), tm.to_bool(outs[0][1]))))
    reach(r, "reach.subscript(ok,error)", min(nd.values()))
    if count_id is None:
        raise Undecided("findvar: subscript counter not identified")
    # ---- the region
    v = v1
    t_in = F0("t", "P", LL)
    for s0 in alive(snaps.get(dim[0], [])):
        ok(r, "region.subscript_counter_starts_at_0_and_element_product_at_1", s0.locals.get(count_id) is ZI and s0.locals.get(prod_id) is tm.num(1, "I"), "%r %r" % (s0.locals.get(count_id), s0.locals.get(prod_id)), kind="establishment")
        ok(r, "region.scan_of_the_subscripts_starts_at_the_opening_parenthesis", F(ex, s0, "t", "P", LL) is t_in, "", kind="establishment")
    nv = 0
    for s in alive(fin, ("run",)):
        if not any(e.name == "inner_loop" for e in s.events) or any(e.name.endswith("malloc_error") for e in s.events):
            continue
        nv += 1
        E = list(s.events)
        # the values behind the subscript loop: the symbols created by the loop summary
        allsyms = set()
        for t_ in list(s.pc) + [e.args[0] for e in E if e.name.split("::")[-1] in ("PHRQ_malloc",)] + [F(ex, s, "numdims", "I", v)]:
            for x in tm.subterms(t_):
                if x.op == "sym" and x.args[0].startswith("after_loop%d_" % dim[0]):
                    allsyms.add(x)
        by = {x.args[0][len("after_loop%d_" % dim[0]):].split("!")[0]: x for x in allsyms}
        cnt_after, prod_after = by.get(ints[count_id]), by.get(ints[prod_id])
        if cnt_after is None or prod_after is None:
            ok(r, "region.numdims_and_allocation_are_computed_from_the_subscript_loop", False, "%s" % sorted(by)); continue
        E2 = E + [SX.Event("dim_done", None, [cnt_after, prod_after], ZI)]
        U.discharge_valid(r, "region.entered_only_for_a_variable_without_dimensions", hyp(s), tm.eq(F0("numdims", "I", v), ZI))
        _array_creation(r, q, fn, ex, s, E2, v, snaps, dim[0], fills, count_id, prod_id, twin=False, tag="region")
        pv(r, "region.position_returns_to_the_opening_parenthesis", s, tm.eq(F(ex, s, "t", "P", LL), t_in))
    reach(r, "reach.region", nv, 2)
    for k in fills:
        _fill_iteration(r, q, k, tag="fill_%s" % ("string" if text_kind(fn, lps[k]) == "P" else "numeric"))
    r.assumptions += ["skipparen moves the position behind one subscript expression (not under contract)", "badsubscr does not return (unit C17.errormsg)", "sizeof(LDBLE) == sizeof(char *) == 8 (LP64 build)",
                      "the region is the top-level if-statement of findvar whose then-branch holds a do-loop and an allocation (anchor by what the branch does); its condition is demanded by region.entered_only_for_a_variable_without_dimensions; the rest of findvar is covered by C17.findvar.subscripts_in_range_and_row_major",
                      "inner loops are summarised inside the region by what they write and their exit condition", "PHRQ_malloc failure path not under contract"]
    return r


# --------------------------------------------------------------------------------------------------------------- LET

def unit_cmdlet(twin=False):
    """[LET] v = e: the target is the variable (or array element) named on the left, fixed BEFORE the right-hand side is evaluated (the
    right-hand side may address other elements of the same array); a numeric target takes the value of a numeric expression, a string target
    a string expression; the old string is released; nothing else is assigned.  Implied LET starts at the statement's first token."""
    q = "PBasic::cmdlet"
    fn = A.find_function(PB, q)
    r = U.new_unit("C17.cmdlet.value_stored_in_the_variable_named_on_the_left", PB, q, fn)
    f, ex, fin, info = run_fn(q, mkctx(repoint=True))
    implied = tm.sym("P0_implied", "B")
    link = tm.sym("P1_LINK", "P")
    n = {"num": 0, "str": 0, "implied": 0, "explicit": 0}
    for s in alive(fin, ("run", "ret")):
        fv = evs(s, "findvar"); rq = evs(s, "require"); it_r = evs(s, "realexpr"); it_s = evs(s, "strexpr")
        if not ok(r, "syntax_is_variable_=_expression", len(fv) == 1 and len(rq) == 1 and len(it_r) + len(it_s) == 1 and rq[0].args[2] is fv[0].snap and prove(hyp(s), tm.eq(rq[0].args[0], tk("tokeq"))), "%s" % [e.name for e in s.events]):
            continue
        hy = hyp(s)
        v = fv[0].result
        item = (it_r + it_s)[0]
        ok(r, "right-hand_side_read_behind_the_equals_sign", item.args[-1] is F0("next", "P", fv[0].snap), repr(item.args[-1]))
        for hy2, imp in cases(hy, implied):
            n["implied" if imp else "explicit"] += 1
            U.discharge_valid(r, "implied_LET_starts_at_the_statement's_first_token" if imp else "LET_starts_behind_the_keyword", hy2, tm.eq(fv[0].args[-1], F0("stmttok", "P", THIS) if imp else F0("t", "P", link)))
        isstr = F0("stringvar", "B", v)
        w_r, w_p = writes(s, ("m", "R")), writes(s, ("m", "P"))
        if it_r:
            n["num"] += 1
            U.discharge_valid(r, "numeric.only_for_a_numeric_variable", hy, tm.not_(isstr))
            target = tm.select(fv[0].val_arr if not twin else item.val_arr, U0(v))
            ok(r, "numeric.value_stored_in_the_element_addressed_on_the_left(and_nowhere_else)", len(w_r) == 1 and not w_p and w_r[0][0] == (target, ZI) and w_r[0][1] is item.result, repr(w_r)[:200])
        else:
            n["str"] += 1
            U.discharge_valid(r, "string.only_for_a_string_variable", hy, isstr)
            target = tm.select(fv[0].sval_arr, U1(v))
            ok(r, "string.value_stored_in_the_element_addressed_on_the_left(and_nowhere_else)", len(w_p) == 1 and not w_r and w_p[0][0] == (target, ZI) and w_p[0][1] is item.result, repr(w_p)[:200])
            old = tm.select(arr0(("m", "P")), target, ZI)
            fr = [e for e in s.events if e.name.split("::")[-1] in ("PHRQ_free", "free_check_null")]
            for hy2, had in cases(hy, tm.not_(tm.eq(old, NULLP))):
                if had:
                    ok(r, "string.old_string_released_once", len(fr) == 1 and fr[0].args[0] is old, "%s" % [e.args for e in fr])
                else:
                    ok(r, "string.nothing_released_when_there_was_no_old_string", not fr, "")
    reach(r, "reach.cmdlet(numeric,string,implied,explicit)", min(n.values()))
    r.assumptions += ["findvar / realexpr / strexpr return arbitrary values, move the position and may re-point the element pointers of array variables; they assign no BASIC variable",
                      "require(k): unit C17.require"]
    return r


# --------------------------------------------------------------------------------------------------------------- PUT / GET

def case_body(fn, label, must_contain=None):
    """the statement behind `case <label>:` of a switch of fn (the evaluator's, told from LIST's by a text it must contain)"""
    for sw in [x for x in A.walk(fn) if x.get("kind") == "SwitchStmt"]:
        for c in sw["inner"][-1].get("inner", []):
            cc = c
            while cc.get("kind") == "CaseStmt":
                names = [y.get("referencedDecl", {}).get("name") for y in A.walk(cc["inner"][0]) if y.get("kind") == "DeclRefExpr"]
                sub = cc["inner"][-1]
                if label in names:
                    body = sub
                    while body.get("kind") == "CaseStmt":
                        body = body["inner"][-1]
                    if must_contain is None or must_contain in text_of(PB, body):
                        return body
                cc = sub
    return None


def case_stmts(fn, label, must_contain=None):
    """statements of `case <label>:` up to its break (the evaluator's switch, told from LIST's by a text they must contain)"""
    for sw in [x for x in A.walk(fn) if x.get("kind") == "SwitchStmt"]:
        sib = sw["inner"][-1].get("inner", [])
        for i, c in enumerate(sib):
            cc, hit = c, False
            while cc.get("kind") == "CaseStmt":
                names = [y.get("referencedDecl", {}).get("name") for y in A.walk(cc["inner"][0]) if y.get("kind") == "DeclRefExpr"]
                hit = hit or label in names
                cc = cc["inner"][-1]
            if not hit:
                continue
            out = [cc]
            for nxt in sib[i + 1:]:
                if nxt.get("kind") in ("BreakStmt", "CaseStmt", "DefaultStmt"):
                    break
                out.append(nxt)
            if must_contain is None or must_contain in "".join(text_of(PB, x) for x in out):
                return out
    return None


def _stream_ops(events):
    return [e for e in events if e.name.split("::")[-1] == "operator<<"]


def _one_subscript_ops(ops, stream_obj, value):
    """the two stream operations that append one subscript to the key: (value) then a separator literal, chained on the key stream;
    returns the separator literal or None"""
    if len(ops) != 2:
        return None
    a, b = ops
    if a.recv is not stream_obj or len(a.args) != 1 or a.args[0] is not value:
        return None
    if b.recv is not a.result or len(b.args) != 1 or b.args[0].op != "str":
        return None
    return b.args[0]


def _key_loop_iteration(r, q, k, stream_name, tag):
    """one turn of the subscript loop `for (;;) { if (comma) { skip it; j = intexpr; key << j << ","; } else { require(')'); break; } }`"""
    f, ex, its, info = run_iter(q, k, mkctx())
    sep = None
    n = {"more": 0, "end": 0}
    oss = tm.sym("&L_%s" % stream_name, "P")
    for s in alive(its):
        E = U.iter_events(s)
        t0 = tm.select(entry_arr(ex, s, ("f", "t", "P")), LL)
        k0 = tm.select(entry_arr(ex, s, ("f", "kind", "I")), t0)
        hy = hyp(s)
        ops = _stream_ops(E)
        ie = [e for e in E if e.name.endswith("::intexpr")]
        if s.status in ("run", "cont"):
            n["more"] += 1
            U.discharge_valid(r, "%s.another_subscript_only_behind_a_comma" % tag, hy, tm.and_(tm.not_(tm.eq(t0, NULLP)), tm.eq(k0, tk("tokcomma"))))
            if not ok(r, "%s.subscript_expression_read_behind_that_comma" % tag, len(ie) == 1 and ie[0].args[-1] is tm.select(entry_arr(ex, s, ("f", "next", "P")), t0), ""):
                continue
            lit = _one_subscript_ops(ops, oss, ie[0].result)
            ok(r, "%s.subscript_appended_to_the_key_as_<integer><separator>" % tag, lit is not None, "%s" % ops)
            sep = lit if lit is not None else sep
        elif s.status == "brk":
            n["end"] += 1
            U.discharge_valid(r, "%s.list_ends_only_at_a_closing_parenthesis_which_is_consumed" % tag, hy, tm.and_(tm.eq(k0, tk("tokrp")), tm.eq(F(ex, s, "t", "P", LL), tm.select(entry_arr(ex, s, ("f", "next", "P")), t0))))
            ok(r, "%s.nothing_appended_at_the_end_of_the_list" % tag, not ops and not ie, "")
    reach(r, "reach.%s(more,end)" % tag, min(n.values()))
    return sep


def _put_get(uid, qp, get_label, mapname, is_string, twin=False):
    qg = "PBasic::factor"
    fp = A.find_function(PB, qp)
    r = U.new_unit(uid, PB, qp, fp)
    PUT, GET = ("PUT$", "GET$") if is_string else ("PUT", "GET")
    parser = "strexpr" if is_string else "realexpr"
    # ------------------------------------------------ PUT
    lp = loops_of(fp)
    if len(lp) != 1:
        raise Undecided("%s: expected one subscript loop" % qp)
    streams = [x.get("name") for x in A.walk(fp) if x.get("kind") == "VarDecl" and "ostringstream" in (x["type"].get("qualType") or "")]
    if len(streams) != 1:
        raise Undecided("%s: key stream not found" % qp)
    sep_put = _key_loop_iteration(r, qp, 0, streams[0], PUT + ".list")
    snaps = {}
    f, ex, fin, info = run_fn(qp, mkctx(), loop=snap_and_havoc(snaps))
    n_put = 0
    for s in alive(snaps.get(0, [])):
        ctor = [e for e in s.events if e.name.startswith("ctor std::basic_ostringstream")]
        re_ = evs(s, parser); rq = evs(s, "require")
        ok(r, PUT + ".key_starts_empty", len(ctor) == 1 and not ctor[0].args and not _stream_ops(s.events), "", kind="establishment")
        ok(r, PUT + ".syntax_opens_with_(_value", len(rq) == 1 and len(re_) == 1 and prove(hyp(s), tm.eq(rq[0].args[0], tk("toklp"))) and re_[0].args[-1] is F0("next", "P", rq[0].args[2]) and F(ex, s, "t", "P", LINK0) is re_[0].snap, "", kind="establishment")
    for s in alive(fin, ("run", "ret")):
        re_ = evs(s, parser)
        post = after(s)
        ok(r, PUT + ".nothing_appended_to_the_key_behind_the_list", not _stream_ops(post), "", kind="frame")
        st_ = [e for e in post if e.name.endswith("::str")]
        hy = hyp(s)
        pa = Fb(ex, s, "parse_all", "B", THIS)
        wh = writes(s, ("m2", "#mhas", "B", "S"))
        wv = writes(s, ("m2", "#mval", "R", "S")) if not is_string else [e for e in post if e.name.endswith("basic_string<char>::operator=")]
        for hy2, parse_only in cases(hy, pa):
            if parse_only:
                ok(r, PUT + ".syntax_check_mode_stores_nothing", not wv and not wh, "")
                continue
            n_put += 1
            mp = tm.app("fld:" + mapname, (Fb(ex, s, "PhreeqcPtr", "P", THIS),), "P")
            good = len(st_) == 1 and len(wv) == 1 and len(wh) == 1 and len(re_) == 1 and wh[0][0] == (mp, st_[0].result) and wh[0][1] is tm.TRUE
            if not is_string:
                good = good and wv[0][0] == (mp, st_[0].result) and wv[0][1] is (re_[0].result if not twin else tm.num(0))
            else:
                slot = tm.app("fld:second", (tm.app("mnode", (tm.app("miter", (mp, st_[0].result), "P"),), "P"),), "P") if good else None
                good = good and wv[0].recv is slot and len(wv[0].args) == 1 and wv[0].args[0] is (tm.app("string_of", (re_[0].result,), "S") if not twin else tm.strc(""))
            ok(r, PUT + ".value_stored_in_%s_under_the_key_text" % mapname, good, "%s" % (wv,))
            if good:
                ctor = [e for e in s.events if e.name.startswith("ctor std::basic_ostringstream")]
                ok(r, PUT + ".key_text_is_that_of_the_key_stream", len(ctor) == 1 and st_[0].recv is ctor[0].recv, "")
    reach(r, "reach." + PUT, n_put)
    # ------------------------------------------------ GET (and EXISTS)
    def get_side(glabel, GNAME, mode):
        fg = A.find_function(PB, qg)
        body = case_body(fg, glabel, mapname)
        if body is None:
            raise Undecided("factor: case %s not found" % glabel)
        lg = loops_of(fg)
        kk = [k for k, l in enumerate(lg) if any(y is l for y in A.walk(body))]
        gstreams = [x.get("name") for x in A.walk(body) if x.get("kind") == "VarDecl" and "ostringstream" in (x["type"].get("qualType") or "")]
        if len(kk) != 1 or len(gstreams) != 1:
            raise Undecided("factor/%s: subscript loop or key stream not found" % glabel)
        sep_get = _key_loop_iteration(r, qg, kk[0], gstreams[0], GNAME + ".list")
        snaps2 = {}
        f2, ex2, fin2, info2 = run_stmts(qg, [body], mkctx(), loop=snap_and_havoc(snaps2))
        n_get = {"first": 0, "none": 0, "value": 0}
        sep_first = None
        for s in alive(snaps2.get(kk[0], [])):
            ctor = [e for e in s.events if e.name.startswith("ctor std::basic_ostringstream")]
            rq = evs(s, "require"); ie = evs(s, "intexpr")
            if not ok(r, GNAME + ".key_starts_empty_and_syntax_opens_with_(", len(ctor) == 1 and not ctor[0].args and len(rq) == 1 and prove(hyp(s), tm.eq(rq[0].args[0], tk("toklp"))), "", kind="establishment"):
                continue
            t1 = F0("next", "P", rq[0].args[2])
            has_first = tm.and_(tm.not_(tm.eq(t1, NULLP)), tm.not_(tm.eq(F0("kind", "I", t1), tk("tokrp"))))
            ops = _stream_ops(s.events)
            if ie:
                n_get["first"] += 1
                U.discharge_valid(r, GNAME + ".first_subscript_read_only_when_the_list_is_not_empty", hyp(s), has_first)
                lit = _one_subscript_ops(ops, ctor[0].recv, ie[0].result) if len(ie) == 1 and ie[0].args[-1] is t1 else None
                ok(r, GNAME + ".first_subscript_appended_to_the_key_as_<integer><separator>", lit is not None, "%s" % ops)
                sep_first = lit if lit is not None else sep_first
            else:
                n_get["none"] += 1
                U.discharge_valid(r, GNAME + ".no_first_subscript_only_for_an_empty_list", hyp(s), tm.not_(has_first))
                ok(r, GNAME + ".empty_list_appends_nothing", not ops, "")
        for s in alive(fin2, ("run", "brk")):
            post = after(s)
            if any(e.name.endswith("malloc_error") for e in post):
                continue
            ok(r, GNAME + ".nothing_appended_to_the_key_behind_the_list", not _stream_ops(post), "", kind="frame")
            st_ = [e for e in post if e.name.endswith("::str")]
            hy = hyp(s)
            pa = Fb(ex2, s, "parse_all", "B", THIS)
            nrec = tm.sym("&L_n", "P")
            for hy2, parse_only in cases(hy, pa):
                if parse_only:
                    continue
                n_get["value"] += 1
                if not ok(r, GNAME + ".key_text_taken_once_from_the_key_stream", len(st_) == 1, "%d" % len(st_)):
                    continue
                mp = tm.app("fld:" + mapname, (Fb(ex2, s, "PhreeqcPtr", "P", THIS),), "P")
                vs = "S" if mode == "string" else "R"
                ex2.heap_arr(s, ("m2", "#mhas", "B", "S")); ex2.heap_arr(s, ("m2", "#mval", vs, "S"))
                has = tm.select(base_arr(s, ("m2", "#mhas", "B", "S")), mp, st_[0].result)
                val = tm.select(base_arr(s, ("m2", "#mval", vs, "S")), mp, st_[0].result)
                if mode == "value":
                    res = F(ex2, s, "val", "R", UUo(nrec))
                    U.discharge_valid(r, GNAME + ".result_is_the_value_stored_under_the_key,0_when_none", hy2, tm.eq(res, tm.ite(has, val, tm.num(0))))
                elif mode == "exists":
                    res = F(ex2, s, "val", "R", UUo(nrec))
                    U.discharge_valid(r, GNAME + ".result_is_1_when_a_value_is_stored_under_the_key,else_0", hy2, tm.eq(res, tm.ite(has, tm.num(1), tm.num(0))))
                else:
                    cp = {e.result: e for e in post if e.name.split("::")[-1] == "strcpy"}
                    res = F(ex2, s, "sval", "P", UUo(nrec))
                    U.discharge_valid(r, GNAME + ".result_is_a_string", hy2, F(ex2, s, "stringval", "B", nrec))
                    for hy3, stored in cases(hy2, has):
                        # what the result is in this case: resolve conditional terms under the case, then the copy that produced the result
                        def resolve(t_):
                            while t_.op == "ite":
                                if prove(hy3, t_.args[0]):
                                    t_ = t_.args[1]
                                elif prove(hy3, tm.not_(t_.args[0])):
                                    t_ = t_.args[2]
                                else:
                                    break
                            return t_
                        rr = resolve(res)
                        e_ = cp.get(rr)
                        dest_ok = e_ is not None or (tm._fresh_alloc(rr) and any(x.args[0] is rr for x in cp.values()))
                        if e_ is None:
                            cands = [x for x in cp.values() if x.args[0] is rr]
                            e_ = cands[-1] if cands else None
                        if not ok(r, GNAME + ".result_is_a_buffer_filled_by_a_string_copy", e_ is not None and tm._fresh_alloc(e_.args[0]), repr(rr)):
                            continue
                        src = resolve(e_.args[1])
                        if stored:
                            ok(r, GNAME + ".key_stored:result_is_a_copy_of_the_stored_string", src is tm.app("c_str", (val,), "P"), repr(src))
                        else:
                            ok(r, GNAME + ".key_never_stored:result_is_a_fixed_default_text", src.op == "str", repr(src))
        reach(r, "reach.%s(first,empty,value)" % GNAME, min(n_get.values()))
        return sep_first, sep_get
    sep_first, sep_get = get_side(get_label, GET, "string" if is_string else "value")
    if not is_string:
        sf2, sg2 = get_side("tokexists", "EXISTS", "exists")
        ok(r, "pairing.EXISTS_builds_the_key_like_GET", sf2 is sep_first and sg2 is sep_get, "%r %r" % (sf2, sg2))
    # ------------------------------------------------ pairing
    ok(r, "pairing.%s_and_%s_append_a_subscript_in_the_same_form(same_separator)" % (PUT, GET), sep_put is not None and sep_put is sep_get and sep_put is sep_first, "PUT %r GET first %r GET others %r" % (sep_put, sep_first, sep_get))
    r.assumptions += ["std::ostringstream << int / long writes the decimal text of the value; oss.str() is the concatenation of what was streamed (libstdc++)", "std::map model of Engine B (find / operator[] / end)",
                      "intexpr / realexpr / strexpr return arbitrary values and move the position", "integers are mathematical (PUT narrows a subscript to int, GET's first subscript is a long: equal for |i| < 2^31)",
                      "the subscript loops are summarised behind them; their bodies carry the *.list.* obligations", "the result record of factor is its local `n` (named local)",
                      "strcpy returns its destination holding a copy of the source (capacity: unit C17.factor.string_results_fit_their_buffers)"]
    return r


def unit_put_get(twin=False):
    """PUT(x, i1, ..., ik) stores x under the key made of its subscripts; GET(i1, ..., ik) returns the value stored under the key made of
    its subscripts, 0 when nothing was stored.  Both build the key the same way: empty, then <integer><separator> appended per subscript in
    order, so equal subscript lists give equal keys; both use the map save_values of the same engine."""
    return _put_get("C17.put_get.same_subscripts_same_key_same_value", "PBasic::cmdput", "tokget", "save_values", False, twin)


def unit_puts_gets(twin=False):
    """PUT$(s$, i1, ..., ik) / GET$(i1, ..., ik): the string variant, map save_strings; GET$ of a key never stored gives a fixed default."""
    return _put_get("C17.puts_gets.same_subscripts_same_key_same_string", "PBasic::cmdput_", "tokget_", "save_strings", True, twin)


def unit_string_results_fit(twin=False):
    """String results of factor that are copied with strcpy into a buffer allocated in the same case (string constant, string variable, GET$):
    the buffer holds at least strlen(source) + 1 bytes, for every source string - no write past the allocation, whatever its length."""
    q = "PBasic::factor"
    fn = A.find_function(PB, q)
    r = U.new_unit("C17.factor.string_results_fit_their_buffers", PB, q, fn)
    nsite = 0
    for label, must in (("tokstr", "strcpy"), ("tokvar", "strcpy"), ("tokget_", "strcpy")):
        nodes = case_stmts(fn, label, must)
        if nodes is None:
            r.add("%s.case_with_a_string_copy_found" % label, UNDECIDED, "ast", 0, ""); continue
        c = mkctx(); c.functional.add("strlen")
        f, ex, fin, info = run_stmts(q, nodes, c, loop=snap_and_havoc({}))
        k = 0
        for s in alive(fin, ("run", "brk")):
            if any(e.name.endswith("malloc_error") for e in s.events):
                continue
            allocs = {e.result: e for e in s.events if e.name.split("::")[-1] in ("PHRQ_calloc", "PHRQ_malloc")}
            for e in [e for e in s.events if e.name.split("::")[-1] == "strcpy"]:
                dest, src = e.args[0], e.args[1]
                k += 1; nsite += 1
                if dest not in allocs:
                    ok(r, "%s.copy_goes_into_a_buffer_allocated_in_this_case" % label, False, repr(dest)); continue
                a = allocs[dest]
                cap = a.args[0] * a.args[1] if a.name.endswith("calloc") else a.args[0]
                if src.op == "str":
                    need = tm.num(len(src.args[0].strip('"')) + 1, "I")
                    hy = hyp(s)
                else:
                    L = tm.app("call:strlen", (tm.NULL, src), "I")
                    need = L + 1
                    hy = hyp(s) + [tm.le(ZI, L), tm.lt(L, tm.num(2 ** 31 - 1, "I"))]
                if twin:
                    need = need + 1000
                U.discharge_valid(r, "%s.buffer_holds_the_source_string_and_its_terminator[%s]" % (label, "literal" if src.op == "str" else "any length"), hy, tm.le(need, cap), kind="safety")
        reach(r, "reach.%s.string_copies" % label, k)
    r.assumptions += ["strlen is the C library's; lengths fit an int (the (int) cast of strlen is the identity)", "PHRQ_calloc(n, size) / PHRQ_malloc(n) return n*size / n writable bytes",
                      "findvar / expression evaluation as in the other units; only the three cases named are under this contract"]
    return r


def unit_factor_variable(twin=False):
    """A variable (or array element) in an expression: the value is read from the element findvar addressed for THIS reference (numeric:
    the number stored there; string: a fresh copy of the string stored there, empty when none), and its type is the variable's."""
    q = "PBasic::factor"
    fn = A.find_function(PB, q)
    r = U.new_unit("C17.factor.variable_reference_reads_the_element_addressed", PB, q, fn)
    nodes = case_stmts(fn, "tokvar", "findvar")
    if nodes is None:
        raise Undecided("factor: case tokvar not found")
    c = mkctx(repoint=True); c.functional.add("strlen")
    f, ex, fin, info = run_stmts(q, nodes, c)
    nrec = tm.sym("&L_n", "P")
    n = {"num": 0, "str": 0, "empty": 0}
    for s in alive(fin, ("run", "brk")):
        if any(e.name.endswith("malloc_error") for e in s.events):
            continue
        fv = evs(s, "findvar")
        if not ok(r, "one_lookup_of_the_variable_starting_at_its_own_token", len(fv) == 1 and fv[0].args[-1] is tm.sym("L_facttok", "P") if "facttok" in info["names"] else len(fv) == 1, "%d" % len(fv)):
            continue
        v = fv[0].result
        hy = hyp(s)
        isstr = F0("stringvar", "B", v)
        pv(r, "result_type_is_the_variable's_type", s, tm.and_(tm.implies(F(ex, s, "stringval", "B", nrec), isstr), tm.implies(isstr, F(ex, s, "stringval", "B", nrec))))
        for hy2, st_ in cases(hy, isstr):
            if not st_:
                n["num"] += 1
                elem = tm.select(fv[0].val_arr, U0(v))
                U.discharge_valid(r, "numeric.value_is_the_number_stored_in_the_element_addressed", hy2, tm.eq(F(ex, s, "val", "R", UUo(nrec)), tm.select(arr0(("m", "R")), elem, ZI) if not twin else tm.num(0)))
            else:
                elem = tm.select(fv[0].sval_arr, U1(v))
                src = tm.select(arr0(("m", "P")), elem, ZI)
                cp = [e for e in s.events if e.name.split("::")[-1] == "strcpy"]
                al = [e for e in s.events if e.name.split("::")[-1] in ("PHRQ_calloc",)]
                res = F(ex, s, "sval", "P", UUo(nrec))
                ok(r, "string.result_is_a_fresh_zero-filled_buffer", len(al) == 1 and res is al[0].result, repr(res))
                for hy3, has in cases(hy2, tm.not_(tm.eq(src, NULLP))):
                    if has:
                        n["str"] += 1
                        ok(r, "string.buffer_receives_a_copy_of_the_string_stored_in_the_element_addressed", len(cp) == 1 and cp[0].args[0] is res and cp[0].args[1] is src, "%s" % [e.args for e in cp])
                    else:
                        n["empty"] += 1
                        ok(r, "string.no_string_stored:result_is_the_empty_string", not cp, "")
    reach(r, "reach.variable_reference(numeric,string,empty)", min(n.values()))
    r.assumptions += ["findvar returns the variable and leaves its element pointer at the element addressed (units C17.findvar.*)", "PHRQ_calloc returns zero-filled memory; strcpy copies the source (capacity: C17.factor.string_results_fit_their_buffers)",
                      "the result record of factor is its local `n`, the reference's first token its local `facttok` (named locals)"]
    return r
