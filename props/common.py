"""Shared helpers for Engine-B statement / iteration contracts: locating a statement or loop of the real function by its
(whitespace-free) source text, running it from an arbitrary state, reading fields."""
import os, re
from vf.core import Undecided, REPO, DISCHARGED, FAILED, UNDECIDED
from vf.astvc import ast as A, terms as tm, unit as U, backends as B, stl as STLM
from vf.astvc import symex as SX

THIS = tm.sym("this", "P")
_SRC = {}


def src(rel):
    if rel not in _SRC:
        _SRC[rel] = open(os.path.join(REPO, rel), "rb").read()
    return _SRC[rel]


def text_of(rel, n):
    b, e = A.src_range_text(n)
    if b is None or not e:
        return ""
    return A.squeeze(src(rel)[b:e].decode("latin1"))


def strip(n):
    while n.get("kind") in ("ImplicitCastExpr", "ParenExpr", "CStyleCastExpr", "CXXStaticCastExpr", "MaterializeTemporaryExpr", "CXXBindTemporaryExpr", "ExprWithCleanups", "CXXFunctionalCastExpr") and n.get("inner"):
        n = n["inner"][0]
    return n


def find_nodes(fn, rel, pred, kinds=None):
    out = []
    for x in A.walk(fn):
        if kinds and x.get("kind") not in kinds:
            continue
        t = text_of(rel, x)
        if t and pred(t, x):
            out.append(x)
    return out


def find_stmt(fn, rel, text, kinds=("BinaryOperator", "CompoundAssignOperator", "IfStmt", "CallExpr", "CXXMemberCallExpr", "ReturnStmt", "DeclStmt", "CXXOperatorCallExpr"), nth=0, prefix=False):
    text = re.sub(r"\s+", "", text)
    ns = find_nodes(fn, rel, (lambda t, x: t.startswith(text)) if prefix else (lambda t, x: t == text or t == text + ";"), kinds)
    if len(ns) <= nth:
        raise Undecided("statement `%s` not found (found %d)" % (text, len(ns)))
    return ns[nth]


def loop_ordinal(fn, rel, init_text=None, cond_text=None, nth=0):
    """syntactic ordinal of the nth loop whose init (for) or condition starts with the given text"""
    loops = [x for x in A.walk(fn) if x.get("kind") in ("ForStmt", "WhileStmt", "DoStmt")]
    hits = []
    for k, lp in enumerate(loops):
        if lp.get("kind") == "ForStmt":
            init, cond = lp["inner"][0], lp["inner"][2]
        elif lp.get("kind") == "WhileStmt":
            init, cond = None, lp["inner"][0 if len(lp["inner"]) == 2 else 1]
        else:
            init, cond = None, lp["inner"][1]
        if init_text is not None and (not init or not text_of(rel, init).startswith(re.sub(r"\s+", "", init_text))):
            continue
        if cond_text is not None and (not cond or not text_of(rel, cond).startswith(re.sub(r"\s+", "", cond_text))):
            continue
        hits.append(k)
    if len(hits) <= nth:
        raise Undecided("loop init=%r cond=%r not found" % (init_text, cond_text))
    return hits[nth]


class Sel(object):
    whole_function = True
    def __init__(self, nodes): self.nodes = nodes
    def __call__(self, s): raise TypeError
    def pick(self, fn): return self.nodes


class AllPure(set):
    def __contains__(self, x): return True


def ctx(functional=(), enums_from=None, enums=(), pure_all=True):
    c = SX.Ctx(); c.stl = STLM.STL(SX); c.stl.check_bounds = False
    if pure_all:
        c.pure = AllPure()
    c.functional.update(functional)
    if enums_from:
        ev = A.enum_values_compiled(enums_from, list(enums))
        c.enum_values.update({k.split("::")[-1]: v for k, v in ev.items()})
    return c


def region(rel, q, nodes, c=None):
    return U.run_region(rel, q, Sel(nodes), ctx=c or ctx())


def live(states, statuses=("run", "cont", "brk", "ret")):
    return [s for s in states if s.status in statuses and B.z3_sat(list(s.pc)) != "unsat"]


def fld(ex, s, name, sort, obj=THIS):
    return tm.select(ex.heap_arr(s, ("f", name, sort)), obj)


def fld0(ex, s, name, sort, obj=THIS):
    """field value in the ENTRY state of the region"""
    return tm.select(entry_arr(ex, s, ("f", name, sort)), obj)


def _sym0(prefix, key):
    if key[0] == "f":
        return tm.sym("%s.%s:%s" % (prefix, key[1], key[2]), ("A", "P", key[2]))
    if key[0] == "m2":
        return tm.sym("%s.%s:%s[%s]" % (prefix, key[1], key[2], key[3]), ("A", "P", key[3], key[2]))
    return tm.sym("%s.mem:%s" % (prefix, key[1]), ("A", "P", "I", key[1]))


def entry_arr(ex, s, key):
    """the memory component as it was when the region / iteration was entered.  Opaque calls inside the region rename the
    components (H<n> prefixes); the entry value keeps the prefix H0 (or Hiter when the loop itself writes the component)."""
    if key in getattr(ex, "iter_written", ()) and getattr(s, "iter_entry_arrays", None) is not None:
        return _sym0("Hiter", key)
    a = s.heap.get(key)
    if a is None:
        return ex.heap_arr(s, key)
    stop = getattr(s, "iter_entry_arrays", {}).get(key, ())
    b = a
    while b.op == "store" and b not in stop:
        b = b.args[0]
    if b in stop:
        return b
    if b.op == "sym" and (b.args[0].startswith("H0.") or b.args[0].startswith("Hiter.")):
        return b
    if stop:
        return sorted(stop, key=repr)[0]
    return _sym0("H0", key)


def writes(s, key):
    """[(index, value)] stores to a memory component during the region / iteration, oldest first"""
    out = []
    a = s.heap.get(key)
    stop = getattr(s, "iter_entry_arrays", {}).get(key, ())
    while a is not None and a.op == "store" and a not in stop:
        out.append((a.args[1], a.args[2]))
        a = a.args[0]
    return out[::-1]


def vec_elem(ex, s, vec_field, idx, owner=THIS, sort="P", entry=True):
    """value of owner->vec_field[idx] for a std::vector member"""
    get = entry_arr if entry else (lambda ex, s, k: ex.heap_arr(s, k))
    data = tm.select(get(ex, s, ("f", "#vdata", "P")), tm.app("fld:" + vec_field, (owner,), "P"))
    return tm.select(get(ex, s, ("m", sort)), data, idx)


def local(info, s, name):
    return U.local_of(info, s, name)


def wrap(us, uid, f, *a):
    from vf.core import FAILED
    def g():
        r = f(*a)
        if not any(o.status == FAILED for o in r.obligations):
            U.must_fail_twin(r, "vacuity.must_fail_twin", lambda: f(*a, twin=True))
        return r
    us.append((uid, g))


def _assigns_to(rel, st, name):
    """does statement st (not descending into loops/ifs) assign to the variable/member `name`? returns the rhs text or None"""
    k = st.get("kind")
    if k in ("BinaryOperator", "CompoundAssignOperator") and st.get("opcode", "").endswith("="):
        if st.get("opcode") in ("==", "<=", ">=", "!="):
            return None
        lhs = text_of(rel, st["inner"][0])
        if lhs in (name, "this->" + name, "*" + name):
            return (st.get("opcode"), text_of(rel, st["inner"][1]))
    if k == "DeclStmt":
        for d in st.get("inner", []):
            if d.get("kind") == "VarDecl" and d.get("name") == name and d.get("init"):
                return ("=", text_of(rel, d["inner"][-1]))
    return None


def initial_value_before(fn, rel, loop_node, name):
    """the value the nearest preceding straight-line assignment gives to `name` before control reaches `loop_node`:
    ('=', text) | None when no assignment precedes it in the enclosing blocks (then the accumulator enters the loop with
    whatever an earlier iteration or the caller left)."""
    path = []
    def find(n, trail):
        if n is loop_node:
            path.extend(trail); return True
        for c in n.get("inner", []) or []:
            if isinstance(c, dict) and find(c, trail + [n]):
                return True
        return False
    find(fn, [])
    target = loop_node
    for anc in reversed(path):
        if anc.get("kind") == "CompoundStmt":
            sibs = anc.get("inner", [])
            idx = next((i for i, c in enumerate(sibs) if c is target), None)
            if idx is not None:
                for st in reversed(sibs[:idx]):
                    a = _assigns_to(rel, st, name)
                    if a is not None:
                        return a
                    # an intervening statement that may write it in a nested way makes the answer unknown
                    if st.get("kind") in ("ForStmt", "WhileStmt", "DoStmt", "IfStmt", "SwitchStmt") and any(
                            _assigns_to(rel, y, name) for y in A.walk(st) if isinstance(y, dict)):
                        return ("?", "assigned inside an earlier nested statement")
        if anc.get("kind") in ("ForStmt", "WhileStmt", "DoStmt"):
            # leaving an enclosing loop upwards: an assignment outside it does not re-initialise per iteration
            return None
        target = anc
    return None


def check_accumulator_init(r, fn, rel, loop_node, name, label, zero=("0", "0.0", "0.0e0", "0.", "0.0e+00")):
    from vf.core import FAILED, DISCHARGED, UNDECIDED
    a = initial_value_before(fn, rel, loop_node, name)
    if a is None:
        r.add("%s.accumulator_%s_initialised_before_its_loop" % (label, name), FAILED, "syntactic", 0,
              "no assignment to %s precedes the loop inside the enclosing iteration: it carries over from the previous pass" % name, kind="establishment")
    elif a[0] == "=" and a[1] in zero:
        r.add("%s.accumulator_%s_initialised_before_its_loop" % (label, name), DISCHARGED, "syntactic", 0, "%s = %s" % (name, a[1]), kind="establishment")
    elif a[0] == "?":
        r.add("%s.accumulator_%s_initialised_before_its_loop" % (label, name), UNDECIDED, "syntactic", 0, a[1], kind="establishment")
    else:
        r.add("%s.accumulator_%s_initialised_before_its_loop" % (label, name), FAILED, "syntactic", 0, "nearest preceding assignment: %s %s %s" % (name, a[0], a[1]), kind="establishment")


def loop_node(fn, ordinal):
    return [x for x in A.walk(fn) if x.get("kind") in ("ForStmt", "WhileStmt", "DoStmt")][ordinal]


def ext_units(pid):
    """units contributed by props/<pid lower>_ext.py (if present): a module with UNITS = [(unit id, f)], f(twin=False) -> unit result;
    every one is run with its must-fail twin like the units wired by hand"""
    import importlib
    from vf.core import FAILED
    out = []
    from props.aliases import ALIASES
    UN = []
    for uid, mod, fname, args in ALIASES.get(pid, []):
        def f(twin=False, mod=mod, fname=fname, args=args, uid=uid):
            r_ = getattr(importlib.import_module(mod), fname)(*args, twin=twin)
            r_.id = uid
            return r_
        UN.append((uid, f))
    try:
        M = importlib.import_module("props.%s_ext" % pid.lower())
        UN += list(M.UNITS)
    except ModuleNotFoundError as e:
        if e.name != "props.%s_ext" % pid.lower():
            raise
    # units of another property that decide an obligation of this one as well: run under this property's id (same callable, must-fail twin included)
    from props.aliases import ALIASES_BY_ID
    ready = []
    if pid not in _RESOLVING:
        _RESOLVING.add(pid)
        try:
            from props.aliases import ALIAS_RULES
            byid = list(ALIASES_BY_ID.get(pid, []))
            for t_, s_, rx in ALIAS_RULES:
                if t_ != pid:
                    continue
                for suid, _g in unit_list(s_):
                    if suid.startswith(s_ + ".") and re.search(rx, suid) and "vacuity" not in suid:
                        nid = pid + suid[len(s_):]
                        if nid not in [x[0] for x in byid] and nid not in [x[0] for x in UN]:
                            byid.append((nid, s_, suid))
            for uid, spid, suid in byid:
                src = dict(unit_list(spid))
                if suid not in src:
                    def miss(uid=uid, suid=suid):
                        raise Undecided("aliased unit %s not found" % suid)
                    ready.append((uid, miss)); continue
                def g2(g=src[suid], uid=uid):
                    r_ = g(); r_.id = uid
                    return r_
                ready.append((uid, g2))
        finally:
            _RESOLVING.discard(pid)
    for uid, f in UN:
        def g(f=f):
            r = f()
            if not any(o.status == FAILED for o in r.obligations):
                U.must_fail_twin(r, "vacuity.must_fail_twin", lambda: f(twin=True))
            return r
        out.append((uid, g))
    return out + ready


_RESOLVING = set()
_UNIT_LISTS = {}


def unit_list(pid):
    """[(unit id, callable)] of a property, as its module's run() assembles it (the list is captured, nothing is executed)"""
    if pid in _UNIT_LISTS:
        return _UNIT_LISTS[pid]
    import importlib
    from vf import core as _core
    M = importlib.import_module("props." + pid)
    got = {}
    class _Stop(Exception):
        pass
    orig = _core.run_units
    def fake(us, jobs=8):
        got["us"] = list(us); raise _Stop()
    _RESOLVING.add(pid)
    _core.run_units = fake
    try:
        try:
            M.run(U.TIER.get("tier", "quick"), U.TIER.get("seed", 1), None, 1)
        except _Stop:
            pass
    finally:
        _core.run_units = orig
        _RESOLVING.discard(pid)
    _UNIT_LISTS[pid] = got.get("us", [])
    return _UNIT_LISTS[pid]


def cases(hy, cond):
    """spec-side case split: [(hypotheses + [cond], True), (hypotheses + [not cond], False)] restricted to the cases the path can be in
    (a case is dropped only when the path condition refutes it).  The specification is then demanded in every remaining case, so a changed
    branch condition in the code shows up as a counterexample in the case where code and specification differ, not as an undecided split."""
    out = []
    for c, v in ((cond, True), (tm.not_(cond), False)):
        if B.z3_prove(list(hy), tm.not_(c))[0] != "proved":
            out.append((list(hy) + [c], v))
    return out


def stop_on_error_msg(c):
    """error_msg(text, STOP) does not return (it throws PhreeqcStop): the path ends there with status 'throw'"""
    def error_stop(ex_, st, n, name, recv, args):
        st.events.append(SX.Event(name, recv, args, tm.num(0, "I"), n))
        if len(args) >= 2 and (args[1] is tm.TRUE or (tm.isnum(args[1]) and args[1].args[0] != 0)):
            st.status = "throw"
        return [(st, tm.num(0, "I"))]
    c.handlers["Phreeqc::error_msg"] = error_stop
    c.handlers["error_msg"] = error_stop
    return c


def check_loop_range(r, label, ex, c, info, iters, var, first, cond_of, hyp=()):
    """the iterations of an isolated loop cover exactly the intended range: its induction variable starts at `first` and the loop condition
    is equivalent to cond_of(var) (both semantically: z3 equivalence of the condition the iteration assumed, value of the variable after
    the initialisation run on a fresh state)"""
    node = info["node"]
    init, cond, inc, body = ex.loop_parts(node)
    v = tm.sym("iter_" + var, "I")
    conds = [s_.pc[0] for s_ in iters if s_.pc and ("iter_" + var) in repr(s_.pc[0])]
    if not conds:
        r.add(label + ".range", UNDECIDED, "symex", 0, "loop condition not read"); return
    want = cond_of(v)
    okc = B.z3_prove(list(hyp) + [want], conds[0])[0] == "proved" and B.z3_prove(list(hyp) + [conds[0]], want)[0] == "proved"
    r.add(label + ".runs_while_%s" % re.sub(r"\s+", "", repr(want))[:60], DISCHARGED if okc else FAILED, "z3", 0, "loop condition %r" % (conds[0],))
    v0 = None
    if init is not None and info.get("entry_state") is not None:
        try:
            for s0 in ex.exec(init, [info["entry_state"].clone()]):
                v0 = local(info, s0, var)
        except Exception as e:
            v0 = None
    okv = v0 is not None and (v0 is first or B.z3_prove(list(hyp), tm.eq(v0, first))[0] == "proved")
    r.add(label + ".starts_at_%s" % re.sub(r"\s+", "", repr(first))[:40], DISCHARGED if okv else FAILED, "z3", 0, "initial value %r" % (v0,))
