"""C02: what every species adds to the conserved quantities the solver carries (prep.cpp mb_for_species_aq / _ex / _surf):
charge balance gets z, total hydrogen gets h - 2*o when water is folded into the H and O sums (COMBINE; else h), total oxygen
gets o, ionic strength z*z, alkalinity alk — the same coefficient in all three routines (an exchange or surface species
carries its H, O and charge like an aqueous one)."""
from props.common import *
from vf.core import FAILED, DISCHARGED, UNDECIDED

PREP = "src/phreeqcpp/prep.cpp"


def unit_mb_for_species(twin=False):
    import re
    r = U.new_unit("C02.mb_for_species.same_H_O_charge_coefficients_for_aq_ex_surf", PREP, "Phreeqc::mb_for_species_aq", A.find_function(PREP, "Phreeqc::mb_for_species_aq"))
    combine = bool(re.search(r"^\s*#\s*define\s+COMBINE\s*$", src(PREP).decode("latin1"), re.M))
    seen = {}
    for kind in ("aq", "ex", "surf"):
        q = "Phreeqc::mb_for_species_" + kind
        c = ctx(); c.loop = lambda ex, st, n, o: ex.havoc_loop(n, st)
        f, ex, fin, info = U.run_function(PREP, q, ctx=c)
        got = {}
        for s in [s for s in fin if s.status in ("ret", "run") and B.z3_sat(list(s.pc)) != "unsat"]:
            sn = vec_elem(ex, s, "s", tm.sym("P0_n", "I"))
            for e in s.events:
                if e.name.split("::")[-1] != "store_mb_unknowns":
                    continue
                unk, srcaddr, coef = e.args[0], e.args[1], e.args[2]
                for member, label in (("mass_hydrogen_unknown", "H"), ("mass_oxygen_unknown", "O"), ("charge_balance_unknown", "charge"), ("mu_unknown", "mu"), ("alkalinity_unknown", "alk")):
                    if unk is fld0(ex, s, member, "P"):
                        F = lambda nm: fld0(ex, s, nm, "R", sn)
                        want = {"H": (F("h") - tm.num(2) * F("o")) if combine else F("h"), "O": F("o"), "charge": F("z"), "mu": F("z") * F("z"), "alk": F("alk")}[label]
                        if twin and label == "H" and kind == "ex":
                            want = F("h")
                        ok = B.sympy_equal(coef, want)[0]
                        got.setdefault(label, set()).add(ok)
                        key = "%s.%s_coefficient" % (kind, label)
                        if key not in seen:
                            seen[key] = True
                            r.add("%s(%s)" % (key, {"H": "h-2*o" if combine else "h", "O": "o", "charge": "z", "mu": "z*z", "alk": "alk"}[label]), DISCHARGED if ok else FAILED, "sympy", 0, repr(coef)[:120])
                        elif not ok:
                            r.add("%s(another_site)" % key, FAILED, "sympy", 0, repr(coef)[:120])
        need = {"aq": {"H", "O", "charge", "mu", "alk"}, "ex": {"H", "O", "charge"}, "surf": {"H", "O", "charge"}}[kind]
        r.add("reach.%s" % kind, DISCHARGED if need <= set(got) else UNDECIDED, "symex", 0, repr(sorted(got)), kind="vacuity")
    r.add("water_in_H_O_sums(COMBINE)=%s" % combine, DISCHARGED, "syntactic", 0, "", kind="structural")
    r.assumptions += ["store_mb_unknowns(unknown, &amount, coef, &derivative) books coef*amount into the unknown's sum (body not under contract)",
                      "element mole-balance entries (coef * master coef) and diffuse-layer entries are not pinned here", "agreement of COMBINE between prep.cpp and model.cpp is under C01.residuals"]
    return r
