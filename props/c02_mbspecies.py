"""C02: what every species adds to the conserved quantities the solver carries (prep.cpp mb_for_species_aq / _ex / _surf):
charge balance gets z, total hydrogen gets h - 2*o when water is folded into the H and O sums (COMBINE; else h), total oxygen
gets o, ionic strength z*z, alkalinity alk — the same coefficient in all three routines (an exchange or surface species
carries its H, O and charge like an aqueous one)."""
from props.common import *
from vf.core import FAILED, DISCHARGED, UNDECIDED

PREP = "src/phreeqcpp/prep.cpp"


def unit_mb_for_species(twin=False):
    import re
    r = U.new_unit("C02.mb_for_species.same_H_O_charge_coefficients_for_aq_ex_surf", PREP, "Phreeqc::mb_for_species_aq", A.find_function(PREP, "Phreeqc::mb_for_species_aq"))
    combine = bool(re.search(r"^\s*#\s*define\s+COMBINE\s*$", src(PREP).decode("latin1"), re.M))
    seen = {}
    for kind in ("aq", "ex", "surf"):
        q = "Phreeqc::mb_for_species_" + kind
        c = ctx(); c.loop = lambda ex, st, n, o: ex.havoc_loop(n, st)
        f, ex, fin, info = U.run_function(PREP, q, ctx=c)
        got = {}
        for s in [s for s in fin if s.status in ("ret", "run") and B.z3_sat(list(s.pc)) != "unsat"]:
            sn = vec_elem(ex, s, "s", tm.sym("P0_n", "I"))
            for e in s.events:
                if e.name.split("::")[-1] != "store_mb_unknowns":
                    continue
                unk, srcaddr, coef = e.args[0], e.args[1], e.args[2]
                for member, label in (("mass_hydrogen_unknown", "H"), ("mass_oxygen_unknown", "O"), ("charge_balance_unknown", "charge"), ("mu_unknown", "mu"), ("alkalinity_unknown", "alk")):
                    if unk is fld0(ex, s, member, "P"):
                        F = lambda nm: fld0(ex, s, nm, "R", sn)
                        want = {"H": (F("h") - tm.num(2) * F("o")) if combine else F("h"), "O": F("o"), "charge": F("z"), "mu": F("z") * F("z"), "alk": F("alk")}[label]
                        if twin and label == "H" and kind == "ex":
                            want = F("h")
                        ok = B.sympy_equal(coef, want)[0]
                        got.setdefault(label, set()).add(ok)
                        key = "%s.%s_coefficient" % (kind, label)
                        if key not in seen:
                            seen[key] = True
                            r.add("%s(%s)" % (key, {"H": "h-2*o" if combine else "h", "O": "o", "charge": "z", "mu": "z*z", "alk": "alk"}[label]), DISCHARGED if ok else FAILED, "sympy", 0, repr(coef)[:120])
                        elif not ok:
                            r.add("%s(another_site)" % key, FAILED, "sympy", 0, repr(coef)[:120])
        need = {"aq": {"H", "O", "charge", "mu", "alk"}, "ex": {"H", "O", "charge"}, "surf": {"H", "O", "charge"}}[kind]
        r.add("reach.%s" % kind, DISCHARGED if need <= set(got) else UNDECIDED, "symex", 0, repr(sorted(got)), kind="vacuity")
    r.add("water_in_H_O_sums(COMBINE)=%s" % combine, DISCHARGED, "syntactic", 0, "", kind="structural")
    r.assumptions += ["store_mb_unknowns(unknown, &amount, coef, &derivative) books coef*amount into the unknown's sum (body not under contract)",
                      "element mole-balance entries (coef * master coef) and diffuse-layer entries are not pinned here", "agreement of COMBINE between prep.cpp and model.cpp is under C01.residuals"]
    return r


def unit_mb_element_coefficients(twin=False):
    """mb_for_species_aq / _ex / _surf, one element of the species' composition per iteration: when the species is entered into the mole balance
    of that element's master, its coefficient is (atoms of the element in the species) x (coefficient of the master), the amount summed is the
    species' own moles, and the balance is the one of that master's unknown (secondary master when the primary has one)."""
    q0 = "Phreeqc::mb_for_species_"
    fn0 = A.find_function(PREP, q0 + "aq")
    r = U.new_unit("C02.mb_for_species.element_coefficient_is_atoms_x_master_coefficient", PREP, q0 + "aq/ex/surf", fn0)
    total = 0
    for kind in ("aq", "ex", "surf"):
        q = q0 + kind
        fn = A.find_function(PREP, q)
        k = loop_ordinal(fn, PREP, init_text="i=0", cond_text="i<count_elts")
        c = stop_on_error_msg(ctx(functional=()))
        f, ex, its, info = U.run_loop_isolated(PREP, q, k, ctx=c)
        n = 0
        for s in live(its, ("run", "cont")):
            st = [e for e in U.iter_events(s) if e.name.endswith("store_mb_unknowns")]
            if not st:
                continue
            sp = vec_elem(ex, s, "s", local(info, s, "n"))
            ent = tm.select(entry_arr(ex, s, ("f", "#vdata", "P")), tm.app("fld:elt_list", (THIS,), "P")) + tm.sym("iter_i", "I")
            ecoef = fld0(ex, s, "coef", "R", ent)
            for e in st:
                unk, srcaddr, coef = e.args[0], e.args[1], e.args[2]
                # the generic element entry is the one whose coefficient mentions the element-list coefficient; the special charge / potential
                # entries (z, dz[k]) are C02.mb_for_species.same_H_O_charge... and C20 units
                if "fld:elt_list" not in repr(coef) and "coef" not in repr(coef):
                    continue
                n += 1
                if n > 12:
                    break
                mp = local(info, s, "master_ptr")
                want = ecoef * fld0(ex, s, "coef", "R", mp)
                if twin:
                    want = fld0(ex, s, "coef", "R", mp)
                U.discharge_eq_real(r, "%s.coefficient==atoms*master_coef#%d" % (kind, n), list(s.pc), coef, want)
                r.add("%s.amount_summed_is_the_species'_own_moles#%d" % (kind, n), DISCHARGED if "moles" in repr(srcaddr) and repr(sp) in repr(srcaddr) else FAILED, "symex", 0, repr(srcaddr)[:120])
                r.add("%s.balance_is_that_master's_unknown#%d" % (kind, n), DISCHARGED if unk is fld0(ex, s, "unknown", "P", mp) else FAILED, "symex", 0, repr(unk)[:120])
        total += n
        r.add("reach.%s" % kind, DISCHARGED if n else UNDECIDED, "symex", 0, str(n), kind="vacuity")
    r.assumptions += ["elt_list holds the species' elemental composition (write_mb_eqn_x / add_elt_list)", "which elements are skipped (H+, e-, H2O, pH/pe/alkalinity unknowns, initial-solution rules) is not pinned here"]
    return r
