"""C02, third batch: step.cpp add_exchange / add_surface / add_kinetics / add_gas_phase / add_ss_assemblage as WHOLE functions.

The units C02.add_*.* of props/c02_ext.py decide what ONE pass of each booking loop adds (each element of the reactant once, with its own amount).  What
they leave open is whether the loops are reached at all: an early return, a loop moved under an unrelated condition or a narrowed guard drops a reactant's
inventory while every single pass stays correct.  Here every function is executed from its entry with each loop replaced by its frame plus a marker, and

* a defined reactant (non-null argument; kinetics: a non-empty list of reacted totals) reaches its booking loop(s) on EVERY path that returns, once, in order:
  add_exchange the sorbed elements; add_surface the sorbed elements of the components and - for every electrostatic model that keeps a charge record
  (DDL, CCM, CD_MUSIC) - the charge records (their charge and the saved diffuse-layer totals); add_kinetics the reacted totals; add_gas_phase the components
  (into an emptied element list), then the booking of that list; add_ss_assemblage the solid solutions;
* an absent reactant adds nothing;
* outside the loops the functions write none of the conserved sums (total_h_x, total_o_x, cb_x, master totals);
* add_surface hands the diffuse-layer model of THIS surface to the solver (dl_type_x), which decides whether layer amounts enter the sums (C02.mb_for_species_aq.*)."""
from props.c01_ext_util import *
from props.c02_ext3_mb import run_marked, Tally
from props.c20_ext_util import surface_enums
from vf.astvc import symex as SX

STEP = "src/phreeqcpp/step.cpp"
GETTERS = ("element_store", "Get_totals", "Get_gas_comps", "Get_phase_name", "phase_bsearch", "Get_moles", "Get_exchange_comps", "Get_charge_balance", "Get_la", "Get_new_def", "Get_type", "Get_surface_comps",
           "Get_master_element", "Get_surface_charges", "Get_dl_type", "Get_diffuse_layer_totals", "surface_get_psi_master", "Get_name", "Get_la_psi", "size", "Get_ss_comps", "Vectorize", "Get_formula",
           "Get_total_p", "fabs", "c_str", "begin", "end")
SUMS = ("total_h_x", "total_o_x", "cb_x", "total")


def _ctx():
    c = stop_on_error_msg(ctx(functional=GETTERS))
    surface_enums(c)
    c.log_stores = True
    return c


def _loops_doing(fn, needle):
    """ordinals of the OUTERMOST loops whose body contains `needle`"""
    lps = loops_of(fn)
    hit = [k for k, lp in enumerate(lps) if needle in text_of(STEP, lp["inner"][-1])]
    return [k for k in hit if not any(j != k and any(y is lps[k] for y in A.walk(lps[j]["inner"][-1])) for j in hit)]


def _marks(s):
    return [int(e.name.split("#")[1]) for e in s.events if e.name.startswith("loop#")]


def _sum_stores(s):
    return [e for e in s.events if e.name == "store" and e.args and e.args[0].op == "str" and str(e.args[0].args[0]).strip('"') in SUMS]


def unit_booking_loops_reached(twin=False):
    fn0 = A.find_function(STEP, "Phreeqc::add_surface")
    r = U.new_unit("C02.add_reactants.every_defined_reactant_reaches_its_booking_loops_and_nothing_is_booked_outside_them", STEP, "Phreeqc::add_exchange; add_surface; add_kinetics; add_gas_phase; add_ss_assemblage", fn0)
    T = Tally(r)
    seen = set()
    for name in ("add_exchange", "add_surface", "add_kinetics", "add_gas_phase", "add_ss_assemblage"):
        q = "Phreeqc::" + name
        c = _ctx()
        ev = c.enum_values
        fn, ex, fin, entries = run_marked(STEP, q, c)
        book = _loops_doing(fn, "total_h_x+=")
        arg = tm.sym("P0_" + A.params_of(fn)[0]["name"], "P")
        rets = lives(fin, ("ret",))
        T.put("%s.returns" % name, bool(rets), "%d" % len(rets))
        for s in rets:
            mk = _marks(s)
            st = _sum_stores(s)
            hy = list(s.pc)
            T.put("%s.frame.no_conserved_sum_written_outside_the_loops" % name, not st, repr([(e.recv, e.args) for e in st]), )
            if name == "add_kinetics":
                present = tm.not_(tm.eq(tm.select(entry_arr(ex, s, ("f", "#msize", "I")), tm.app("call:Get_totals", (arg,), "P")), tm.num(0, "I")))
            else:
                present = tm.not_(tm.eq(arg, tm.NULL))
            for h, on in cases(hy, present):
                if not on:
                    seen.add(name + ".absent")
                    T.put("%s.absent_reactant:no_loop_entered" % name, not mk, repr(mk))
                    continue
                seen.add(name + ".present")
                if name in ("add_exchange", "add_kinetics", "add_ss_assemblage"):
                    first = book[0] if book else None
                    T.put("%s.defined_reactant:booking_of_its_elements_reached_once_on_every_returning_path" % name, first is not None and mk.count(first) == 1, repr(mk))
                elif name == "add_gas_phase":
                    comp = _loops_doing(fn, "add_elt_list(")
                    ok = len(comp) == 1 and len(book) == 1 and mk.count(comp[0]) == 1 and mk.count(book[0]) == 1 and mk.index(comp[0]) < mk.index(book[0])
                    T.put("add_gas_phase.defined_gas_phase:components_collected_then_booked_once_each_on_every_returning_path", ok, repr(mk))
                    ce = [e for e in s.events if e.name == "store" and e.args and e.args[0].op == "str" and str(e.args[0].args[0]).strip('"') == "count_elts"]
                    k0 = next((i for i, e in enumerate(s.events) if e.name == "loop#%d" % (comp[0] if comp else -1)), None)
                    before = [e for e in ce if k0 is not None and s.events.index(e) < k0]
                    T.put("add_gas_phase.element_list_emptied_before_the_components_are_collected", bool(before) and tm.isnum(before[-1].args[1]) and before[-1].args[1].args[0] == 0, repr([e.args for e in ce]))
                else:
                    if len(book) != 2:
                        T.put("add_surface.two_booking_loops(components,charge_records)", False, repr(book)); continue
                    T.put("add_surface.defined_surface:sorbed_elements_of_the_components_reached_once_on_every_returning_path", mk.count(book[0]) == 1, repr(mk))
                    ty = tm.app("call:Get_type", (arg,), "I")
                    edl = tm.or_(*[tm.eq(ty, tm.num(ev[m], "I")) for m in (("DDL", "CCM", "CD_MUSIC") if not twin else ("DDL", "CCM", "CD_MUSIC", "NO_EDL"))])
                    for h2, e_on in cases(h, edl):
                        if e_on:
                            seen.add("add_surface.edl")
                            T.put("add_surface.DDL_CCM_CD_MUSIC:charge_records(charge,saved_layer_totals)_reached_once_after_the_components", mk.count(book[1]) == 1 and mk.index(book[0]) < mk.index(book[1]), repr(mk))
                        else:
                            seen.add("add_surface.no_edl")
                    dls = [e for e in s.events if e.name == "store" and e.args and e.args[0].op == "str" and str(e.args[0].args[0]).strip('"') == "dl_type_x"]
                    want = tm.app("call:Get_dl_type", (arg,), "I")
                    T.put("add_surface.solver_gets_the_diffuse_layer_model_of_THIS_surface(dl_type_x)", len(dls) == 1 and dls[0].recv is THIS and (dls[0].args[1] is want or proved(h, tm.eq(dls[0].args[1], want))), repr([e.args for e in dls]))
    need = {n + x for n in ("add_exchange", "add_surface", "add_kinetics", "add_gas_phase", "add_ss_assemblage") for x in (".present",)} | {"add_exchange.absent", "add_surface.absent", "add_gas_phase.absent", "add_ss_assemblage.absent",
            "add_kinetics.absent", "add_surface.edl", "add_surface.no_edl"}
    r.add("reach.cases", DISCHARGED if need <= seen else UNDECIDED, "symex", 0, "missing %r" % sorted(need - seen), kind="vacuity")
    r.assumptions += ["what one pass of each loop books: units C02.add_exchange.*, C02.add_surface.*, C02.add_kinetics.*, C02.add_gas_phase.*, C02.add_ss_assemblage.*",
                      "a surface without electrostatic model keeps no charge records (read_surface / tidy_surface: C20.read_surface_tidy_surface.*), so nothing is demanded of the charge loop for it",
                      "paths ending in error_msg(.., STOP) do not return", "after a loop the sums are arbitrary (frame of the loop); stores are attributed to a sum by the member name"]
    return r


UNITS = [
    ("C02.add_reactants.every_defined_reactant_reaches_its_booking_loops_and_nothing_is_booked_outside_them", unit_booking_loops_reached),
]
