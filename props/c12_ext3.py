"""C12 (third wave), kinetics.cpp:
  * rk_kinetics: the -step_divide handling and the equal-rate shortcut (taken only while the step is the whole interval), the retry after a
    bad step / too large a reaction (stored first-stage rates rescaled to the new step, amounts restored, nothing saved), the clock inside
    and after the integration, the final distribution;
  * run_reactions / set_reaction: the time book-keeping around the integrator calls and which KINETICS block is integrated.

Every unit executes regions / loop passes of the real functions from an ARBITRARY state (Engine B)."""
import re
UNITS = []            # filled in place at the end (props.c12_ext imports this name at ITS end: either import order must work)
from props.common import *
from props.c11_ext import (fast_twin, _parent_and_index, Agg, split, proved, same, evs, pos, reach, macro, loops_of, loop_where, I, R, _sel_named, _top, _find_of)
from props.c12_ext import comp_of, on, KIN
from vf.core import FAILED, DISCHARGED, UNDECIDED, Undecided

LOOPK = ("ForStmt", "WhileStmt", "DoStmt")


def assigns(node, names):
    """assignments (=, op=) inside node whose target is one of the named locals / members"""
    out = []
    for x in A.walk(node):
        if x.get("kind") in ("BinaryOperator", "CompoundAssignOperator") and x.get("opcode", "").endswith("=") and x.get("opcode") not in ("==", "!=", "<=", ">="):
            l = strip(x["inner"][0])
            nm = l.get("referencedDecl", {}).get("name") if l.get("kind") == "DeclRefExpr" else (l.get("name") if l.get("kind") == "MemberExpr" else None)
            if nm in names:
                out.append(x)
    return out


def induction_var(lp):
    """name of the variable the for-initialiser of the loop assigns / declares"""
    for x in A.walk(lp["inner"][0]):
        if x.get("kind") == "VarDecl" and x.get("name"):
            return x["name"]
        if x.get("kind") == "DeclRefExpr" and x.get("referencedDecl", {}).get("kind") == "VarDecl":
            return x["referencedDecl"]["name"]
    raise Undecided("induction variable of a loop not found")


def assigns_any(node):
    """plain assignments to local variables inside node"""
    return [x for x in A.walk(node) if x.get("kind") == "BinaryOperator" and x.get("opcode") == "=" and strip(x["inner"][0]).get("kind") == "DeclRefExpr" and x["inner"][0].get("kind") == "DeclRefExpr"]


def contains(outer, inner):
    return any(z is inner for z in A.walk(outer))


def rk_ctx(functional=("Get_step_divide", "Get_bad_step_max", "Get_kinetics_comps")):
    """-runge_kutta order as a field of the KINETICS block: Set_rk(v) stores it, Get_rk() reads it (accessor pair); every other call is pure"""
    c = ctx(functional=functional)
    key = ("f", "rk#order", "I")
    def get_rk(ex_, st, n, name, recv, args):
        v = tm.select(ex_.heap_arr(st, key), recv)
        st.events.append(SX.Event(name, recv, args, v, n))
        return [(st, v)]
    def set_rk(ex_, st, n, name, recv, args):
        st.heap[key] = tm.store(ex_.heap_arr(st, key), (recv,), args[0])
        st.events.append(SX.Event(name, recv, args, tm.num(0, "I"), n))
        return [(st, tm.num(0, "I"))]
    c.handlers["Get_rk"] = get_rk
    c.handlers["Set_rk"] = set_rk
    c.rk_key = key
    return c


def rk_of(ex, s, c, entry=False):
    kp = tm.sym("L_kinetics_ptr", "P")
    return tm.select(entry_arr(ex, s, c.rk_key) if entry else ex.heap_arr(s, c.rk_key), kp)


def monotone_flag(s, name, pre):
    """the loops of the region are opaque: what they leave in the flag `name` is arbitrary.  Every assignment to it inside the stepping loop
    stores FALSE (checked separately), hence a flag that is still set was set on entry"""
    out, seen = [], set()
    for t in list(s.pc) + [v for v in s.locals.values() if not isinstance(v, tuple) and v is not None]:
        for y in tm.subterms(t):
            if y.op == "sym" and isinstance(y.args[0], str) and y.args[0].startswith("havoc_" + name + "!") and y not in seen:
                seen.add(y)
                out.append(tm.implies(tm.not_(tm.eq(y, I(0))), tm.not_(tm.eq(pre, I(0)))))
    return out


def unit_rk_shortcut(twin=False):
    """Phreeqc::rk_kinetics(i, kin_time, use_mix, nsaver, step_fraction): regions and loop passes from an arbitrary state.  Contract:
      * INV: while the flag equal_rate is set, the step h is the whole interval and nothing has been integrated yet (h == kin_time, h_sum == 0).
        It holds when the stepping loop is entered (-step_divide > 1 divides the step and clears the flag) and is kept by every statement of
        the loop body that changes h, h_sum or the flag (too many moles: the flag is cleared; accept / reject: the flag is already clear there);
      * hence every exit through the equal-rate shortcut (goto EQUAL_RATE_OUT: rate*h added once, result saved, loop left without advancing
        h_sum) happens with h == kin_time - h_sum: nothing of the interval is skipped; a shortcut block is entered only with the flag set;
      * the flag is clear where a step is accepted or rejected: order in 1..3 or 6 (6 starts with the flag clear), each low-order block falls
        through only with its order not selected or the flag clear, the order changes only inside those blocks / after an accepted step and
        stays in 1..3, and the flag is only ever cleared inside the loop;
      * retry after a rejected step / too large a reaction: the old step is remembered before h shrinks, the stored first-stage moles are
        rescaled by h/h_old (rate * new step), the second stage uses 1/5 of them, the amounts are put back to the start of the sub-step
        (m_temp[j]); nothing is saved on a rejected step or on a mass-balance failure; an accepted step keeps h_sum <= kin_time;
      * clock: every rate evaluation inside the loop is preceded by rate_sim_time = rate_sim_time_start + h_sum + c*h (0 <= c <= 1) and is made
        for the step h; after the loop rate_sim_time == rate_sim_time_start + kin_time on every path;
      * after the loop the accepted state is distributed once more WITHOUT kinetics, mixing or reaction step into nsaver, and solution i is
        restored from the copy taken at the start when nsaver != i."""
    q = "Phreeqc::rk_kinetics"
    fn = A.find_function(KIN, q)
    r = U.new_unit("C12.rk_kinetics.shortcut_exit_only_while_the_step_is_the_whole_interval_retry_and_clock", KIN, q, fn)
    ag = Agg(r)
    NOMIX, TRUE_, FALSE_, MB = macro("NOMIX"), macro("TRUE"), macro("FALSE"), macro("MASS_BALANCE")
    top = _top(fn)
    wl = [k for k, x in enumerate(top) if x.get("kind") == "WhileStmt"]
    if len(wl) != 1:
        raise Undecided("stepping loop of rk_kinetics not found")
    wnode = top[wl[0]]
    wbody = wnode["inner"][-1].get("inner", [])
    labels = {x.get("name"): x.get("declId") for x in A.walk(fn) if x.get("kind") == "LabelStmt"}
    out_label = [nm for nm in labels if any(contains(t, x) for t in top[wl[0] + 1:] for x in A.walk(fn) if x.get("kind") == "LabelStmt" and x.get("name") == nm)]
    if len(out_label) != 1:
        raise Undecided("label behind the stepping loop not found")
    OUT = "goto:" + str(labels[out_label[0]])
    L = lambda n, so="R": tm.sym("L_" + n, so)
    h0, hs0, kt, er0 = L("h"), L("h_sum"), L("kin_time"), L("equal_rate", "I")
    INV = lambda er, h, hs: tm.or_(tm.eq(er, I(0)), tm.and_(tm.eq(h, kt), tm.eq(hs, R(0))))
    in123 = lambda v: tm.or_(tm.eq(v, I(1)), tm.eq(v, I(2)), tm.eq(v, I(3)))
    # ---- before the loop
    a = next((k for k, x in enumerate(top[:wl[0]]) if assigns(x, ("h_sum",)) and x.get("kind") in ("BinaryOperator",)), None)
    if a is None:
        raise Undecided("initialisation of h_sum before the stepping loop not found")
    c0 = rk_ctx()
    f, ex, fin, info = region(KIN, q, [x for x in top[a:wl[0]] if x.get("kind") in ("BinaryOperator", "IfStmt")], c0)
    n0 = 0
    for s in live(fin):
        n0 += 1
        hy = list(s.pc)
        er, h, hs = local(info, s, "equal_rate"), local(info, s, "h"), local(info, s, "h_sum")
        ag.valid("loop_entry.flag_set_only_with_the_step_being_the_whole_interval(-step_divide>1_clears_it)", hy, INV(er, h, hs) if not twin else tm.eq(h, kt))
        ag.valid("loop_entry.order_in_1..3_or_flag_clear(order_6_starts_without_shortcut)", hy, tm.or_(tm.eq(er, I(0)), in123(rk_of(ex, s, c0))))
    reach(r, "loop_entry", n0, 3)
    # ---- statements of the loop body that touch h, h_sum or the flag
    quit_blocks = [x for x in wbody if any(y.get("kind") == "GotoStmt" and "goto:" + str(y.get("targetLabelDeclId")) == OUT for y in A.walk(x))]
    touching = [x for x in wbody if assigns(x, ("h", "h_sum", "equal_rate"))]
    err = [x for x in wbody if assigns(x, ("h_sum",))]
    if len(err) != 1 or len(quit_blocks) < 3:
        raise Undecided("accept/reject statement (%d) or low-order blocks (%d) of rk_kinetics not found" % (len(err), len(quit_blocks)))
    # every assignment to the flag inside the loop clears it
    fl = assigns(wnode, ("equal_rate",))
    okf = bool(fl) and all(x.get("opcode") == "=" for x in fl)
    vals = []
    for x in fl:
        f, ex, fin, info = region(KIN, q, [x], ctx())
        vals += [local(info, s, "equal_rate") for s in live(fin)]
    ag.put("flag.every_assignment_inside_the_loop_clears_it", okf and all(tm.isnum(v) and v.args[0] == FALSE_ for v in vals), vals[:6])
    nq = ninv = 0
    orders = set()
    for x in touching:
        c1 = rk_ctx()
        f, ex, fin, info = region(KIN, q, [x], c1)
        is_err = x is err[0]
        is_quit = any(x is b for b in quit_blocks)
        for s in [y for y in fin if (y.status in ("run", "cont") or str(y.status).startswith("goto:")) and B.z3_sat(list(y.pc)) != "unsat"]:
            er, h, hs = local(info, s, "equal_rate"), local(info, s, "h"), local(info, s, "h_sum")
            hy = list(s.pc) + [INV(er0, h0, hs0)] + monotone_flag(s, "equal_rate", er0)
            if is_err:
                hy.append(tm.eq(er0, I(0)))          # established by the low-order blocks in front of it (obligations `order.*` below)
            ninv += 1
            tag = "accept_reject" if is_err else ("low_order_block" if is_quit else "step_reduction")
            ag.valid("%s.keeps(flag_set=>h==kin_time_and_h_sum==0)" % tag, hy, INV(er, h, hs))
            if s.status == OUT:
                nq += 1
                ag.valid("shortcut_exit.step_is_the_whole_remaining_interval(h==kin_time-h_sum)", hy, tm.eq(h, kt - hs))
                ag.valid("shortcut_exit.only_from_a_block_entered_with_the_flag_set", list(s.pc) + monotone_flag(s, "equal_rate", er0), tm.not_(tm.eq(er0, I(0))))
                sv = [e for e in s.events if e.name.endswith("saver")]
                ag.put("shortcut_exit.result_saved_before_leaving", bool(sv), [e.name for e in s.events][-6:])
                rk0 = rk_of(ex, s, c1, entry=True)
                for k_ in (1, 2, 3):
                    if proved(list(s.pc), tm.eq(rk0, I(k_))):
                        orders.add(k_)
                if proved(list(s.pc), tm.eq(rk0, I(1))):
                    # first-order result (rate*h): accepted only if the rate at the end of the step still equals the rate at its start, or nothing reacts
                    others = [nm for nm in {y["inner"][0].get("referencedDecl", {}).get("name") for y in assigns_any(x)} if nm and nm != "equal_rate" and info["names"].get(nm) is not None
                              and getattr(s.locals.get(info["names"][nm]), "sort", None) == "I"]
                    ag.valid("shortcut_exit.order_1_only_with_the_rates_still_equal_or_all_zero", list(s.pc), tm.or_(tm.not_(tm.eq(er, I(0))), *[tm.not_(tm.eq(local(info, s, nm), I(0))) for nm in others]))
            elif is_quit and s.status == "run":
                # falls through: either the block's order is not selected, or the flag is clear now
                rk0, rk1 = rk_of(ex, s, c1, entry=True), rk_of(ex, s, c1)
                mine = [k_ for k_ in (1, 2, 3) if any(proved(list(t.pc), tm.eq(rk_of(ex, t, c1, entry=True), I(k_))) for t in fin if t.status == OUT)]
                if len(mine) == 1:
                    ag.valid("order.block_%d_left_behind_only_with_order!=%d_or_flag_clear" % (mine[0], mine[0]), hy, tm.or_(tm.not_(tm.eq(rk1, I(mine[0]))), tm.eq(er, I(0))))
                    ag.valid("order.block_%d_keeps_order_in_1..3_or_flag_clear" % mine[0], hy + [tm.or_(tm.eq(er0, I(0)), in123(rk0))], tm.or_(tm.eq(er, I(0)), in123(rk1)))
                else:
                    ag.put("order.low_order_block_selected_by_one_order", False, mine)
    reach(r, "statements_touching_step_or_flag", ninv, 6); reach(r, "shortcut_exits", nq, 3)
    ag.put("order.every_order_1..3_has_its_shortcut_block_in_front_of_the_error_test", orders == {1, 2, 3} and all(wbody.index(b) < wbody.index(err[0]) for b in quit_blocks), sorted(orders))
    # Set_rk only inside the low-order blocks or the accept branch, never between them
    srk = [x for x in A.walk(wnode) if x.get("kind") == "CXXMemberCallExpr" and text_of(KIN, x).split("(")[0].endswith("Set_rk")]
    ag.put("order.changed_only_inside_a_low_order_block_or_after_an_accepted_step", bool(srk) and all(any(contains(b, x) for b in quit_blocks + err) for x in srk), [text_of(KIN, x) for x in srk])
    # ---- accept / reject: nothing saved unless accepted; h_sum stays within the interval
    c2 = rk_ctx()
    f, ex, fin, info = region(KIN, q, err, c2)
    nrej = nacc = 0
    for s in [y for y in fin if B.z3_sat(list(y.pc)) != "unsat"]:
        em = L("error_max")
        sv = [e for e in s.events if e.name.endswith("saver")]
        for hy in split(list(s.pc), [tm.lt(R(1), em)]):
            if proved(hy, tm.lt(R(1), em)):
                nrej += 1
                ag.put("rejected.nothing_saved", not sv, sv)
            elif str(s.status).startswith("goto:"):
                ag.put("mass_balance_failure.nothing_saved", not sv, sv)
            else:
                nacc += 1
                ag.valid("accepted.integrated_time_stays_within_the_interval(h<=kin_time-h_sum_before=>h_sum<=kin_time_after)", hy + [tm.le(h0, kt - hs0)], tm.le(local(info, s, "h_sum"), kt))
    reach(r, "rejected", nrej, 1); reach(r, "accepted", nacc, 1)
    # ---- too many moles: old step remembered
    red = [x for x in wbody if assigns(x, ("h",)) and not assigns(x, ("h_sum",))]
    hold = set()
    for x in red:
        f, ex, fin, info = region(KIN, q, [x], rk_ctx())
        for s in live(fin):
            if local(info, s, "h") is not h0:
                keep = [nm for nm, did in info["names"].items() if nm != "h" and s.locals.get(did) is h0]
                ag.put("step_reduction.old_step_remembered_for_rescaling_the_stored_rates", len(keep) == 1, keep)
                hold |= set(keep)
    hold = sorted(hold)
    # ---- retry pass: stored first-stage moles rescaled, amounts restored
    lps = loops_of(fn)
    kr = [k for k, lp in enumerate(lps) if lp.get("kind") == "ForStmt" and contains(wnode, lp) and any(y.get("kind") == "CompoundAssignOperator" and y.get("opcode") == "*=" for y in A.walk(lp["inner"][-1]))]
    if len(kr) != 1:
        r.add("retry.loop_found", UNDECIDED, "ast-scan", 0, "%d" % len(kr), kind="structural")
    else:
        f, ex, its, info = U.run_loop_isolated(KIN, q, kr[0], ctx=ctx(functional=("Get_kinetics_comps",)))
        j_ = tm.sym("iter_j", "I")
        kin = tm.sym("L_kinetics_ptr", "P")
        nr = 0
        for s in live(its, ("run", "cont")):
            nr += 1
            hy = list(s.pc)
            comp = comp_of(ex, s, kin, j_)
            vd = tm.select(entry_arr(ex, s, ("f", "#vdata", "P")), tm.app("fld:rk_moles", (THIS,), "P"))
            old = tm.select(entry_arr(ex, s, ("m", "R")), vd, j_)
            new = tm.select(ex.heap_arr(s, ("m", "R")), vd, j_)
            if len(hold) != 1:
                ag.put("retry.old_step_variable_identified", None, hold); continue
            want = old * (L("h") / L(hold[0])) if not twin else old * (L(hold[0]) / L("h"))
            ag.eq("retry.stored_first_stage_moles_rescaled_to_the_new_step(*h/h_old)", hy, new, want)
            sm, smo = evs(s, "Set_m"), evs(s, "Set_moles")
            ag.put("retry.only_reactant_j_is_touched", all(same(hy, e.recv, comp) for e in sm + smo), sm + smo)
            ag.put("retry.amount_and_second_stage_moles_of_reactant_j_set_once_each", len(sm) == 1 and len(smo) == 1, sm + smo)
            if len(smo) == 1:
                ag.eq("retry.second_stage_uses_one_fifth_of_the_rescaled_moles", hy, smo[0].args[0], new * tm.num("0.2"))
            mt = tm.select(entry_arr(ex, s, ("m", "R")), tm.select(entry_arr(ex, s, ("f", "#vdata", "P")), tm.app("fld:m_temp", (THIS,), "P")), j_)
            if len(sm) == 1:
                ag.put("retry.amount_put_back_to_the_start_of_the_sub-step(m_temp[j])", sm[0].args[0] is mt or same(hy, sm[0].args[0], mt), sm[0].args[0])
        reach(r, "retry_pass", nr, 1)
    # ---- clock inside the loop
    nclk = 0
    for x in assigns(wnode, ("rate_sim_time",)):
        f, ex, fin, info = region(KIN, q, [x], ctx())
        for s in live(fin):
            nclk += 1
            v = fld(ex, s, "rate_sim_time", "R")
            rest = v - fld0(ex, s, "rate_sim_time_start", "R") - hs0
            ok = False
            det = ""
            try:
                import sympy
                cv = B.SymConv(); e = sympy.expand(cv.conv(rest))
                hsym = cv.conv(h0)
                cf = sympy.simplify(e / hsym) if e != 0 else sympy.Integer(0)
                ok = bool(cf.is_number and 0 <= cf <= 1)
                det = "node %s" % cf
            except Exception as ex_:
                det = "not of the form start + h_sum + c*h: %r" % (v,)
            ag.put("clock.rate_sim_time==rate_sim_time_start+h_sum+c*h_with_0<=c<=1", ok, det)
    reach(r, "clock_updates_in_the_loop", nclk, 6)
    ncr = 0
    for x in [y for y in A.walk(wnode) if y.get("kind") == "CXXMemberCallExpr" and text_of(KIN, y).startswith("calc_kinetic_reaction(")]:
        f, ex, fin, info = region(KIN, q, [x], ctx())
        for s in live(fin):
            e = [z for z in s.events if z.name.endswith("calc_kinetic_reaction")]
            ncr += 1
            ag.put("clock.rates_evaluated_for_the_step_h_of_this_kinetics_block", len(e) == 1 and e[0].args[1] is h0 and e[0].args[0] is L("kinetics_ptr", "P"), e)
    reach(r, "rate_evaluations_in_the_loop", ncr, 8)
    # ---- behind the loop
    c3 = rk_ctx(functional=("Rxn_find",))
    f, ex, fin, info = region(KIN, q, [x for x in top[wl[0] + 1:]], c3)
    nend = 0
    i_, ns_ = L("i", "I"), L("nsaver", "I")
    for s in live(fin, ("ret", "run")):
        nend += 1
        hy = list(s.pc)
        ag.eq("exit.rate_sim_time==rate_sim_time_start+kin_time", hy, fld(ex, s, "rate_sim_time", "R"), fld0(ex, s, "rate_sim_time_start", "R") + kt)
        sw = [e for e in s.events if e.name.endswith("set_and_run_wrapper")]
        st_ = fld0(ex, s, "state", "I")
        for hy1 in split(hy, [tm.eq(ns_, i_)]):
            cp = [e for e in s.events if e.name.endswith("Rxn_copy")]
            if proved(hy1, tm.not_(tm.eq(ns_, i_))):
                ag.put("exit.accepted_state_distributed_into_nsaver_without_kinetics_mix_or_reaction_step", len(sw) == 1 and sw[0].args[0] is i_ and same(hy1, sw[0].args[1], I(NOMIX)) and same(hy1, sw[0].args[2], I(FALSE_))
                       and sw[0].args[3] is ns_ and same(hy1, sw[0].args[4], R(0)), sw)
                so = L("save_old", "I")
                ag.put("exit.solution_i_restored_from_the_copy_taken_at_the_start(nsaver!=i)", len(cp) == 1 and cp[0].args[1] is so and cp[0].args[2] is i_ and "Rxn_solution_map" in repr(cp[0].args[0]), cp)
            else:
                ag.put("exit.no_solution_copied_over_i_when_the_result_is_saved_in_place", not cp, cp)
                ag.put("exit.at_most_one_final_distribution_without_kinetics", len(sw) <= 1 and all(same(hy1, e.args[2], I(FALSE_)) and same(hy1, e.args[4], R(0)) and same(hy1, e.args[1], I(NOMIX)) for e in sw), sw)
        ski = [e for e in s.events if e.name.endswith("Set_kinetics_in")]
        ag.put("exit.kinetics_switched_on_again_for_the_caller", bool(ski) and (ski[-1].args[0] is tm.TRUE or same(hy, ski[-1].args[0], I(1))), ski)
    reach(r, "exit_paths", nend, 2)
    ag.flush()
    r.assumptions += ["Get_rk()/Set_rk() are an accessor pair of the KINETICS block and no other callee changes the order", "the loops over the reactants are opaque in the region runs; the flag equal_rate is only ever cleared inside the stepping loop (checked), "
                      "so a flag that is set after such a loop was set on entry", "the induction over the iterations of the stepping loop (and over the backward jumps to MOLES_TOO_LARGE, which re-enter at a statement under this contract) is stated, not mechanised",
                      "save_old holds the scratch number under which solution i was copied at the start (first statements of rk_kinetics)", "doubles as reals; pow(error, ..) uninterpreted",
                      "amounts, tableau, error test, step growth: C12.rk_kinetics.tableau / equal_rate_tests / m_decreases_by_the_integrated_moles_..."]
    return r


# -------------------------------------------------------------------------------------- run_reactions: the clock
def _cvode_ctx():
    """CVode(mem, tout, y, &t, task) writes the time it reached into *t (a fresh value: its body is C12.cvode.*)"""
    c = ctx(functional=("Rxn_find", "Get_use_cvode", "Get_kinetics_comps"))
    def cvode(ex_, st, n, name, recv, args):
        reached = SX.fresh("time_reached_by_CVode", "R")
        key = ("m", "R")
        st.heap[key] = tm.store(ex_.heap_arr(st, key), (args[3], tm.num(0, "I")), reached)
        res = SX.fresh("ret_CVode", "I")
        ev_ = SX.Event(name, recv, args, res, n)
        ev_.snap = {"reached": reached}
        st.events.append(ev_)
        return [(st, res)]
    c.handlers["CVode"] = cvode
    return c


def unit_run_reactions_clock(twin=False):
    """Phreeqc::run_reactions(i, kin_time, use_mix, step_fraction), the time book-keeping around the integrators (regions, arbitrary state):
      * on every path the length of the step is published first: rate_kin_time == kin_time (BASIC KIN_TIME) and kin_time_x == kin_time (print-out);
      * Runge-Kutta is called iff -cvode is off, once, for cell i with exactly the caller's time, mix switch, nsaver and step fraction;
      * CVODE: its own clock is primed from the engine's (cvode_rate_sim_time_start == rate_sim_time_start, cvode_rate_sim_time == rate_sim_time)
        and it is told which block to integrate (cvode_n_user == i, cvode_kinetics_ptr == KINETICS i, cvode_n_reactions == its size) before
        anything of CVODE runs; the first call integrates from 0 to kin_time and afterwards rate_sim_time == rate_sim_time_start + (time reached);
      * after either integrator, unconditionally, rate_sim_time == rate_sim_time_start + kin_time (the clock at the end of the step is the start
        of the step plus the whole step, however it was divided)."""
    q = "Phreeqc::run_reactions"
    fn = A.find_function(KIN, q)
    r = U.new_unit("C12.run_reactions.clock_before_and_after_the_integrator_calls", KIN, q, fn)
    ag = Agg(r)
    top = _top(fn)
    L = lambda n, so="R": tm.sym("L_" + n, so)
    big = [x for x in top if x.get("kind") == "IfStmt" and any(y.get("kind") == "CXXMemberCallExpr" and text_of(KIN, y).startswith("rk_kinetics(") for y in A.walk(x))]
    if len(big) != 1 or len(big[0]["inner"]) < 3:
        raise Undecided("integration branch of run_reactions not found")
    big = big[0]
    kb = next(k for k, x in enumerate(top) if x is big)
    # ---- entry
    f, ex, fin, info = region(KIN, q, [x for x in top[:kb] if x.get("kind") in ("BinaryOperator", "IfStmt", "CXXMemberCallExpr", "CallExpr")], ctx(functional=("Rxn_find",)))
    n0 = 0
    for s in live(fin):
        n0 += 1
        ag.eq("entry.rate_kin_time==kin_time(KIN_TIME)", list(s.pc), fld(ex, s, "rate_kin_time", "R"), L("kin_time") if not twin else L("step_fraction"))
        ag.eq("entry.kin_time_x==kin_time", list(s.pc), fld(ex, s, "kin_time_x", "R"), L("kin_time"))
    reach(r, "entry_paths", n0, 2)
    # ---- which integrator
    els = big["inner"][2]
    sel = [x for x in els.get("inner", []) if x.get("kind") == "IfStmt" and any(text_of(KIN, y).startswith("rk_kinetics(") for y in A.walk(x["inner"][1]) if y.get("kind") == "CXXMemberCallExpr")]
    if len(sel) != 1 or len(sel[0]["inner"]) < 3:
        raise Undecided("statement choosing between Runge-Kutta and CVODE not found")
    sel = sel[0]
    from props.c12_ext import eval_expr
    exq, vals = eval_expr(KIN, q, sel["inner"][0], ctx(functional=("Get_use_cvode",)))
    for s, v in vals:
        uc = [e for e in s.events if e.name.endswith("Get_use_cvode")]
        ag.put("integrator.Runge-Kutta_iff_-cvode_is_off", len(uc) == 1 and uc[0].recv is L("kinetics_ptr", "P") and B.z3_prove(list(s.pc), tm.eq(tm.to_bool(v), tm.not_(tm.to_bool(uc[0].result))))[0] == "proved", v)
    f, ex, fin, info = region(KIN, q, [sel["inner"][1]], ctx())
    for s in live(fin):
        e = [x for x in s.events if x.name.endswith("rk_kinetics")]
        ok = len(e) == 1 and e[0].args[0] is L("i", "I") and e[0].args[1] is L("kin_time") and e[0].args[2] is L("use_mix", "I") and e[0].args[3] is L("nsaver", "I") and e[0].args[4] is L("step_fraction")
        ag.put("integrator.rk_kinetics(i,kin_time,use_mix,nsaver,step_fraction)_once", ok, e)
    # ---- after the integrators
    after = [x for x in els.get("inner", []) if assigns(x, ("rate_sim_time",)) and x.get("kind") == "BinaryOperator"]
    ka = [k for k, x in enumerate(els.get("inner", [])) if any(x is y for y in after)]
    ks = next(k for k, x in enumerate(els.get("inner", [])) if x is sel)
    ag.put("after.clock_set_unconditionally_behind_both_integrators", len(after) == 1 and ka[0] > ks, [text_of(KIN, x) for x in after])
    for x in after:
        f, ex, fin, info = region(KIN, q, [x], ctx())
        for s in live(fin):
            ag.eq("after.rate_sim_time==rate_sim_time_start+kin_time", list(s.pc), fld(ex, s, "rate_sim_time", "R"), fld0(ex, s, "rate_sim_time_start", "R") + L("kin_time"))
    # ---- CVODE
    cv = sel["inner"][2].get("inner", [])
    calls = [k for k, x in enumerate(cv) if any(y.get("kind") == "CallExpr" and text_of(KIN, y).split("(")[0] in ("CVode", "CVodeMalloc", "CVDense") for y in A.walk(x))]
    prim = [k for k, x in enumerate(cv) if x.get("kind") == "BinaryOperator" and assigns(x, ("cvode_rate_sim_time_start", "cvode_rate_sim_time", "cvode_n_user", "cvode_kinetics_ptr", "cvode_n_reactions"))]
    if not calls or len(prim) != 5:
        raise Undecided("CVODE branch of run_reactions: calls (%d) / priming statements (%d) not found" % (len(calls), len(prim)))
    ag.put("cvode.primed_unconditionally_before_anything_of_CVODE_runs", max(prim) < min(calls), (prim, calls[:3]))
    f, ex, fin, info = region(KIN, q, cv[min(prim) - 2 if min(prim) >= 2 else 0:max(prim) + 1], ctx(functional=("Rxn_find", "Get_kinetics_comps", "size")))
    npz = 0
    for s in live(fin):
        npz += 1
        hy = list(s.pc)
        ag.eq("cvode.own_clock_start==engine's(rate_sim_time_start)", hy, fld(ex, s, "cvode_rate_sim_time_start", "R"), fld0(ex, s, "rate_sim_time_start", "R"))
        ag.eq("cvode.own_clock==engine's(rate_sim_time)", hy, fld(ex, s, "cvode_rate_sim_time", "R"), fld0(ex, s, "rate_sim_time", "R"))
        ag.put("cvode.integrates_block_number_i", fld(ex, s, "cvode_n_user", "I") is L("i", "I"), fld(ex, s, "cvode_n_user", "I"))
        kp = fld(ex, s, "cvode_kinetics_ptr", "P")
        ag.put("cvode.integrates_the_KINETICS_block_found_under_i", same(hy, kp, _find_of("Rxn_kinetics_map", L("i", "I"))) or same(hy, kp, local(info, s, "kinetics_ptr")) and same(hy, local(info, s, "kinetics_ptr"), _find_of("Rxn_kinetics_map", L("i", "I"))), kp)
        ag.put("cvode.number_of_equations_is_the_number_of_reactants_of_that_block", same(hy, fld(ex, s, "cvode_n_reactions", "I"), local(info, s, "n_reactions")), fld(ex, s, "cvode_n_reactions", "I"))
    reach(r, "cvode.priming", npz, 1)
    first = min(k for k in calls if any(y.get("kind") == "CallExpr" and text_of(KIN, y).split("(")[0] == "CVode" for y in A.walk(cv[k])))
    a0 = max([k for k in range(first) if cv[k].get("kind") == "BinaryOperator" and assigns(cv[k], ("tout",))] or [first])
    a0 = min(a0, max([k for k in range(first) if cv[k].get("kind") == "BinaryOperator" and assigns(cv[k], ("t",))] or [first]))
    b0 = next((k for k in range(first, len(cv)) if cv[k].get("kind") == "BinaryOperator" and assigns(cv[k], ("rate_sim_time",))), None)
    if b0 is None:
        ag.put("cvode.clock_updated_after_the_first_integration", False, "no assignment to rate_sim_time behind the first CVode call")
    else:
        f, ex, fin, info = region(KIN, q, cv[a0:b0 + 1], _cvode_ctx())
        for s in live(fin):
            e = [x for x in s.events if x.name.endswith("CVode")]
            ag.put("cvode.first_call_integrates_up_to_kin_time", len(e) == 1 and e[0].args[1] is L("kin_time"), e)
            if len(e) == 1:
                ag.eq("cvode.rate_sim_time==rate_sim_time_start+time_reached", list(s.pc), fld(ex, s, "rate_sim_time", "R"), fld0(ex, s, "rate_sim_time_start", "R") + e[0].snap["reached"])
                ag.put("cvode.nothing_between_the_call_and_the_clock_update", b0 == first + 1, (first, b0))
    ag.flush()
    r.assumptions += ["CVode writes the time it reached through its 4th argument (C12.cvode.CVode_returns_the_state_at_tout); the restart loop is C12.run_reactions.cvode_restart_keeps_elapsed+remaining==requested",
                      "f and Jac copy cvode_rate_sim_time back into rate_sim_time before every rate evaluation (C12.f_and_Jac.*); inside CVODE cvode_rate_sim_time = cvode_rate_sim_time_start + tn (cvode.cpp, not under this contract)",
                      "rate_sim_time_start itself is set by the step drivers (C12.step_drivers.*, transport / advection)", "Rxn_find(map, i) is a function of the store and the number"]
    return r


# -------------------------------------------------------------------------------------------------------- set_reaction
def unit_set_reaction(twin=False):
    """Phreeqc::set_reaction(i, use_mix, use_kinetics): every top-level statement as a region from an arbitrary state.  Contract: a reactant pointer
    of `use` is set to the entry numbered i of ITS OWN store (Set_<r>_ptr(Rxn_find(Rxn_<r>_map, i))) and only when that reactant is switched on
    (use.Get_<r>_in()); a missing entry stops the run; KINETICS additionally only when the caller asks for it (use_kinetics == TRUE), otherwise the
    kinetics pointer is cleared - so the equilibrations of a step that must not integrate (use_kinetics FALSE) cannot apply the kinetic block a
    second time; the solution (or, with use_mix == TRUE and a mix switched on, the MIX numbered i) is selected after both were cleared."""
    q = "Phreeqc::set_reaction"
    fn = A.find_function(KIN, q)
    r = U.new_unit("C12.set_reaction.reactants_numbered_i_from_their_own_stores_kinetics_only_when_asked_for", KIN, q, fn)
    ag = Agg(r)
    TRUE_ = macro("TRUE")
    i_ = tm.sym("L_i", "I")
    seen = set()
    n = 0
    for x in _top(fn):
        if x.get("kind") not in ("IfStmt", "CXXMemberCallExpr"):
            continue
        c = stop_on_error_msg(ctx(functional=("Rxn_find",)))
        f, ex, fin, info = region(KIN, q, [x], c)
        for s in [y for y in fin if y.status in ("run", "throw") and B.z3_sat(list(y.pc)) != "unsat"]:
            hy = list(s.pc)
            for e in [e for e in s.events if re.match(r"^Set_\w+_ptr$", e.name.split("::")[-1])]:
                rname = re.match(r"^Set_(\w+)_ptr$", e.name.split("::")[-1]).group(1)
                a = e.args[0]
                if a is tm.NULL or (tm.isnum(a) and a.args[0] == 0):
                    seen.add(("clear", rname))
                    if rname == "kinetics":
                        uk = tm.eq(tm.sym("L_use_kinetics", "I"), I(TRUE_))
                        gi = [g for g in s.events if g.name.endswith("Get_kinetics_in")]
                        asked = tm.and_(uk, tm.eq(gi[0].result, I(TRUE_))) if gi else uk
                        ag.valid("kinetics.cleared_only_when_not_asked_for_or_switched_off", hy, tm.not_(asked))
                    continue
                n += 1
                seen.add(("set", rname))
                store = {"solution": "Rxn_solution_map", "mix": "Rxn_mix_map"}.get(rname, "Rxn_%s_map" % rname)
                want = _find_of(store, i_ if not (twin and rname == "kinetics") else i_ + 1)
                ag.put("%s.taken_from_its_own_store_under_number_i" % rname, a is want or same(hy, a, want), a)
                if rname != "solution":
                    gi = [g for g in s.events if g.name.split("::")[-1] == "Get_%s_in" % rname and pos(s, g, False) < pos(s, e, False)]
                    ag.put("%s.only_when_switched_on" % rname, len(gi) >= 1 and proved(hy, tm.eq(tm.to_int(gi[0].result) if gi[0].result.sort == "B" else gi[0].result, I(TRUE_))), gi)
                if rname == "kinetics":
                    ag.valid("kinetics.only_when_the_caller_asks_for_it(use_kinetics==TRUE)", hy, tm.eq(tm.sym("L_use_kinetics", "I"), I(TRUE_)))
                if rname == "mix":
                    ag.valid("mix.only_when_the_caller_asks_for_it(use_mix==TRUE)", hy, tm.eq(tm.sym("L_use_mix", "I"), I(TRUE_)))
                # a missing entry stops the run (the pointer just set is read back through the getter of `use`: accessor pair)
                gb = [g for g in s.events if g.name.split("::")[-1] == "Get_%s_ptr" % rname and pos(s, g, False) > pos(s, e, False)]
                if not gb:
                    ag.put("%s.pointer_tested_after_the_look-up" % rname, False, [g.name for g in s.events]); continue
                if proved(hy, tm.eq(gb[0].result, tm.NULL)):
                    ag.put("%s.missing_entry_stops_the_run" % rname, s.status == "throw", s.status)
                elif proved(hy, tm.not_(tm.eq(gb[0].result, tm.NULL))):
                    ag.put("%s.present_entry_goes_on" % rname, s.status == "run", s.status)
                else:
                    ag.put("%s.pointer_tested_after_the_look-up" % rname, False, hy)
    need = {("set", x_) for x_ in ("solution", "mix", "pp_assemblage", "reaction", "exchange", "surface", "temperature", "pressure", "gas_phase", "ss_assemblage", "kinetics")} | {("clear", "kinetics"), ("clear", "mix"), ("clear", "solution")}
    ag.put("every_reactant_kind_is_looked_up_and_mix_solution_kinetics_can_be_cleared", need <= seen, sorted(need - seen))
    reach(r, "pointer_settings", n, 11)
    ag.flush()
    r.assumptions += ["Rxn_find(map, i) is a function of the store and the number; error_msg(.., STOP) does not return", "the getters of `use` are pure; statements are independent (each executed from an arbitrary state)",
                      "the pairing Set_<r>_ptr <-> Rxn_<r>_map <-> Get_<r>_in is by the reactant's name"]
    return r


# ---------------------------------------------------------------------------------------------- advection(): the clock
def unit_advection_clock(twin=False):
    """Phreeqc::advection(): time book-keeping of kinetics inside ADVECTION (loop passes and regions, arbitrary state).  Contract: the step clock
    starts at 0; in every shift every cell is integrated over the SAME time step that is afterwards added - once per shift, not per cell - to
    rate_sim_time_start (so TIME / TOTAL_TIME seen by the rate programs of shift n is (n-1)*step .. n*step for every cell); while a cell is
    handled the clock start is not touched; at the end the elapsed time is carried over into initial_total_time."""
    AD = "src/phreeqcpp/advection.cpp"
    q = "Phreeqc::advection"
    fn = A.find_function(AD, q)
    r = U.new_unit("C12.advection.every_cell_integrated_over_the_step_that_advances_the_clock_once_per_shift", AD, q, fn)
    ag = Agg(r)
    lps = loops_of(fn)
    txt = lambda x: text_of(AD, x)
    k_cell = [k for k, lp in enumerate(lps) if any(y.get("kind") == "CXXMemberCallExpr" and txt(y).startswith("run_reactions(") for y in A.walk(lp["inner"][-1]))]
    if len(k_cell) != 2:
        raise Undecided("shift loop / cell loop of advection() not found (%d)" % len(k_cell))
    k_shift, k_c = k_cell[0], k_cell[1]
    top = _top(fn)
    ks = next((k for k, x in enumerate(top) if x is lps[k_shift]), None)
    if ks is None:
        raise Undecided("shift loop is not a top-level statement of advection()")
    # before the shift loop
    pre = [x for x in top[:ks] if x.get("kind") == "BinaryOperator" and assigns(x, ("rate_sim_time_start",))]
    ag.put("start.step_clock_reset_unconditionally_before_the_first_shift", len(pre) == 1, [txt(x) for x in pre])
    for x in pre:
        f, ex, fin, info = region(AD, q, [x], ctx())
        for s in live(fin):
            ag.eq("start.rate_sim_time_start==0", list(s.pc), fld(ex, s, "rate_sim_time_start", "R"), R(0))
    # one shift
    f, ex, its, info = U.run_loop_isolated(AD, q, k_shift, ctx=ctx(functional=("Rxn_find",)), inner_modes={k_c: "iter"})
    nsh = 0
    kt = None
    for s in live(its, ("run", "cont")):
        nsh += 1
        w = writes(s, ("f", "rate_sim_time_start", "R"))
        ag.put("shift.clock_start_advanced_exactly_once_per_shift", len(w) == 1, w)
        if len(w) == 1:
            v = w[0][1]
            inc = v
            kt = None
            if v.op == "+" and len(v.args) == 2:
                old = [x for x in v.args if x.op == "select" and x.args[0].op == "sym" and ".rate_sim_time_start:" in x.args[0].args[0] and x.args[1] == (THIS,)]
                rest = [x for x in v.args if x not in old]
                if len(old) == 1 and len(rest) == 1:      # old value (the cell loop does not write it: checked below) + step
                    kt = rest[0]
            ag.put("shift.increment_is_one_time_step(a_single_quantity)", kt is not None, inc)
    reach(r, "shift_pass", nsh, 1)
    ncell = 0
    for s in [x for x in info["inner_iters"].get(k_c, []) if x.status in ("run", "cont") and B.z3_sat(list(x.pc)) != "unsat"]:
        ncell += 1
        rr = [e for e in U.iter_events(s) if e.name.endswith("run_reactions")]
        ag.put("cell.integrated_once", len(rr) == 1, rr)
        if len(rr) == 1 and kt is not None:
            ag.put("cell.integrated_over_the_step_that_advances_the_clock", (rr[0].args[1] is kt) != bool(twin), (rr[0].args[1], kt))
            iv = tm.sym("iter_" + induction_var(lps[k_c]), "I")
            ag.put("cell.run_for_cell_i_with_full_step_fraction", rr[0].args[0] is iv and tm.isnum(rr[0].args[3]) and rr[0].args[3].args[0] == 1, rr[0].args)
        ag.put("cell.clock_start_not_touched_while_a_cell_is_handled", not writes(s, ("f", "rate_sim_time_start", "R")), writes(s, ("f", "rate_sim_time_start", "R")))
        wt = writes(s, ("f", "rate_sim_time", "R"))
        for ix, v in wt:
            if kt is not None:
                olds = [x for x in (v.args if v.op == "+" else ()) if x.op == "select" and x.args[0].op == "sym" and ".rate_sim_time_start:" in x.args[0].args[0] and x.args[1] == (THIS,)]
                ag.put("cell.elapsed_time_shown_after_the_cell==start+step", v.op == "+" and len(v.args) == 2 and len(olds) == 1 and any(x is kt for x in v.args), v)
    reach(r, "cell_pass", ncell, 1)
    # after the last shift
    post = [x for x in top[ks + 1:] if x.get("kind") == "CompoundAssignOperator" and assigns(x, ("initial_total_time",))]
    ag.put("end.elapsed_time_carried_over_unconditionally", len(post) == 1, [txt(x) for x in post])
    for x in post:
        f, ex, fin, info = region(AD, q, [x], ctx())
        for s in live(fin):
            ag.eq("end.initial_total_time+=rate_sim_time_start", list(s.pc), fld(ex, s, "initial_total_time", "R"), fld0(ex, s, "initial_total_time", "R") + fld0(ex, s, "rate_sim_time_start", "R"))
    ag.flush()
    r.assumptions += ["run_reactions by name and arguments (its own clock handling: C12.run_reactions.clock_before_and_after_the_integrator_calls)", "the induction over shifts and cells is stated, not mechanised",
                      "TOTAL_TIME reads initial_total_time + rate_sim_time (C12.step_drivers.*)"]
    return r


_UNITS = [
    ("C12.rk_kinetics.shortcut_exit_only_while_the_step_is_the_whole_interval_retry_and_clock", unit_rk_shortcut),
    ("C12.run_reactions.clock_before_and_after_the_integrator_calls", unit_run_reactions_clock),
    ("C12.set_reaction.reactants_numbered_i_from_their_own_stores_kinetics_only_when_asked_for", unit_set_reaction),
    ("C12.advection.every_cell_integrated_over_the_step_that_advances_the_clock_once_per_shift", unit_advection_clock),
]

UNITS[:] = [(uid, fast_twin(f)) for uid, f in _UNITS]
import props.c12_ext as _E
if not getattr(getattr(_E, "__spec__", None), "_initializing", False) and hasattr(_E, "UNITS") and not any(u[0] == UNITS[0][0] for u in _E.UNITS):
    _E.UNITS = _E.UNITS + UNITS       # this module was imported first: props.c12_ext saw the empty list
