"""C05 — selected-output table, string, lines and file describe the same data.
Units: variant copy/clear discipline of src/Var.c (Engine A, real file)."""
import time, os
from vf import core, cbmc

PID = "C05"
REPO = core.REPO
INC = [REPO + "/src", REPO + "/src/phreeqcpp/common", core.VERIF + "/contracts/A"]
VARC = REPO + "/src/Var.c"
HARN = core.VERIF + "/harness/A/var.c"


def units_A(tier):
    maxn = 8 if tier == "quick" else 24
    D = ["VERIF_MAXN=%d" % maxn]
    U = []
    def u(uid, harness, enforce, replace=(), defines=(), bounded=None, expect=("postcondition",), unwind=None, timeout=600, **kw):
        U.append((uid, lambda: cbmc.run_unit(uid, [VARC, HARN], harness, enforce=enforce, replace=replace,
                                             defines=D + list(defines), includes=INC, bounded=bounded, expect=expect,
                                             unwind=unwind, timeout=timeout, file="src/Var.c", function=enforce, **kw)))
    u("C05.Var.VarInit", "h_VarInit", "VarInit", expect=("postcondition", "assigns"))
    u("C05.Var.VarFreeString", "h_VarFreeString", "VarFreeString")
    u("C05.Var.VarClear.nonstring", "h_VarClear", "VarClear", replace=["VarInit"], expect=("postcondition", "assigns", "assertion"))
    u("C05.Var.VarClear.string", "h_VarClear", "VarClear", replace=["VarInit"], defines=["VERIF_CASE_STRING"], expect=("postcondition", "assigns"))
    u("C05.Var.VarClear.badtype", "h_VarClear", "VarClear", replace=["VarInit"], defines=["VERIF_BADTYPE", "NDEBUG"], expect=("postcondition",))
    u("C05.Var.VarAllocString", "h_VarAllocString", "VarAllocString", unwind=maxn + 2,
      bounded={"strings_shorter_than": maxn, "how": "--unwind %d --unwinding-assertions on strlen/strcpy" % (maxn + 2)})
    u("C05.Var.VarAllocString.when_allocation_succeeds", "h_VarAllocString", "VarAllocString", unwind=maxn + 2, defines=["VERIF_ALLOC_OK"], cbmc_flags=["--no-malloc-may-fail"],
      bounded={"strings_shorter_than": maxn, "how": "--unwind %d --unwinding-assertions on strlen/strcpy; --no-malloc-may-fail" % (maxn + 2)})
    u("C05.Var.VarCopy.dest_nonstring", "h_VarCopy", "VarCopy", replace=["VarAllocString"],
      bounded={"source_strings_shorter_than": maxn, "how": "callee VarAllocString by contract; its contract quantifies over strings shorter than VERIF_MAXN"})
    u("C05.Var.VarCopy.dest_string", "h_VarCopy", "VarCopy", replace=["VarAllocString"], defines=["VERIF_CASE_STRING"],
      bounded={"source_strings_shorter_than": maxn, "how": "callee VarAllocString by contract; its contract quantifies over strings shorter than VERIF_MAXN"})
    return U


def units_F(tier):
    n = 8 if tier == "quick" else 24
    FIF = "src/IPhreeqc_interface_F.cpp"
    return [("C05.fortran.padfstring", lambda: cbmc.extracted_unit("C05.fortran.padfstring", [(FIF, "padfstring", {"kind": "FunctionDecl"})],
             open(core.VERIF + "/harness/A/padfstring.c").read(), "h_padfstring", prelude="#include <string.h>\n", rules=[],
             defines=["VERIF_N=%d" % n], unwind=n + 4, function="padfstring", expect=("assertion",), timeout=900, native=True,
             bounded={"strings_and_buffers_le": n, "how": "--unwind %d --unwinding-assertions" % (n + 4)}))]


def run(tier, seed, only, jobs):
    t0 = time.time()
    from props import c05_table
    from vf.astvc import unit as UB
    UB.TIER.update(tier=tier, seed=seed)
    from props import C09 as _c09
    def _fmt():
        r = _c09.unit_format_retry()
        r.id = "C05.format.fpunchf_helper_complete_output"
        return r
    U = units_A(tier) + units_F(tier) + c05_table.units(tier) + c05_table.units2(tier) + [("C05.format.fpunchf_helper_complete_output", _fmt)]
    from props.common import ext_units as _ext
    U += _ext("C05")
    from props import c05_value as CV
    from props.common import wrap as _wrap
    _wrap(U, "C05.GetSelectedOutputValue.forwards_the_table_cell", CV.unit_get_value)
    _wrap(U, "C05.GetSelectedOutputValue2.type_and_value_of_the_cell", CV.unit_get_value2)
    _wrap(U, "C05.sections.headings_per_item==cells_per_item_on_every_path", CV.unit_sections_counts)
    _wrap(U, "C05.IPhreeqc_EndRow.every_user_punch_heading_gets_a_cell", CV.unit_iphreeqc_endrow)
    _wrap(U, "C05.punch_all.cells_follow_heading_order", CV.unit_punch_order)
    _wrap(U, "C05.rows.end_of_row_signalled_wherever_a_row_is_written", CV.unit_row_end_signalled)
    if only:
        U = [x for x in U if only in x[0]]
    res = core.run_units(U, jobs=jobs)
    return core.finish(PID, tier, seed, "proof", res, t0,
        checker_cmd="goto-cc (C) -> goto-instrument --dfcc --enforce-contract f --replace-call-with-contract g -> cbmc 6.11 (SAT) with bounds/pointer/overflow/conversion checks",
        trusted_base=["cbmc 6.11.0 / goto-instrument dfcc", "CBMC's C library models (malloc, free, strlen, strcpy)",
                      "src/Var.c read as C (the build compiles it as C++; the file is in the common subset)"],
        assumptions=["VarCopy: pvarDest and pvarSrc are distinct objects (contract boundary; self-copy of a string VAR reads freed memory, no caller does it)",
                     "a VAR of type TT_STRING owns its string: separate heap object, not aliased by the other VAR"],
        explanation="Function contracts on the real src/Var.c; bounded units (string contents) are listed apart and not counted in obligations/discharged.")
