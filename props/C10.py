"""C10 — captured state is re-instated unchanged (partial).
(1) writer/reader key symmetry for the RAW classes: every `-key` written by dump_raw resolves (CParser::find_option: lower-case,
first option of which the key is a prefix) to an option whose read_raw case stores into the member that was written, with the
arity written; (2) Serialize/Deserialize push/pop symmetry.  Numeric print/parse fixed point and follow-up runs are NOT decided."""
import time, os, re, json
from vf import core
from vf.core import Undecided, FAILED, DISCHARGED, UNDECIDED
from vf.astvc import ast as A, terms as tm, unit as U

PID = "C10"
D = "src/phreeqcpp/"
CLASSES = [("SS.cxx", "cxxSS"), ("SScomp.cxx", "cxxSScomp"), ("SSassemblage.cxx", "cxxSSassemblage"), ("GasComp.cxx", "cxxGasComp"), ("GasPhase.cxx", "cxxGasPhase"),
           ("PPassemblageComp.cxx", "cxxPPassemblageComp"), ("PPassemblage.cxx", "cxxPPassemblage"), ("ExchComp.cxx", "cxxExchComp"), ("Exchange.cxx", "cxxExchange"),
           ("SurfaceComp.cxx", "cxxSurfaceComp"), ("SurfaceCharge.cxx", "cxxSurfaceCharge"), ("Surface.cxx", "cxxSurface"), ("KineticsComp.cxx", "cxxKineticsComp"),
           ("cxxKinetics.cxx", "cxxKinetics"), ("Solution.cxx", "cxxSolution"), ("SolutionIsotope.cxx", "cxxSolutionIsotope"), ("Reaction.cxx", "cxxReaction"),
           ("Temperature.cxx", "cxxTemperature"), ("Pressure.cxx", "cxxPressure")]   # cxxMix writes no -keys (its RAW block is a plain list)
TRIAGE = os.path.join(core.VERIF, "contracts", "B", "raw_key_triage.json")


def strip(n):
    while n.get("kind") in ("ImplicitCastExpr", "ParenExpr", "CStyleCastExpr", "CXXFunctionalCastExpr", "MaterializeTemporaryExpr", "CXXBindTemporaryExpr", "ExprWithCleanups", "CXXStaticCastExpr") and n.get("inner"):
        n = n["inner"][0]
    return n


def is_shl_chain(n):
    n = strip(n)
    if n.get("kind") == "CXXOperatorCallExpr" and n.get("inner"):
        c = strip(n["inner"][0])
        return c.get("kind") == "DeclRefExpr" and c.get("referencedDecl", {}).get("name") == "operator<<"
    return False


def flatten_shl(n):
    """operands of a << b << c ... in order (the stream first)"""
    n = strip(n)
    if is_shl_chain(n):
        return flatten_shl(n["inner"][1]) + [n["inner"][2]]
    return [n]


def this_member(n):
    """name of the data member of *this an expression reads (first MemberExpr on this found), or None; an element of an array
    member selected by an integer literal is named member[k] (capacitance[0] and capacitance[1] are different values)"""
    def find(x, parent):
        if x.get("kind") == "MemberExpr" and x.get("inner") and strip(x["inner"][0]).get("kind") == "CXXThisExpr" and "referencedMemberDecl" in x:
            if "bound member function" not in x.get("type", {}).get("qualType", ""):
                nm = x.get("name")
                p = parent
                while p is not None and p[0].get("kind") in ("ImplicitCastExpr", "ParenExpr"):
                    p = p[1]
                if p is not None and p[0].get("kind") == "ArraySubscriptExpr" and len(p[0].get("inner", [])) == 2:
                    k = A.const_int(strip(p[0]["inner"][1]))
                    if k is not None:
                        nm = "%s[%d]" % (nm, k)
                return nm
        for c in x.get("inner", []) or []:
            if isinstance(c, dict):
                got = find(c, (x, parent))
                if got is not None:
                    return got
        return None
    return find(n, None)


def literal_text(n):
    n = strip(n)
    if n.get("kind") == "StringLiteral":
        v = n.get("value", "")
        try:
            return json.loads(v)
        except Exception:
            return v.strip('"')
    return None


def writer_keys(fn):
    """[(key, [member names written after it], n_values, heading, line)] in source order"""
    out = []
    heading = ""
    def visit(n):
        nonlocal heading
        if is_shl_chain(n):
            ops = flatten_shl(n)
            lits = [(i, literal_text(o)) for i, o in enumerate(ops)]
            for i, t in lits:
                if t is not None and t.lstrip().startswith("#"):
                    heading = t.strip()
            keypos = [(i, t) for i, t in lits if t is not None and re.match(r"^\s*-\w", t)]
            if keypos:
                i, t = keypos[0]
                key = t.strip()[1:].split()[0]
                vals = [o for o in ops[i + 1:] if literal_text(o) is None]
                # values whose text is only indentation / separators do not count
                vals = [o for o in vals if not (strip(o).get("kind") == "DeclRefExpr" and "indent" in str(strip(o).get("referencedDecl", {}).get("name", "")))]
                mems = [this_member(o) for o in vals]
                out.append((key, mems, len(vals), heading, (n.get("range", {}).get("begin", {}) or {}).get("line")))
            return
        for c in n.get("inner", []) or []:
            if isinstance(c, dict) and c.get("kind"):
                visit(c)
    visit(fn)
    return out


def vopts_list(rel, cls):
    docs = A.dump(rel, "temp_vopts")
    best = None
    for d in docs:
        if d.get("kind") == "VarDecl" and d.get("name") == "temp_vopts":
            best = d
    if best is None:
        return []
    return [literal_text(x) for x in A.walk(best) if x.get("kind") == "StringLiteral"]


def reader_cases(fn):
    """case index -> {'members': set of members stored into, 'extractions': count of >> operands, 'error': bool}"""
    cases = {}
    sw = [x for x in A.walk(fn) if x.get("kind") == "SwitchStmt"]
    if not sw:
        raise Undecided("no switch in read_raw")
    body = sw[0]["inner"][-1]
    cur = []
    def finish(labels, stmts):
        mem, nex, err = set(), 0, False
        extracted = set()
        uncond = set()
        def walk_uncond(n, guarded):
            k_ = n.get("kind")
            if k_ in ("BinaryOperator", "CompoundAssignOperator") and n.get("opcode") == "=" and not guarded:
                m_ = this_member(n["inner"][0])
                if m_: uncond.add(m_)
            for c_ in n.get("inner", []) or []:
                if isinstance(c_, dict):
                    walk_uncond(c_, guarded or k_ in ("IfStmt", "ConditionalOperator", "ForStmt", "WhileStmt"))
        for s0 in stmts:
            walk_uncond(s0, False)
        ntok = [0]; optional = [False]
        def in_loop(root, node):
            # is `node` inside a loop statement below root?
            def rec(n, inl):
                if n is node:
                    return inl
                for c in n.get("inner", []) or []:
                    if isinstance(c, dict):
                        r_ = rec(c, inl or n.get("kind") in ("ForStmt", "WhileStmt", "DoStmt"))
                        if r_ is not None:
                            return r_
                return None
            return bool(rec(root, False))
        for s in stmts:
            for x in A.walk(s):
                k = x.get("kind")
                if k == "CXXOperatorCallExpr" and x.get("inner"):
                    c = strip(x["inner"][0])
                    nm = c.get("referencedDecl", {}).get("name") if c.get("kind") == "DeclRefExpr" else None
                    if nm == "operator>>":
                        nex += 1
                        if not in_loop(s, x):
                            ntok[0] += 1
                        m = this_member(x["inner"][2]) if len(x["inner"]) > 2 else None
                        if m: mem.add(m); extracted.add(m)
                    elif nm == "operator=" and len(x["inner"]) > 1:
                        m = this_member(x["inner"][1])
                        if m: mem.add(m)
                    elif nm == "operator[]" and len(x["inner"]) > 1:
                        m = this_member(x["inner"][1])
                        if m: mem.add(m)
                if k in ("BinaryOperator", "CompoundAssignOperator") and x.get("opcode", "").endswith("="):
                    if x.get("opcode") in ("=", "+=", "-=", "*=", "/="):
                        m = this_member(x["inner"][0])
                        if m: mem.add(m)
                if k == "CXXMemberCallExpr" and x.get("inner"):
                    me = strip(x["inner"][0])
                    if me.get("kind") == "MemberExpr":
                        mname = me.get("name")
                        m = this_member(me["inner"][0]) if me.get("inner") else None
                        if m and mname in ("read_raw", "push_back", "insert", "clear", "read", "assign", "add", "resize", "Set_name", "erase"):
                            mem.add(m)
                        if mname in ("copy_token", "get_iss") and not in_loop(s, x):
                            ntok[0] += 1 if mname == "copy_token" else 0
                        if mname == "peek_token":
                            optional[0] = True
                        if mname == "error_msg":
                            txt = " ".join(str(literal_text(y)) for y in A.walk(x) if y.get("kind") == "StringLiteral")
                            if re.search(r"obsolete|Unknown input|not used|no longer", txt, re.I):
                                err = True
        for lb in labels:
            cases[lb] = {"members": mem, "extractions": nex, "error": err, "tokens": 0 if optional[0] else ntok[0], "extracted": extracted, "uncond": uncond}
    labels, stmts = [], []
    def add(node, lbls):
        k = node.get("kind")
        if k == "CaseStmt":
            v = A.const_int(node["inner"][0])
            add(node["inner"][-1], lbls + [v])
        elif k == "DefaultStmt":
            add(node["inner"][-1], lbls + ["default"])
        else:
            nonlocal labels, stmts
            if lbls:
                if labels:
                    # fall-through from previous labels when no break seen yet
                    pass
                if stmts or labels:
                    finish(labels, stmts)
                labels, stmts = lbls, []
            stmts.append(node)
    for c in body.get("inner", []):
        add(c, [])
    if labels:
        finish(labels, stmts)
    return cases


def resolve(key, vopts):
    t = key.lower()
    for i, o in enumerate(vopts):
        if o is not None and o.find(t) == 0:
            return i
    return -1


def unit_key_symmetry(rel, cls, twin=False):
    path = D + rel
    fw = A.find_function(path, cls + "::dump_raw")
    fr = A.find_function(path, cls + "::read_raw")
    r = core.UnitResult("C10.keys." + cls, file=path, function="%s::dump_raw / read_raw" % cls, engine=U.ENGINE, proved_kind="structural")
    r.sha = core.sha256_text(U.new_unit("x", path, "w", fw).sha + U.new_unit("x", path, "r", fr).sha)
    vopts = vopts_list(path, cls)
    if twin:
        vopts = ["verif_twin_"] + vopts[:-1]
    wk = writer_keys(fw)
    cases = reader_cases(fr)
    triage = json.load(open(TRIAGE)) if os.path.exists(TRIAGE) else {}
    tri = triage.get(cls, {})
    n = 0
    for key, mems, nvals, heading, line in wk:
        n += 1
        idx = resolve(key, vopts)
        oname = "key[-%s]" % key
        if key in tri:
            r.add(oname + ".triaged", DISCHARGED, "exemption", 0, "EXEMPT (assumption): " + tri[key], kind="exempt")
            continue
        if idx < 0:
            r.add(oname + ".readable(resolves_to_an_option)", FAILED, "ast-scan", 0, "no option has this key as a prefix"); continue
        opt = vopts[idx]
        c = cases.get(idx)
        if c is None:
            r.add(oname + ".readable(option_has_a_case)", FAILED, "ast-scan", 0, "resolves to option %d '%s' which has no case in read_raw" % (idx, opt)); continue
        if c["error"]:
            r.add(oname + ".readable(not_an_error_arm)", FAILED, "ast-scan", 0, "resolves to option %d '%s' whose case reports obsolete/unknown input" % (idx, opt)); continue
        exact = (opt == key.lower())
        r.add(oname + ".readable", DISCHARGED, "ast-scan", 0, "option %d '%s'%s" % (idx, opt, "" if exact else " (prefix match)"))
        if nvals == 0 and (c["tokens"] > 0):
            r.add(oname + ".arity", FAILED, "ast-scan", 0, "the writer prints no value after the key but the case of option '%s' requires a token on the same line" % opt)
        wm = {m for m in mems if m}
        workspace = "workspace" in heading.lower()
        if wm:
            same = bool(wm & c["members"]) or not c["members"]
            if same:
                r.add(oname + ".same_member", DISCHARGED, "ast-scan", 0, "written %s, case stores %s" % (sorted(wm), sorted(c["members"])))
                # the value on the line is extracted INTO a member the writer printed after this key (not into a neighbour that merely
                # also appears in the case, e.g. in its error arm)
                exm = c.get("extracted") or set()
                if exm and len(wm) == 1:
                    r.add(oname + ".value_extracted_into_the_member_written", DISCHARGED if (wm & exm) else FAILED, "ast-scan", 0, "written %s, extracted into %s" % (sorted(wm), sorted(exm)))
            else:
                r.add(oname + ".same_member", FAILED, "ast-scan", 0, "the line prints %s but option '%s' stores into %s" % (sorted(wm), opt, sorted(c["members"])))
    # reading one key does not unconditionally overwrite a member that the writer prints under ANOTHER key (else the order of the keys in the
    # dump decides what survives the read-back)
    written = {}
    for key, mems, nvals, heading, line in wk:
        for m_ in mems:
            if m_:
                written.setdefault(m_, key)
    for key, mems, nvals, heading, line in wk:
        idx = resolve(key, vopts)
        c = cases.get(idx) if idx >= 0 else None
        if not c:
            continue
        own = {m_ for m_ in mems if m_}
        foreign = sorted(m_ for m_ in c.get("uncond", ()) if m_ in written and m_ not in own and written[m_] != key and not m_.endswith("_defined"))
        if own:
            r.add("key[-%s].does_not_overwrite_a_member_dumped_under_another_key" % key, DISCHARGED if not foreign else FAILED, "ast-scan", 0, "unconditional stores to %s" % foreign if foreign else "")
    r.add("reach.keys_found", DISCHARGED if n >= 1 else UNDECIDED, "ast-scan", 0, "%d keys written, %d options, %d cases" % (n, len(vopts), len(cases)), kind="vacuity")
    r.assumptions += ["the reader resolves a key as CParser::find_option does: lower-case, first option of which the key is a prefix",
                      "members are matched by name; sub-objects (totals.dump_raw / read_raw) by the member they are called on"]
    return r


def unit_defined_flags(rel, cls, twin=False):
    """read_raw's completeness check: every local flag <m>_defined that the final `if (check)` block tests is set to true in a
    case that reads member <m> (otherwise a complete block is rejected as incomplete, or an incomplete one accepted)."""
    path = D + rel
    fn = A.find_function(path, cls + "::read_raw")
    r = core.UnitResult("C10.defined_flags." + cls, file=path, function=cls + "::read_raw", engine=U.ENGINE, proved_kind="structural")
    r.sha = U.new_unit("x", path, "r", fn).sha
    flags = {x["name"]: x["id"] for x in A.walk(fn) if x.get("kind") == "VarDecl" and str(x.get("name", "")).endswith("_defined") and x.get("type", {}).get("qualType") == "bool"}
    # flags tested after the loop (used in a condition outside the switch)
    sw = [x for x in A.walk(fn) if x.get("kind") == "SwitchStmt"]
    in_switch = set()
    if sw:
        for x in A.walk(sw[0]):
            in_switch.add(id(x))
    tested = set()
    for x in A.walk(fn):
        if x.get("kind") == "IfStmt" and id(x) not in in_switch:
            for y in A.walk(x["inner"][0]):
                if y.get("kind") == "DeclRefExpr" and y.get("referencedDecl", {}).get("id") in flags.values():
                    tested.add(y["referencedDecl"]["name"])
    if twin:
        tested.add("verif_twin_defined"); flags["verif_twin_defined"] = "none"
    # where is each flag set?  walk the cases
    sets = {}
    if sw:
        body = sw[0]["inner"][-1]
        cur_labels, cur = [], []
        seq = []
        def add(node, lbls):
            k = node.get("kind")
            if k == "CaseStmt":
                add(node["inner"][-1], lbls + [[y.get("referencedDecl", {}).get("name") for y in A.walk(node["inner"][0]) if y.get("kind") == "DeclRefExpr"] or A.const_int(node["inner"][0])])
            elif k == "DefaultStmt":
                add(node["inner"][-1], lbls + ["default"])
            else:
                seq.append((lbls, node))
        for c in body.get("inner", []):
            add(c, [])
        groups = []
        for lbls, node in seq:
            if lbls or not groups:
                groups.append([])
            groups[-1].append(node)
        for g in groups:
            mem = set()
            setf = set()
            for node in g:
                for x in A.walk(node):
                    if x.get("kind") == "BinaryOperator" and x.get("opcode") == "=" and strip(x["inner"][0]).get("kind") == "DeclRefExpr":
                        nm = strip(x["inner"][0])["referencedDecl"].get("name")
                        if nm in flags:
                            setf.add(nm)
                    if x.get("kind") == "CXXOperatorCallExpr" and x.get("inner"):
                        c = strip(x["inner"][0])
                        if c.get("kind") == "DeclRefExpr" and c.get("referencedDecl", {}).get("name") == "operator>>" and len(x["inner"]) > 2:
                            m = this_member(x["inner"][2])
                            if m: mem.add(m)
                    if x.get("kind") == "CXXMemberCallExpr" and x.get("inner"):
                        me = strip(x["inner"][0])
                        if me.get("kind") == "MemberExpr" and me.get("inner"):
                            m = this_member(me["inner"][0])
                            if m: mem.add(m)
                    if x.get("kind") in ("BinaryOperator",) and x.get("opcode") == "=":
                        m = this_member(x["inner"][0])
                        if m: mem.add(m)
            for f in setf:
                sets.setdefault(f, []).append(mem)
    def norm(x): return x.lower().replace("_", "").replace("[", "").replace("]", "")
    for f in sorted(tested):
        base = f[:-len("_defined")]
        where = sets.get(f, [])
        ok = bool(where) and (any(any(norm(base) in norm(m) or norm(m) in norm(base) for m in mem) for mem in where) or any(not mem for mem in where))
        r.add("flag[%s].set_where_member_%s_is_read" % (f, base), DISCHARGED if ok else FAILED, "ast-scan", 0,
              "set in cases storing %s" % [sorted(m) for m in where] if where else "never set to true in any case", kind="structure")
    r.add("reach.flags", DISCHARGED if tested else UNDECIDED, "ast-scan", 0, "%d flags tested by the completeness check" % len(tested), kind="vacuity")
    return r


SER_CLASSES = [("GasComp.cxx", "cxxGasComp"), ("GasPhase.cxx", "cxxGasPhase"), ("ExchComp.cxx", "cxxExchComp"), ("Exchange.cxx", "cxxExchange"),
               ("KineticsComp.cxx", "cxxKineticsComp"), ("cxxKinetics.cxx", "cxxKinetics"), ("PPassemblageComp.cxx", "cxxPPassemblageComp"),
               ("PPassemblage.cxx", "cxxPPassemblage"), ("SScomp.cxx", "cxxSScomp"), ("SS.cxx", "cxxSS"), ("SSassemblage.cxx", "cxxSSassemblage"),
               ("SurfaceComp.cxx", "cxxSurfaceComp"), ("SurfaceCharge.cxx", "cxxSurfaceCharge"), ("Surface.cxx", "cxxSurface"),
               ("SolutionIsotope.cxx", "cxxSolutionIsotope"), ("Solution.cxx", "cxxSolution"), ("Temperature.cxx", "cxxTemperature"), ("Pressure.cxx", "cxxPressure")]


def param_names(fn):
    return [p.get("name") for p in A.params_of(fn)]


def refers_to(n, names):
    return [y["referencedDecl"].get("name") for y in A.walk(n) if y.get("kind") == "DeclRefExpr" and y.get("referencedDecl", {}).get("name") in names]


def ser_sequence(fn):
    """source-order sequence of (channel, member) produced by Serialize: channel in ints/doubles/sub"""
    seq = []
    def visit(n):
        k = n.get("kind")
        if k == "CXXMemberCallExpr" and n.get("inner"):
            me = strip(n["inner"][0])
            if me.get("kind") == "MemberExpr":
                recv = me["inner"][0] if me.get("inner") else {}
                if me.get("name") == "push_back":
                    ch = refers_to(recv, ("ints", "doubles"))
                    if ch:
                        seq.append((ch[0], this_member(n["inner"][1]) if len(n["inner"]) > 1 else None, (n.get("range", {}).get("begin", {}) or {}).get("line")))
                        return
                if me.get("name") == "Serialize":
                    seq.append(("sub", this_member(recv), None))
                    return
        for c in n.get("inner", []) or []:
            if isinstance(c, dict) and c.get("kind"):
                visit(c)
    visit(A.body_of(fn))
    return seq


def deser_sequence(fn):
    seq = []
    def reads(n):
        out = []
        for y in A.walk(n):
            if y.get("kind") in ("CXXOperatorCallExpr", "ArraySubscriptExpr"):
                ch = refers_to(y["inner"][1] if y.get("kind") == "CXXOperatorCallExpr" and len(y.get("inner", [])) > 1 else y, ("ints", "doubles"))
                idx = refers_to(y, ("ii", "dd"))
                if ch and idx and (y.get("kind") != "CXXOperatorCallExpr" or (strip(y["inner"][0]).get("referencedDecl", {}).get("name") == "operator[]" and refers_to(y["inner"][1], ("ints", "doubles")))):
                    out.append(ch[0])
        return out
    def visit(n):
        k = n.get("kind")
        if k == "CXXMemberCallExpr" and n.get("inner"):
            me = strip(n["inner"][0])
            if me.get("kind") == "MemberExpr" and me.get("name") == "Deserialize":
                recv = me["inner"][0] if me.get("inner") else {}
                seq.append(("sub", this_member(recv), None)); return
        tgt = None
        if k == "BinaryOperator" and n.get("opcode") == "=":
            tgt, rhs = n["inner"][0], n["inner"][1]
        elif k == "CXXOperatorCallExpr" and n.get("inner") and strip(n["inner"][0]).get("referencedDecl", {}).get("name") == "operator=" and len(n["inner"]) > 2:
            tgt, rhs = n["inner"][1], n["inner"][2]
        elif k == "VarDecl" and n.get("init") and n.get("inner"):
            tgt, rhs = n, n["inner"][0]
        if tgt is not None:
            rd = (reads(tgt) if tgt.get("kind") != "VarDecl" else []) + reads(rhs)
            if rd:
                m = this_member(tgt) if tgt.get("kind") != "VarDecl" else None
                for ch in rd:
                    seq.append((ch, m, (n.get("range", {}).get("begin", {}) or {}).get("line")))
                return
        if k == "CXXMemberCallExpr" and n.get("inner"):
            me = strip(n["inner"][0])
            if me.get("kind") == "MemberExpr" and me.get("name") in ("push_back", "insert") and len(n["inner"]) > 1:
                rd = reads(n["inner"][1])
                if rd:
                    seq.append((rd[0], this_member(me["inner"][0]) if me.get("inner") else None, None)); return
        for c in n.get("inner", []) or []:
            if isinstance(c, dict) and c.get("kind"):
                visit(c)
    visit(A.body_of(fn))
    return seq


def unit_serialize_roundtrip(rel, cls, twin=False):
    """Deserialize(Serialize(x)) = x, structural core: the sequence of (channel, member) pushed by Serialize equals the sequence
    popped by Deserialize - same channel (ints/doubles/sub-object) at every position, and the same member wherever both name one."""
    path = D + rel
    fs = A.find_function(path, cls + "::Serialize")
    fd = A.find_function(path, cls + "::Deserialize")
    r = core.UnitResult("C10.serialize." + cls, file=path, function="%s::Serialize / Deserialize" % cls, engine=U.ENGINE, proved_kind="structural")
    r.sha = core.sha256_text(U.new_unit("x", path, "s", fs).sha + U.new_unit("x", path, "d", fd).sha)
    a, b = ser_sequence(fs), deser_sequence(fd)
    if twin and len(b) > 1:
        b = [b[1], b[0]] + b[2:] if b[0][:2] != b[1][:2] else b[:-1]
    r.add("same_number_of_values_pushed_and_popped", DISCHARGED if len(a) == len(b) else FAILED, "ast-scan", 0, "Serialize pushes %d, Deserialize pops %d" % (len(a), len(b)), kind="structure")
    for i, (x, y) in enumerate(zip(a, b)):
        okc = x[0] == y[0]
        okm = (x[1] is None or y[1] is None or x[1] == y[1])
        r.add("pos%02d.%s:%s" % (i, x[0], x[1] or y[1] or "?"), DISCHARGED if okc and okm else FAILED, "ast-scan", 0,
              "" if okc and okm else "Serialize pushes %s of %s (line %s); Deserialize pops %s into %s (line %s)" % (x[0], x[1], x[2], y[0], y[1], y[2]), kind="structure")
    r.add("reach.values", DISCHARGED if len(a) >= 1 else UNDECIDED, "ast-scan", 0, "%d" % len(a), kind="vacuity")
    r.assumptions.append("Dictionary: GetWords()[Find(s)] = s; loops push/pop count-prefixed element sequences (the loop bodies are compared position by position, the counts as values)")
    return r


def unit_serializer_tags(twin=False):
    """Serializer::Serialize: each reactant kind is written under its own tag from its own map; temperature is gated by include_t
    and pressure by include_p, the others are not gated.  Serializer::Deserialize stores each tag into the same kind's map."""
    path = D + "Serializer.cxx"
    fs = A.find_function(path, "Serializer::Serialize")
    fd = A.find_function(path, "Serializer::Deserialize")
    r = core.UnitResult("C10.serializer.tags", file=path, function="Serializer::Serialize / Deserialize", engine=U.ENGINE, proved_kind="structural")
    r.sha = core.sha256_text(U.new_unit("x", path, "s", fs).sha + U.new_unit("x", path, "d", fd).sha)
    want = {"PT_SOLUTION": ("solution", None), "PT_EXCHANGE": ("exchange", None), "PT_GASPHASE": ("gas_phase", None), "PT_KINETICS": ("kinetics", None),
            "PT_PPASSEMBLAGE": ("pp_assemblage", None), "PT_SSASSEMBLAGE": ("ss_assemblage", None), "PT_SURFACES": ("surface", None),
            "PT_TEMPERATURE": ("temperature", "include_t"), "PT_PRESSURE": ("pressure", "include_p" if not twin else "include_t")}
    found = {}
    var_getter = {}
    for v in A.walk(fs):
        if v.get("kind") == "VarDecl" and v.get("init"):
            gs = [strip(y["inner"][0]).get("name") for y in A.walk(v) if y.get("kind") == "CXXMemberCallExpr" and strip(y["inner"][0]).get("kind") == "MemberExpr" and str(strip(y["inner"][0]).get("name", "")).startswith("Get_Rxn_")]
            if gs:
                var_getter[v["id"]] = gs
    def visit(n, gates, maps_ctx):
        k = n.get("kind")
        if k == "IfStmt":
            g = refers_to(n["inner"][0], ("include_t", "include_p"))
            vs = [var_getter[y["referencedDecl"]["id"]] for y in A.walk(n["inner"][0]) if y.get("kind") == "DeclRefExpr" and y.get("referencedDecl", {}).get("id") in var_getter]
            if vs:
                maps_ctx = vs[0]
            for c in n["inner"][1:]:
                visit(c, gates + g, maps_ctx)
            # the condition itself may hold the map lookup in the variable-declaring form; handle below
            return
        if k == "CompoundStmt":
            for c in n.get("inner", []):
                visit(c, gates, maps_ctx)
            return
        if k == "CXXMemberCallExpr" and strip(n["inner"][0]).get("name") == "push_back":
            tags = [y["referencedDecl"]["name"] for y in A.walk(n) if y.get("kind") == "DeclRefExpr" and str(y.get("referencedDecl", {}).get("name", "")).startswith("PT_")]
            if tags:
                found[tags[0]] = (list(gates), list(maps_ctx))
        for c in n.get("inner", []) or []:
            if isinstance(c, dict) and c.get("kind") and k not in ("IfStmt", "CompoundStmt"):
                visit(c, gates, maps_ctx)
    body = A.body_of(fs)
    loop = [x for x in body.get("inner", []) if x.get("kind") == "ForStmt"]
    for blk in (loop[0]["inner"][-1].get("inner", []) if loop else []):
        visit(blk, [], [])
    for tag, (kind, gate) in want.items():
        f = found.get(tag)
        if f is None:
            r.add("write[%s].present" % tag, FAILED, "ast-scan", 0, "tag never written", kind="structure"); continue
        gates, maps = f
        okm = any(("Get_Rxn_%s_map" % kind) == m for m in maps) and not any(m != "Get_Rxn_%s_map" % kind for m in maps)
        r.add("write[%s].taken_from_%s_map" % (tag, kind), DISCHARGED if okm else FAILED, "ast-scan", 0, repr(maps), kind="structure")
        okg = (gates == [gate]) if gate else (gates == [])
        r.add("write[%s].gated_by_%s" % (tag, gate or "nothing"), DISCHARGED if okg else FAILED, "ast-scan", 0, "gates %s" % gates, kind="structure")
    # Deserialize: case PT_X: ... Get_Rxn_X_map()[...] = entity
    for cs in [x for x in A.walk(fd) if x.get("kind") == "CaseStmt"]:
        tags = [y["referencedDecl"]["name"] for y in A.walk(cs["inner"][0]) if y.get("kind") == "DeclRefExpr" and str(y.get("referencedDecl", {}).get("name", "")).startswith("PT_")]
        if not tags or tags[0] not in want:
            continue
        maps = {strip(y["inner"][0]).get("name") for y in A.walk(cs) if y.get("kind") == "CXXMemberCallExpr" and strip(y["inner"][0]).get("kind") == "MemberExpr" and str(strip(y["inner"][0]).get("name", "")).startswith("Get_Rxn_")}
        kind = want[tags[0]][0]
        ok = maps == {"Get_Rxn_%s_map" % kind}
        r.add("read[%s].stored_into_%s_map" % (tags[0], kind), DISCHARGED if ok else FAILED, "ast-scan", 0, repr(sorted(maps)), kind="structure")
    r.add("reach.tags", DISCHARGED if len(found) >= 9 else UNDECIDED, "ast-scan", 0, "%d tags written" % len(found), kind="vacuity")
    return r


def unit_nested_protocol(twin=False):
    """A component reader called from inside another class's read_raw case must hand control back on the first option it does
    not know (no error, opt = OPT_KEYWORD), and the caller must re-dispatch that line (getOptionFromLastLine); otherwise every
    key the parent writes AFTER the component block is swallowed as an error and the dumped block cannot be read back."""
    r = core.UnitResult("C10.nested_reader_protocol", file=D + "*.cxx", function="read_raw of component classes and their callers", engine=U.ENGINE, proved_kind="structural")
    shas = []
    fns = {}
    for rel, cls in CLASSES:
        try:
            fns[cls] = (D + rel, A.find_function(D + rel, cls + "::read_raw"))
        except Undecided:
            continue
    nested = {}
    for cls, (rel, fn) in fns.items():
        for x in A.walk(fn):
            if x.get("kind") == "CXXMemberCallExpr" and x.get("inner"):
                me = strip(x["inner"][0])
                if me.get("kind") == "MemberExpr" and me.get("name") == "read_raw" and me.get("inner"):
                    t = me["inner"][0].get("type", {}).get("qualType", "").replace("const ", "").strip()
                    if t in fns and t != cls:
                        nested.setdefault(t, set()).add(cls)
    for t, parents in sorted(nested.items()):
        rel, fn = fns[t]
        shas.append(U.new_unit("x", rel, "r", fn).sha)
        sw = [x for x in A.walk(fn) if x.get("kind") == "SwitchStmt"]
        ok, why = False, "no default arm found"
        if sw:
            cases = reader_cases(fn)
            # the statements under the OPT_DEFAULT / OPT_ERROR labels: located through the enumerators' values (-4/-3 style negative labels)
            body = sw[0]["inner"][-1]
            arm = None
            def find(node):
                nonlocal arm
                if node.get("kind") == "CaseStmt":
                    names = [y.get("referencedDecl", {}).get("name") for y in A.walk(node["inner"][0]) if y.get("kind") == "DeclRefExpr"]
                    if "OPT_ERROR" in names or "OPT_DEFAULT" in names:
                        arm = node
                for c in node.get("inner", []) or []:
                    if isinstance(c, dict) and arm is None:
                        find(c)
            find(body)
            if arm is not None:
                # statements of the arm = following siblings until break: approximate by the text range of the next 6 statements
                sib = body.get("inner", [])
                idx = None
                for i, c in enumerate(sib):
                    if arm in list(A.walk(c)):
                        idx = i
                stmts = [sib[idx]] + sib[idx + 1: idx + 6] if idx is not None else []
                cut = []
                for s_ in stmts:
                    cut.append(s_)
                    if s_.get("kind") in ("BreakStmt", "ContinueStmt") and s_ is not stmts[0]:
                        break
                    if s_.get("kind") == "CaseStmt" and s_ is not stmts[0] and arm not in list(A.walk(s_)):
                        cut.pop(); break
                errs = [y for s_ in cut for y in A.walk(s_) if y.get("kind") == "CXXMemberCallExpr" and strip(y["inner"][0]).get("name") == "error_msg"]
                kw = [y for s_ in cut for y in A.walk(s_) if y.get("kind") == "DeclRefExpr" and y.get("referencedDecl", {}).get("name") == "OPT_KEYWORD"]
                ok = (not errs) and bool(kw)
                if twin: ok = not ok
                why = "unknown option: %s, opt := OPT_KEYWORD: %s" % ("reported as an error" if errs else "no error", "yes" if kw else "no")
        r.add("component[%s].returns_control_to_%s_on_a_foreign_option" % (t, "/".join(sorted(parents))), DISCHARGED if ok else FAILED, "ast-scan", 0, why, kind="structure")
    r.add("reach.nested_readers", DISCHARGED if len(nested) >= 5 else UNDECIDED, "ast-scan", 0, "%d component readers: %s" % (len(nested), sorted(nested)), kind="vacuity")
    r.sha = core.sha256_text("".join(shas))
    return r


def units(tier):
    us = []
    for rel, cls in CLASSES:
        def g(rel=rel, cls=cls):
            r = unit_key_symmetry(rel, cls)
            tw = unit_key_symmetry(rel, cls, twin=True)
            ok = any(o.status == FAILED for o in tw.obligations)
            r.add("vacuity.must_fail_twin", DISCHARGED if ok else UNDECIDED, "twin", 0, "shifting the option table breaks an obligation" if ok else "twin verifies", kind="vacuity")
            return r
        us.append(("C10.keys." + cls, g))
    for rel, cls in CLASSES:
        def df(rel=rel, cls=cls):
            r = unit_defined_flags(rel, cls)
            if not any(o.kind == "structure" for o in r.obligations):
                # class without a completeness check: nothing to prove, not vacuous
                r.obligations = [o for o in r.obligations if o.kind != "vacuity"]
                r.add("no_completeness_flags", DISCHARGED, "ast-scan", 0, "read_raw tests no *_defined flag after its loop", kind="structure")
                return r
            tw = unit_defined_flags(rel, cls, twin=True)
            ok = any(o.status == FAILED and "verif_twin" in o.name for o in tw.obligations)
            r.add("vacuity.must_fail_twin", DISCHARGED if ok else UNDECIDED, "twin", 0, "", kind="vacuity")
            return r
        us.append(("C10.defined_flags." + cls, df))
    for rel, cls in SER_CLASSES:
        def sr(rel=rel, cls=cls):
            r = unit_serialize_roundtrip(rel, cls)
            tw = unit_serialize_roundtrip(rel, cls, twin=True)
            ok = any(o.status == FAILED for o in tw.obligations)
            r.add("vacuity.must_fail_twin", DISCHARGED if ok else UNDECIDED, "twin", 0, "", kind="vacuity")
            return r
        us.append(("C10.serialize." + cls, sr))
    def st():
        r = unit_serializer_tags()
        tw = unit_serializer_tags(twin=True)
        ok = any(o.status == FAILED for o in tw.obligations)
        r.add("vacuity.must_fail_twin", DISCHARGED if ok else UNDECIDED, "twin", 0, "", kind="vacuity")
        return r
    us.append(("C10.serializer.tags", st))
    def n():
        r = unit_nested_protocol()
        tw = unit_nested_protocol(twin=True)
        ok = any(o.status == FAILED for o in tw.obligations)
        r.add("vacuity.must_fail_twin", DISCHARGED if ok else UNDECIDED, "twin", 0, "", kind="vacuity")
        return r
    us.append(("C10.nested_reader_protocol", n))
    from props import c14_merge as MG
    from props.common import wrap as _wrap
    _wrap(us, "C10.merge_redox.removes_exactly_the_conflicting_entries", MG.unit_merge_redox, "C10")
    from props import c10_more as MO
    _wrap(us, "C10.read_raw.list_options_clear_their_vector_once", MO.unit_clear_once)
    _wrap(us, "C10.do_run.dump_string_uses_the_run's_dump_request", MO.unit_dump_string_request)
    return us


def run(tier, seed, only, jobs):
    t0 = time.time()
    U.TIER.update(tier=tier, seed=seed)
    us = units(tier)
    from props.common import ext_units as _ext
    us += _ext("C10")
    if only:
        us = [x for x in us if only in x[0]]
    res = core.run_units(us, jobs=jobs)
    return core.finish(PID, tier, seed, "other", res, t0,
        checker_cmd="astvc: clang AST of each RAW class -> generated writer/reader obligations per dumped key (term inspection)",
        trusted_base=["clang 14 AST", "astvc (vf/astvc)"],
        assumptions=["CParser::find_option semantics as read from Parser.cxx"],
        explanation="Generated structural obligations: one per `-key` written by dump_raw of each RAW class (readable; same member). level 'other': AST facts, not a solver proof. "
                    "Numeric print/parse fixed point at DBL_DIG-1 digits, read_raw cross-field logic and follow-up calculations are not decided.")
