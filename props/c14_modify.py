"""C14 (added after round-2 seeds): (a) *_MODIFY changes only the named quantities of a named component: every RAW reader that parses
a sub-component block starts from the stored component of that name when there is one (and from a fresh one otherwise), then stores
the result under that name; (b) StorageBinList::Read (DELETE / DUMP / ...) forgets the -cell numbers of the previous block."""
import re, glob, os
from props.common import *
from vf.core import FAILED, DISCHARGED, UNDECIDED, REPO
from vf import callsites as CS


def unit_modify_starts_from_stored(twin=False):
    r = U.new_unit("C14.read_raw.component_blocks_start_from_the_stored_component", "src/phreeqcpp/PPassemblage.cxx", "cxxPPassemblage::read_raw", None, kind="structural")
    n = 0
    for path in sorted(glob.glob(os.path.join(REPO, "src/phreeqcpp/*.cxx"))):
        rel = os.path.relpath(path, REPO)
        txt = open(path, encoding="latin1").read()
        if not re.search(r"temp_\w+\.read_raw\(parser, (check|false)\)", txt):
            continue
        for q, _ in CS.enclosing_functions(rel, ".read_raw(parser, "):
            if not q.endswith("::read_raw"):
                continue
            fn = A.find_function(rel, q)
            for blk in A.walk(fn):
                if blk.get("kind") != "CompoundStmt":
                    continue
                stmts = [text_of(rel, x) for x in blk.get("inner", [])]
                idx = [i for i, t in enumerate(stmts) if re.match(r"^temp_\w+\.read_raw\(parser,(check|false)\)$", t)]
                if not idx:
                    continue
                i = idx[0]
                var = stmts[i].split(".")[0]
                before = "".join(stmts[:i])
                n += 1
                looked = re.search(r"\*?\w+=this->Find\w*\(str(\.c_str\(\))?\);?", before)
                copied = re.search(r"if\(\w+\)\{%s=\*\w+;\}" % re.escape(var), before)
                ok = bool(looked and copied)
                if twin and n == 1:
                    ok = False
                r.add("%s.%s.starts_from_the_stored_component_when_present" % (q.split("::")[0], var), DISCHARGED if ok else FAILED, "syntactic", 0, before[-200:])
    r.add("reach.component_blocks", DISCHARGED if n >= 6 else UNDECIDED, "syntactic", 0, "%d sub-component parse sites" % n, kind="vacuity")
    r.assumptions += ["text anchors on the statements preceding `temp_x.read_raw(parser, ...)` in the same block"]
    return r


def unit_storagebin_read(twin=False):
    rel = "src/phreeqcpp/StorageBinList.cpp"
    fn = A.find_function(rel, "StorageBinList::Read")
    r = U.new_unit("C14.StorageBinList.Read_forgets_previous_cells", rel, "StorageBinList::Read", fn, kind="structural")
    body = A.body_of(fn).get("inner", [])
    pre = []
    for x in body:
        if x.get("kind") == "ForStmt":
            break
        pre.append(text_of(rel, x))
    ok = "this->cell.Clear()" in pre and "this->cell.Set_defined(false)" in pre
    if twin:
        ok = "this->cell.Reset()" in pre
    r.add("cell_list_cleared_and_marked_undefined_before_parsing", DISCHARGED if ok else FAILED, "syntactic", 0, repr(pre[-4:]))
    return r
