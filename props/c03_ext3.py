"""C03 extension units, third batch: exchangers and surfaces tied to a mineral or a kinetic reactant keep  sites == proportion x moles.

* prep.cpp build_min_exch / build_min_surface (there is no build_kin_*: kinetic reactants do not change during a solve): what the solver is told about a
  related component.  For every element e of the component's own formula (coefficient c_e) the mole balance of e - total H / total O for H and O, else the
  unknown of the element's primary master, or of the secondary master of its species when the primary is not in the model; for the site element this is the
  exchange / surface unknown itself - gets the Jacobian entry  +c_e * proportion  in the column of THE mineral's unknown and the delta booking
  -c_e * proportion  from delta[that mineral] (same row, same column, same factor, opposite sign); the charge balance gets formula_z * proportion the same
  way; the site total is (re)set to moles(mineral) * c_site * proportion when it differs; the mineral is the PP unknown whose phase has the component's
  phase_name, the site unknown the EXCH / SURFACE unknown of the component's master species, both searched over ALL unknowns.
* tidy.cpp update_min_exchange / update_kin_exchange / update_min_surface / update_kin_surface: after a redefinition of either partner the totals of
  the component are re-proportioned: every total is multiplied by (new sites) / (old sites), new sites = c_site x moles(partner) x proportion, or rebuilt as
  formula x moles x proportion when the component holds no sites; a surface's charge record (grams, charge balance, layer water, layer totals) is scaled by
  moles(partner) / grams, or started at grams = moles(partner) when it has no grams."""
from props.c01_ext_util import *
from props.c20_ext_util import unstack, K, KI, induction_name
from props.c16_ext import case_split

PREP = "src/phreeqcpp/prep.cpp"
TIDY = "src/phreeqcpp/tidy.cpp"
FUN = ("Get_exchange_ptr", "Get_surface_ptr", "Get_n_user", "Rxn_find", "Get_related_phases", "Get_exchange_comps", "Get_surface_comps", "Get_phase_name", "size", "Get_totals",
       "element_store", "c_str", "strcmp_nocase", "Get_formula_z", "Get_phase_proportion", "Get_formula", "equal", "Get_master_element", "Get_n_exchange_user")


def _c():
    c = stop_on_error_msg(ctx(functional=FUN))
    c.snapshot = {"get_elts_in_species": [("count_elts", "I")]}
    return c


def _short(e):
    return e.name.split("::")[-1]


def _same(hy, a, b):
    a, b = unstack(a), unstack(b)
    if a is b:
        return True
    try:
        if a.sort == "R" and B.sympy_equal(a, b)[0]:
            return True
    except ValueError:
        pass
    return proved(hy, tm.eq(a, b))


class Tally(object):
    def __init__(self, r):
        self.r, self.seen, self.n = r, set(), {}
    def put(self, name, ok, detail="", kind="post"):
        self.n[name] = self.n.get(name, 0) + 1
        if ok and name in self.seen:
            return ok
        if not ok and self.n.get("!" + name, 0) >= 3:
            return ok
        if not ok:
            self.n["!" + name] = self.n.get("!" + name, 0) + 1
        self.seen.add(name)
        self.r.add(name if ok else "%s#%d" % (name, self.n[name]), DISCHARGED if ok else FAILED, "symex+z3", 0, detail[:300] if isinstance(detail, str) else repr(detail)[:300], kind=kind)
        return ok


def _range(r, label, ex, info, iters, lp, first, cond_of):
    """like check_loop_range of props/common.py, but the induction variable is taken from the declaration the loop's own increment refers to
    (two searches of one function may each declare their own `k`)"""
    did = None
    for y in A.walk(lp["inner"][3] or {}):
        if y.get("kind") == "DeclRefExpr" and y.get("referencedDecl", {}).get("kind") in ("VarDecl", "ParmVarDecl"):
            did = y["referencedDecl"]["id"]; name = y["referencedDecl"]["name"]; break
    if did is None:
        r.add(label + ".range", UNDECIDED, "symex", 0, "induction variable not found"); return
    v = tm.sym("iter_" + name, "I")
    conds = [s_.pc[0] for s_ in iters if s_.pc and ("iter_" + name) in repr(s_.pc[0])]
    if not conds:
        r.add(label + ".range", UNDECIDED, "symex", 0, "loop condition not read"); return
    want = cond_of(v)
    okc = proved([want], conds[0]) and proved([conds[0]], want)
    r.add(label + ".runs_while_%s" % repr(want).replace(" ", "")[:60], DISCHARGED if okc else FAILED, "z3", 0, "loop condition %r" % (conds[0],))
    init, cond, inc, body = ex.loop_parts(lp)
    v0 = None
    if init is not None and info.get("entry_state") is not None:
        for s0 in ex.exec(init, [info["entry_state"].clone()]):
            v0 = s0.locals.get(did)
    okv = v0 is not None and not isinstance(v0, tuple) and (v0 is first or proved([], tm.eq(v0, first)))
    r.add(label + ".starts_at_%s" % repr(first).replace(" ", "")[:50], DISCHARGED if okv else FAILED, "z3", 0, "initial value %r" % (v0,))


def _havoc_index(t):
    """the integer search result (a local an inner search loop left) inside an address / element term"""
    hs = sorted({u for u in tm.subterms(unstack(t)) if u.op == "sym" and u.sort == "I" and str(u.args[0]).startswith("havoc_")}, key=repr)
    return hs


def _build_min(kind, twin=False):
    q = "Phreeqc::build_min_" + ("exch" if kind == "exchange" else "surface")
    fn = A.find_function(PREP, q)
    r = U.new_unit("C03.build_min_%s.related_component_enters_jacobian_and_deltas_with_formula_coefficient_x_proportion_on_the_mineral's_column" % ("exch" if kind == "exchange" else "surface"), PREP, q, fn)
    T = Tally(r)
    lps = loops_of(fn)
    outer = loops_with_body(fn, PREP, "store_jacob0(", innermost=False)
    inner = loops_with_body(fn, PREP, "store_jacob0(", innermost=True)
    if len(inner) != 1 or not outer or outer[0] == inner[0]:
        raise Undecided("%s: component loop / element loop not recognised (%r, %r)" % (q, outer, inner))
    k_out, k_el = outer[0], inner[0]
    f, ex, its, info = run_iter(PREP, q, k_out, _c(), inner_modes={"*": "iter"})
    SITE_T = KI("EX") if kind == "exchange" else KI("SURF")
    UNK_T = KI("EXCH") if kind == "exchange" else KI("SURFACE")
    PP, SCB = KI("PP"), KI("SURFACE_CB")
    FALSE_ = tm.num(int(K("FALSE")), "I")
    seen = set()
    xel = lambda s, i: vec_elem(ex, s, "x", i)
    num = lambda s, u: fld0(ex, s, "number", "I", u)
    dvec = lambda s: tm.select(entry_arr(ex, s, ("f", "#vdata", "P")), tm.app("fld:delta", (THIS,), "P"))
    cbu = lambda s: fld0(ex, s, "charge_balance_unknown", "P")

    def comp_of(s):
        g = [e for e in U.iter_events(s) if _short(e) == "Get_phase_name"]
        if not g:
            return None
        cp = g[0].recv
        ok = cp is not None and cp.op == "+" and ("call:Get_%s_comps" % kind) in repr(cp.args[0]) and cp.args[1].op == "sym" and str(cp.args[1].args[0]).startswith("iter_")
        return cp if ok else None

    # ---- the straight-line part of one component
    for s in lives(its, ("run", "cont")):
        evs = U.iter_events(s)
        jac = [e for e in evs if _short(e) == "store_jacob0"]
        sd = [e for e in evs if _short(e) == "store_sum_deltas"]
        ge = [e for e in evs if _short(e) == "get_elts_in_species"]
        comp = comp_of(s)
        if comp is None:
            T.put("component.is_item_i_of_the_%s's_components" % kind, False, repr([e.recv for e in evs if _short(e) == "Get_phase_name"][:1])); continue
        hy = list(s.pc)
        if s.status == "cont" or not (jac or sd or ge):
            seen.add("skipped")
            T.put("component_skipped(no_phase_name_or_unknowns_not_found):nothing_stored", not (jac or sd or ge), repr([_short(e) for e in jac + sd + ge]), kind="frame")
            continue
        seen.add("stored")
        pn = [e for e in evs if _short(e) == "size" and "Get_phase_name" in repr(e.recv)]
        z, prop = tm.app("call:Get_formula_z", (comp,), "R"), tm.app("call:Get_phase_proportion", (comp,), "R")
        cbj = [e for e in jac if _same(hy, e.args[0], num(s, cbu(s)))]
        cbs = [e for e in sd if e.args[1] is tm.app("fld:delta", (cbu(s),), "P")]
        if T.put("charge.one_jacobian_entry_and_one_delta_booking_for_the_charge_balance", len(cbj) == 1 and len(cbs) == 1, "%d/%d" % (len(cbj), len(cbs))):
            kv = _havoc_index(cbs[0].args[0])
            if T.put("charge.source_is_delta[k]_of_the_mineral_found_by_the_search", len(kv) == 1 and _same(hy, cbs[0].args[0], dvec(s) + kv[0]), repr(cbs[0].args[0])):
                T.put("charge.jacobian_column_is_that_mineral's_unknown", _same(hy, cbj[0].args[1], num(s, xel(s, kv[0]))), repr(cbj[0].args[1]))
            want = z * prop if not twin else z
            T.put("charge.jacobian_entry==formula_z*proportion_of_THIS_component", _same(hy, cbj[0].args[2], want), repr(cbj[0].args[2]))
            T.put("charge.delta_booking==-(formula_z*proportion)", _same(hy, cbs[0].args[2], tm.neg(z * prop)), repr(cbs[0].args[2]))
        rest_j = [e for e in jac if e not in cbj]
        rest_s = [e for e in sd if e not in cbs]
        if kind == "surface":
            rel = [e for e in rest_s if e.args[1].op == "app" and e.args[1].args[0] == "fld:related_moles"]
            rest_s = [e for e in rest_s if e not in rel]
            jv = [h for e in rel for h in _havoc_index(e.args[1])]
            kv = _havoc_index(cbs[0].args[0]) if cbs else []
            # the site index: the other search result this path depends on (locals are identified by their role, not by their names)
            hs = sorted({u for t_ in list(s.pc) + [a for e in evs for a in e.args if a is not None and not isinstance(a, tuple)] for u in tm.subterms(t_)
                         if u.op == "sym" and u.sort == "I" and str(u.args[0]).startswith("havoc_") and u not in kv}, key=repr)
            jl = hs[0] if len(hs) == 1 else None
            if jl is not None and not isinstance(jl, tuple) and kv:
                nxt = xel(s, tm.add(jl, tm.num(1, "I")))
                has_cb = tm.and_(tm.lt(jl, fld0(ex, s, "count_unknowns", "I") - tm.num(1, "I")), tm.eq(fld0(ex, s, "type", "I", nxt), SCB))
                for h, on in cases(hy, has_cb):
                    if on:
                        seen.add("related_moles")
                        ok = len(rel) == 1 and _same(h, rel[0].args[0], dvec(s) + kv[0]) and _same(h, rel[0].args[1].args[1], nxt) and _same(h, rel[0].args[2], tm.num(-1) if not twin else tm.num(1))
                        T.put("charge_unknown_follows:related_moles_of_x[j+1]_booked_from_delta[k]_with_-1", ok, repr([e.args for e in rel]))
                    else:
                        seen.add("no_charge_unknown")
                        T.put("no_charge_unknown_behind_the_site_unknown:no_related_moles_booking", not rel, repr([e.args for e in rel]))
            else:
                T.put("charge_unknown_follows:site_index_identified", False, repr(jl))
        T.put("straight_line.no_other_jacobian_entry_or_delta_booking", not rest_j and not rest_s, repr([e.args for e in rest_j + rest_s]), kind="frame")
        if T.put("formula.expanded_once", len(ge) == 1, "%d" % len(ge)):
            e = ge[0]
            before = evs[:evs.index(e)]
            gf = [x for x in before if _short(x) == "Get_formula"]
            T.put("formula.is_the_component's_own_with_coefficient_1_into_an_empty_element_list", bool(gf) and gf[-1].recv is comp and tm.isnum(e.args[1]) and e.args[1].args[0] == 1
                  and e.snap is not None and tm.isnum(e.snap.get("count_elts")) and e.snap["count_elts"].args[0] == 0, repr((e.args, e.snap, [x.recv for x in gf[-1:]])))
            T.put("formula.expanded_after_the_charge_entries_and_before_the_element_loop", all(evs.index(x) < evs.index(e) for x in cbj + cbs), "")
    # ---- one element of the formula
    el = info["inner_iters"].get(k_el, [])
    jjn = induction_name(lps[k_el])
    for s in lives(el, ("run", "cont")):
        evs = U.iter_events(s)
        jac = [e for e in evs if _short(e) == "store_jacob0"]
        sd = [e for e in evs if _short(e) == "store_sum_deltas"]
        comp = None
        for e in s.events:
            if _short(e) == "Get_phase_name":
                comp = e.recv; break
        if comp is None:
            T.put("element.component_identified", False, ""); continue
        prop = tm.app("call:Get_phase_proportion", (comp,), "R")
        ent = tm.select(entry_arr(ex, s, ("f", "#vdata", "P")), tm.app("fld:elt_list", (THIS,), "P")) + tm.sym("iter_" + jjn, "I")
        coef = fld0(ex, s, "coef", "R", ent)
        prim = fld0(ex, s, "primary", "P", fld0(ex, s, "elt", "P", ent))
        sec = fld0(ex, s, "secondary", "P", fld0(ex, s, "s", "P", prim))
        if len(sd) != 1 or len(jac) != 1:
            T.put("element.one_jacobian_entry_and_one_delta_booking", False, "%d/%d" % (len(jac), len(sd))); continue
        src0 = unstack(sd[0].args[0])
        if not (src0.op == "+" and src0.args[0] is dvec(s)):
            T.put("element.delta_source_is_an_entry_of_delta[]", False, repr(src0)); continue
        kl = src0.args[1]
        xk = xel(s, kl)
        def body(dec, hyps, s=s, jac=jac, sd=sd, evs=evs):
            m = sec if dec(tm.eq(fld0(ex, s, "in", "I", prim), FALSE_)) else prim
            sm = fld0(ex, s, "s", "P", m)
            if dec(tm.eq(sm, fld0(ex, s, "s_hplus", "P"))):
                Uk, tag = fld0(ex, s, "mass_hydrogen_unknown", "P"), "H"
            elif dec(tm.eq(sm, fld0(ex, s, "s_h2o", "P"))):
                Uk, tag = fld0(ex, s, "mass_oxygen_unknown", "P"), "O"
            else:
                Uk, tag = fld0(ex, s, "unknown", "P", m), "element"
            seen.add(tag)
            if not T.put("element.one_jacobian_entry_and_one_delta_booking", len(jac) == 1 and len(sd) == 1, "%d/%d" % (len(jac), len(sd))):
                return
            T.put("%s.jacobian_row_is_the_balance_of_this_element(%s)" % (tag, {"H": "total_H", "O": "total_O", "element": "its_master's_unknown;secondary_master_when_the_primary_is_not_in_the_model"}[tag]),
                  _same(hyps, jac[0].args[0], num(s, Uk)), repr(jac[0].args[0]))
            tgt = sd[0].args[1]
            T.put("%s.delta_booking_goes_to_the_same_balance" % tag, tgt.op == "app" and tgt.args[0] == "fld:delta" and _same(hyps, tgt.args[1], Uk), repr(tgt))
            T.put("element.jacobian_column_is_the_mineral's_unknown_x[k]", _same(hyps, jac[0].args[1], num(s, xk)), repr(jac[0].args[1]))
            T.put("element.delta_source_is_delta[k]_of_the_same_mineral", _same(hyps, sd[0].args[0], dvec(s) + kl), repr(sd[0].args[0]))
            want = coef * prop if not twin else coef
            T.put("element.jacobian_entry==formula_coefficient*proportion_of_THIS_component", _same(hyps, jac[0].args[2], want), repr(jac[0].args[2]))
            T.put("element.delta_booking==-(formula_coefficient*proportion)", _same(hyps, sd[0].args[2], tm.neg(coef * prop)), repr(sd[0].args[2]))
            # the site total follows the mineral
            w = [(ix, v) for ix, v in writes(s, ("f", "moles", "R"))]
            if dec(tm.eq(fld0(ex, s, "type", "I", sm), SITE_T)):
                eqs = [e for e in evs if _short(e) == "equal"]
                mk = tm.select(entry_arr(ex, s, ("f", "moles", "R")), xk)
                target = mk * coef * prop
                a0 = unstack(eqs[0].args[-3]) if len(eqs) == 1 else None
                okj = a0 is not None and a0.op == "select" and "moles:" in repr(a0.args[0])[:16] and len(a0.args[1]) == 1
                if not T.put("site.sites_compared_with_moles(mineral)*formula_coefficient*proportion", okj and _same(hyps, eqs[0].args[-2], target), repr([e.args for e in eqs])):
                    return
                xj = a0.args[1][0]
                sj = [u for u in _havoc_index(xj)]
                T.put("site.the_sites_compared_are_those_of_the_unknown_found_by_the_site_search", len(sj) == 1 and xj is unstack(xel(s, sj[0])) and sj[0] is not kl, repr(xj))
                if dec(tm.eq(eqs[0].result, FALSE_)):
                    seen.add("site.reset")
                    T.put("site.differs:sites_of_x[j]_reset_to_moles(mineral)*formula_coefficient*proportion", len(w) == 1 and _same(hyps, w[0][0][0], xj) and _same(hyps, w[0][1], target), repr(w))
                else:
                    seen.add("site.kept")
                    T.put("site.agrees:sites_left_alone", not w, repr(w))
            else:
                T.put("other_element:no_amount_of_an_unknown_written", not w, repr(w), kind="frame")
        case_split(list(s.pc), body)
    early = lives(el, ("brk", "ret"))
    T.put("element.no_element_left_out_by_leaving_the_loop", not early, "%d" % len(early))
    # the local that carries the exchange master from the loop over the component's totals to the site search (role, not name)
    master_local = None
    if kind == "exchange":
        for k_ in sorted(info["inner_iters"]):
            if k_ == k_el or any(t.status == "brk" for t in info["inner_iters"][k_]):
                continue
            ids, _wm = ex.assigned_locals(lps[k_])
            cand = [did for did, (nm_, q_) in ids.items() if "master" in str(q_)]
            if len(cand) == 1:
                master_local = cand[0]
    # ---- the two searches: iff conditions in context, ranges in isolation
    for ks, sts in sorted(info["inner_iters"].items()):
        if ks == k_el or not any(t.status == "brk" for t in sts):
            continue
        ind = induction_name(lps[ks])
        role = None
        for t in lives(sts, ("run", "cont", "brk")):
            iv = tm.sym("iter_" + ind, "I")
            xi = xel(t, iv)
            ty = fld0(ex, t, "type", "I", xi)
            comp = next((e.recv for e in t.events if _short(e) == "Get_phase_name"), None)
            cm = [e for e in U.iter_events(t) if _short(e) == "strcmp_nocase"]
            if role is None:
                role = "mineral" if any(_short(e) == "strcmp_nocase" for u in sts for e in U.iter_events(u)) else "site"
            if role == "mineral":
                def body(dec, hyps, t=t, cm=cm):
                    if not dec(tm.eq(ty, PP if not twin else UNK_T)):
                        seen.add("mineral.other"); T.put("mineral_search.not_a_pure_phase_unknown:goes_on", t.status != "brk", t.status); return
                    nm = fld0(ex, t, "name", "P", fld0(ex, t, "phase", "P", xi))
                    okc = len(cm) == 1 and any(a is nm for a in cm[0].args) and any("call:Get_phase_name" in repr(a) and comp is not None and comp in tm.subterms(a) for a in cm[0].args)
                    if not T.put("mineral_search.compares_the_phase_name_of_x[k]_with_the_component's_phase_name", okc, repr([e.args for e in cm])):
                        return
                    if dec(tm.eq(cm[0].result, tm.num(0, "I"))):
                        seen.add("mineral.hit"); T.put("mineral_search.stops_at_the_phase_of_that_name", t.status == "brk", t.status)
                    else:
                        seen.add("mineral.miss"); T.put("mineral_search.another_phase:goes_on", t.status != "brk", t.status)
                case_split(list(t.pc), body)
            else:
                m0 = tm.select(entry_arr(ex, t, ("m", "P")), tm.select(entry_arr(ex, t, ("f", "#vdata", "P")), tm.app("fld:master", (xi,), "P")), tm.num(0, "I"))
                if kind == "exchange":
                    Mv = t.locals.get(master_local) if master_local is not None else None
                else:
                    es = [e for e in t.events if _short(e) == "element_store" and "Get_master_element" in repr(e.args)]
                    Mv = fld0(ex, t, "master", "P", es[0].result) if es else None
                    if es and comp is not None:
                        T.put("site_search.site_element_is_the_component's_master_element", comp in tm.subterms(es[0].args[-1]), repr(es[0].args))
                if Mv is None or isinstance(Mv, tuple):
                    T.put("site_search.master_species_of_the_component_identified", False, repr(Mv)); continue
                def body(dec, hyps, t=t, m0=m0, Mv=Mv):
                    if dec(tm.and_(tm.eq(ty, UNK_T), tm.eq(m0, Mv))):
                        seen.add("site.hit"); T.put("site_search.stops_at_the_%s_unknown_of_the_component's_master_species" % ("EXCH" if kind == "exchange" else "SURFACE"), t.status == "brk", t.status)
                    else:
                        seen.add("site.miss"); T.put("site_search.another_unknown:goes_on", t.status != "brk", t.status)
                case_split(list(t.pc), body)
        fi, exi, itsi, infoi = run_iter(PREP, q, ks, _c())
        if itsi:
            _range(r, "%s_search" % (role or "?"), exi, infoi, itsi, lps[ks], fld0(exi, itsi[0], "count_unknowns", "I") - tm.num(1, "I"), lambda v: tm.le(tm.num(0, "I"), v))
        r.head_exempt = dict(getattr(r, "head_exempt", {}) or {})
        r.head_exempt[(q, ks)] = "descending search over all unknowns (count_unknowns-1 .. 0): stated by the *_search.starts_at / runs_while obligations"
    if kind == "exchange":
        # the exchange master is the master of an element of the component's totals whose master species is an exchange site
        ks = [k_ for k_ in sorted(info["inner_iters"]) if k_ != k_el and not any(t.status == "brk" for t in info["inner_iters"][k_])]
        for k_ in ks[:1]:
            for t in lives(info["inner_iters"][k_], ("run", "cont")):
                es = [e for e in U.iter_events(t) if _short(e) == "element_store"]
                if not es:
                    continue
                mm = fld0(ex, t, "master", "P", es[0].result)
                now = t.locals.get(master_local) if master_local is not None else None
                for h, on in cases(list(t.pc), tm.eq(fld0(ex, t, "type", "I", mm), KI("EX"))):
                    if on:
                        seen.add("master.found"); T.put("exchange_master.is_the_master_of_an_EX_element_of_the_component's_totals", now is mm or proved(h, tm.eq(now, mm)), repr(now))
                    else:
                        T.put("exchange_master.other_elements_leave_it", now is not None and not isinstance(now, tuple) and now.op == "sym" and str(now.args[0]).startswith("iter_"), repr(now))
    need = {"skipped", "stored", "H", "O", "element", "site.reset", "site.kept", "mineral.hit", "mineral.miss", "mineral.other", "site.hit", "site.miss"}
    if kind == "surface":
        need |= {"related_moles", "no_charge_unknown"}
    else:
        need |= {"master.found"}
    r.add("reach.cases", DISCHARGED if need <= seen else UNDECIDED, "symex", 0, "missing %r" % sorted(need - seen), kind="vacuity")
    r.assumptions += ["store_jacob0(row, column, v) / store_sum_deltas(&delta[k], &target, c): the solver moves c*delta[k] into target and sees v in the Jacobian (reset(): unit C02/C03.reset.mineral_transfer...)",
                      "get_elts_in_species(&formula, c) appends c x formula to elt_list; change_hydrogen_in_elt_list folds O into H for the COMBINE build (not under this contract)",
                      "equal(a, b, eps) is the tolerance comparison of utilities.cpp; strcmp_nocase(a, b) == 0 iff the names agree ignoring case", "accessors of cxxExchComp / cxxSurfaceComp are plain",
                      "error paths (error_msg(.., STOP)) do not return", "doubles as reals"]
    return r


def unit_build_min_exch(twin=False):
    return _build_min("exchange", twin)


def unit_build_min_surface(twin=False):
    return _build_min("surface", twin)


# ------------------------------------------------------------------------------------------------ prep.cpp setup_related_surface
def unit_setup_related_surface(twin=False):
    """setup_related_surface: at the start of a calculation the site unknown of a surface component tied to a mineral gets  moles = moles(mineral) x
    proportion  and points to the mineral's unknown; the charge unknown gets  related_moles = moles(mineral) x proportion  of the component it carries;
    the mineral is the PP unknown whose phase has the component's phase_name (search over all unknowns); other unknowns and unrelated components are
    not touched."""
    from props.c20_ext_util import concrete_type_iteration, x_elem, ev_named
    q = "Phreeqc::setup_related_surface"
    fn = A.find_function(PREP, q)
    r = U.new_unit("C03.setup_related_surface.site_and_charge_unknowns_start_at_moles_of_the_mineral_x_proportion", PREP, q, fn)
    T = Tally(r)
    lps = loops_of(fn)
    searches = [k for k, lp in enumerate(lps) if "strcmp_nocase(" in text_of(PREP, lp["inner"][-1]) and not any(y is not lp and y.get("kind") in ("ForStmt", "WhileStmt", "DoStmt") for y in A.walk(lp["inner"][-1]))]
    surf = tm.app("call:Get_surface_ptr", (tm.app("fld:use", (THIS,), "P"),), "P")
    seen = set()
    PP = KI("PP")
    for code, fieldw in (("SURFACE", "moles"), ("SURFACE_CB", "related_moles")):
        c = stop_on_error_msg(ctx(functional={"Get_surface_ptr", "Get_related_phases", "Find_comp", "Get_phase_name", "size", "c_str", "strcmp_nocase", "Get_phase_proportion"}))
        f, ex, its, info = concrete_type_iteration(PREP, q, int(K(code)), c, inner_iter=tuple(searches))
        for s in lives(its, ("run", "cont")):
            i = s.locals.get(info["names"][info["induction"]])
            xi = x_elem(ex, s, i)
            w = [(k_, ix, v) for k_, ix, v in U.iter_writes(s) if k_[1] != "type"]
            fc = ev_named(s, "Find_comp")
            own = [e for e in fc if fld0(ex, s, "surface_comp", "P", xi) in tm.subterms(e.args[-1]) and e.recv is surf]
            if not w:
                seen.add(code + ".untouched")
                continue
            seen.add(code + ".related")
            if not T.put("%s.component_is_the_one_this_unknown_carries(Find_comp(x[i]->surface_comp)_of_the_surface_in_use)" % code, len(own) >= 1, repr([(e.recv, e.args) for e in fc])):
                continue
            comp = own[-1].result
            kv = _havoc_index(tm.and_(*[tm.eq(v, v) for _, _, v in w if v.sort == "P"] or [tm.TRUE]))
            kv = kv or sorted({h for _, _, v in w for h in _havoc_index(v)}, key=repr)
            if not T.put("%s.mineral_index_comes_from_the_search" % code, len(kv) == 1, repr(kv)):
                continue
            xk = x_elem(ex, s, kv[0])
            hy = list(s.pc)
            by = {k_[1]: (ix, v) for k_, ix, v in w}
            T.put("%s.frame:only_%s_and_phase_unknown_of_x[i]_written" % (code, fieldw), set(by) == {fieldw, "phase_unknown"} and all(_same(hy, ix[0], xi) for ix, v in by.values()), repr(sorted(by)))
            if "phase_unknown" in by:
                T.put("%s.phase_unknown_is_the_mineral's_unknown" % code, _same(hy, by["phase_unknown"][1], xk), repr(by["phase_unknown"][1]))
            if fieldw in by:
                prop = tm.app("call:Get_phase_proportion", (comp,), "R")
                mk = tm.select(entry_arr(ex, s, ("f", "moles", "R")), xk)
                T.put("%s.%s==moles(mineral)*proportion_of_that_component" % (code, fieldw), _same(hy, by[fieldw][1], mk * (prop if not twin else tm.num(1))), repr(by[fieldw][1]))
        # the search that produced k: in the context of this unknown kind
        for o, lst in sorted(info["inner_iters"].items()):
            for res, written, entry_arrays in lst:
                for t in lives(res, ("run", "cont", "brk")):
                    t.iter_entry_arrays = entry_arrays
                    ind = induction_name(lps[o])
                    xk = x_elem(ex, t, tm.sym("iter_" + ind, "I"))
                    cm = [e for e in U.iter_events(t) if _short(e) == "strcmp_nocase"]
                    fcs = [e for e in t.events if _short(e) == "Find_comp"]
                    xi_t = x_elem(ex, t, t.locals.get(info["names"][info["induction"]]))
                    def body(dec, hyps, t=t, cm=cm, xk=xk, fcs=fcs, xi_t=xi_t):
                        if not dec(tm.eq(fld(ex, t, "type", "I", xk), PP)):          # current memory: the kind of x[i] was fixed for this iteration
                            seen.add("search.other"); T.put("search.not_a_pure_phase_unknown:goes_on", t.status != "brk", t.status); return
                        nm = fld0(ex, t, "name", "P", fld0(ex, t, "phase", "P", xk))
                        own = [e.result for e in fcs if fld0(ex, t, "surface_comp", "P", xi_t) in tm.subterms(e.args[-1])]
                        okc = len(cm) == 1 and any(a is nm for a in cm[0].args) and any("call:Get_phase_name" in repr(a) and any(o_ in tm.subterms(a) for o_ in own) for a in cm[0].args)
                        if not T.put("search.compares_the_phase_name_of_x[k]_with_the_phase_name_of_the_component_this_unknown_carries", okc, repr([e.args for e in cm])):
                            return
                        hit = dec(tm.eq(cm[0].result, tm.num(0, "I")))
                        seen.add("search.hit" if hit else "search.miss")
                        T.put("search.%s" % ("stops_at_the_phase_of_that_name" if hit else "another_phase:goes_on"), (t.status == "brk") == hit, t.status)
                    case_split(list(t.pc), body)
    for o in searches:
        fi, exi, itsi, infoi = run_iter(PREP, q, o, stop_on_error_msg(ctx(functional={"Get_surface_ptr", "Find_comp", "Get_phase_name", "size", "c_str", "strcmp_nocase", "Get_phase_proportion"})))
        if itsi:
            _range(r, "search#%d" % o, exi, infoi, itsi, lps[o], fld0(exi, itsi[0], "count_unknowns", "I") - tm.num(1, "I"), lambda v: tm.le(tm.num(0, "I"), v))
        r.head_exempt = dict(getattr(r, "head_exempt", {}) or {})
        r.head_exempt[(q, o)] = "descending search over all unknowns (count_unknowns-1 .. 0): stated by the search#k obligations"
    need = {"SURFACE.related", "SURFACE.untouched", "SURFACE_CB.related", "SURFACE_CB.untouched", "search.hit", "search.miss", "search.other"}
    r.add("reach.cases", DISCHARGED if need <= seen else UNDECIDED, "symex", 0, "missing %r" % sorted(need - seen), kind="vacuity")
    r.assumptions += ["cxxSurface::Find_comp(name) is a deterministic look-up; accessors are plain", "the site coefficient of a surface formula is 1 (sites = moles x proportion)",
                      "for the charge unknown the code tests the phase name of the component of the unknown BEFORE it (x[i-1]) and then uses the component the charge unknown itself carries: the contract is on the latter",
                      "doubles as reals"]
    return r


# ------------------------------------------------------------------------------------------------ tidy.cpp update_{min,kin}_{exchange,surface}
UFUN = ("Get_new_def", "Get_n_user", "Get_exchange_comps", "Get_phase_name", "Get_rate_name", "size", "Get_totals", "element_store", "c_str", "Rxn_find", "Get_pp_assemblage_comps", "strcmp_nocase",
        "Get_moles", "Get_m", "Get_phase_proportion", "Get_formula", "phase_bsearch", "elt_list_NameDouble", "Get_surface_comps", "Get_surface_charges", "Get_charge_name", "Find_charge",
        "Get_master_element", "string_duplicate", "Get_type", "Get_kinetics_comps", "Get_grams")


def _uc():
    c = stop_on_error_msg(ctx(functional=UFUN))
    c.snapshot = {"get_elts_in_species": [("count_elts", "I")]}
    return c


def _copied(evs, obj):
    for _ in range(4):
        ct = [e for e in evs if e.name.startswith("ctor ") and e.recv is obj and len(e.args) == 1]
        if not ct:
            return obj
        obj = ct[-1].args[0]
    return obj


def _update(kind, partner, twin=False):
    """kind: exchange | surface; partner: min | kin"""
    name = "update_%s_%s" % (partner, kind)
    q = "Phreeqc::" + name
    fn = A.find_function(TIDY, q)
    r = U.new_unit("C03.%s.totals_re-proportioned_to_site_coefficient_x_moles_of_the_partner_x_proportion" % name, TIDY, q, fn)
    T = Tally(r)
    lps = loops_of(fn)
    kc = loops_with_body(fn, TIDY, "multiply(", innermost=True)
    if len(kc) != 1:
        raise Undecided("%s: component loop not recognised (%r)" % (name, kc))
    k_comp = kc[0]
    f, ex, its, info = run_iter(TIDY, q, k_comp, _uc(), inner_modes={"*": "iter"})
    SITE_T = KI("EX") if kind == "exchange" else KI("SURF")
    seen = set()
    compsf = "call:Get_%s_comps" % kind

    def comp_ok(cp):
        return cp is not None and cp.op == "+" and cp.args[0].op == "select" and compsf in repr(cp.args[0]) and cp.args[1].op == "sym" and str(cp.args[1].args[0]).startswith("iter_")

    # ---- roles of the inner loops: which map they walk, which local they leave
    roles = {}
    for o, ent in sorted(info["inner_entries"].items()):
        sts = info["inner_iters"].get(o, [])
        if lps[o].get("kind") != "ForStmt":
            continue
        for t in lives(sts, ("run", "cont", "brk")):
            node = None
            for nm, did in info["names"].items():
                v = t.locals.get(did)
                if v is not None and not isinstance(v, tuple) and v.op == "select" and v.sort == "R" and "second:" in repr(v.args[0])[:14] and "mnode(iter_" in repr(v.args[1]):
                    roles.setdefault(o, {})["local"] = nm
        if o not in roles:
            continue
        e0 = ent[0]
        evs0 = U.iter_events(e0)
        # the map walked: the receiver of the begin() whose result the loop starts from (copies followed)
        itn = [nm for nm, did in info["names"].items() if (lambda v: v is not None and not isinstance(v, tuple) and any(e.name.endswith("::begin") and e.result is v for e in evs0))(e0.locals.get(did))]
        src = None
        if itn:
            bg = [e for e in evs0 if e.name.endswith("::begin") and e.result is e0.locals.get(info["names"][itn[-1]])]
            src = _copied(evs0, bg[-1].recv)
        if src is None:
            # for (kit = X.begin(); ...): the initialiser runs when the loop is entered
            init = lps[o]["inner"][0]
            if init:
                for t2 in ex.exec(init, [e0.clone()]):
                    bg = [e for e in U.iter_events(t2) if e.name.endswith("::begin")]
                    if bg:
                        src = _copied(U.iter_events(t2), bg[-1].recv)
        roles[o]["src"] = src
    old_loop = [o for o, d in roles.items() if d.get("src") is not None and d["src"].op == "app" and d["src"].args[0] == "call:Get_totals"]
    coef_loop = [o for o, d in roles.items() if d.get("src") is not None and d["src"].op == "app" and d["src"].args[0] == "call:elt_list_NameDouble"]
    if len(old_loop) != 1 or (kind == "exchange" and len(coef_loop) != 1):
        raise Undecided("%s: the loop reading the old sites / the site coefficient was not identified (%r)" % (name, {o: (d.get("local"), repr(d.get("src"))[:60]) for o, d in roles.items()}))
    old_name = roles[old_loop[0]]["local"]
    coef_name = roles[coef_loop[0]]["local"] if coef_loop else None

    def havoc_of(term, nm):
        return sorted({u for u in tm.subterms(term) if u.op == "sym" and str(u.args[0]).startswith("havoc_%s!" % nm)}, key=repr)

    # ---- one component
    nloc = [None]
    for s in lives(its, ("run", "cont")):
        evs = U.iter_events(s)
        mul = [e for e in evs if _short(e) == "multiply"]
        st = [e for e in evs if _short(e) == "Set_totals"]
        cmul = [e for e in mul if comp_ok(e.recv)]
        if not cmul and not st:
            seen.add("skipped")
            continue
        comp = (cmul + st)[0].recv
        if not T.put("component.is_item_j_of_the_%s's_components" % kind, comp_ok(comp) and all(e.recv is comp for e in cmul + st), repr(comp)):
            continue
        hy = list(s.pc)
        T.put("component.totals_written_once(scaled_or_rebuilt)", len(cmul) + len(st) == 1, "%d/%d" % (len(cmul), len(st)))
        prop = tm.app("call:Get_phase_proportion", (comp,), "R")
        # the partner's amount
        if partner == "min":
            gm = [e for e in evs if _short(e) == "Get_moles"]
            okp = len({e.result for e in gm}) == 1 and all(e.recv.op == "app" and e.recv.args[0] == "fld:second" and "havoc_" in repr(e.recv) for e in gm)
        else:
            gm = [e for e in evs if _short(e) == "Get_m"]
            okp = len({e.result for e in gm}) == 1 and all("call:Get_kinetics_comps" in repr(e.recv) and "havoc_" in repr(e.recv) for e in gm)
        if not T.put("partner.amount_is_%s_of_the_entry_the_search_stopped_at" % ("moles_of_the_phase" if partner == "min" else "m_of_the_kinetic_reactant"), bool(gm) and okp, repr([e.recv for e in gm])):
            continue
        molP = gm[0].result
        rf = [e for e in evs if _short(e) == "Rxn_find"]
        owner = comp.args[0].args[1][0].args[1] if comp.args[0].args[1][0].op == "app" else None
        mp = "fld:Rxn_pp_assemblage_map" if partner == "min" else "fld:Rxn_kinetics_map"
        okn = len(rf) >= 1 and rf[0].args[0] is tm.app(mp, (THIS,), "P") and (rf[0].args[1] is tm.app("call:Get_n_user", (owner,), "I") or (rf[0].args[1].op == "sym" and str(rf[0].args[1].args[0]).startswith("L_")))
        T.put("partner.looked_up_in_%s_under_the_number_of_this_%s" % ("EQUILIBRIUM_PHASES" if partner == "min" else "KINETICS", kind), okn, repr([e.args for e in rf]))
        seen.add("n_local" if rf and rf[0].args[1].op == "sym" else "n_direct")
        if rf and rf[0].args[1].op == "sym":
            nloc[0] = str(rf[0].args[1].args[0])[2:]
        conc = molP * (prop if not twin else tm.num(1))
        if cmul:
            seen.add("scaled")
            arg = cmul[0].args[0]
            c0 = havoc_of(arg, old_name)
            if not T.put("scaled.divides_by_the_old_sites_of_the_component", len(c0) == 1, repr(arg)):
                continue
            if kind == "exchange":
                c1 = havoc_of(arg, coef_name)
                if not T.put("scaled.uses_the_site_coefficient_of_the_formula", len(c1) == 1, repr(arg)):
                    continue
                want = c1[0] * conc / c0[0]
            else:
                want = conc / c0[0]
            T.put("scaled.factor==%smoles(partner)*proportion/old_sites" % ("site_coefficient*" if kind == "exchange" else ""), _same(hy, arg, want), repr(arg))
            T.put("scaled.only_when_the_component_holds_sites(old_sites>0)", proved(hy, tm.lt(tm.num(0), c0[0])), repr(hy[-3:]))
            if kind == "exchange":
                ge = [e for e in evs if _short(e) == "get_elts_in_species"]
                gf = [x for x in evs[:evs.index(ge[0])] if _short(x) == "Get_formula"] if ge else []
                T.put("scaled.site_coefficient_read_from_the_component's_own_formula(x1,empty_list)", len(ge) == 1 and tm.isnum(ge[0].args[1]) and ge[0].args[1].args[0] == 1 and ge[0].snap is not None
                      and tm.isnum(ge[0].snap.get("count_elts")) and ge[0].snap["count_elts"].args[0] == 0 and bool(gf) and gf[-1].recv is comp, repr([(e.args, e.snap) for e in ge]))
        else:
            seen.add("rebuilt")
            ge = [e for e in evs[:evs.index(st[0])] if _short(e) == "get_elts_in_species"]
            if T.put("rebuilt.one_formula_expansion_before_the_totals_are_stored", len(ge) == 1, "%d" % len(ge)):
                gf = [x for x in evs[:evs.index(ge[0])] if _short(x) == "Get_formula"]
                T.put("rebuilt.formula_is_the_component's_own_into_an_empty_list", bool(gf) and gf[-1].recv is comp and ge[0].snap is not None and tm.isnum(ge[0].snap.get("count_elts")) and ge[0].snap["count_elts"].args[0] == 0, repr((ge[0].snap, [x.recv for x in gf[-1:]])))
                T.put("rebuilt.amount==moles(partner)*proportion", _same(hy, ge[0].args[1], conc), repr(ge[0].args[1]))
            nd = _copied(evs, st[0].args[0])
            T.put("rebuilt.totals_are_the_combined_element_list", nd.op == "app" and nd.args[0] == "call:elt_list_NameDouble", repr(st[0].args))
        if kind == "surface":
            fc = [e for e in evs if _short(e) == "Find_charge"]
            ch = fc[-1].result if fc else None
            cm = [e for e in mul if e not in cmul]
            sg = [e for e in evs if _short(e) == "Set_grams"]
            sc = [e for e in evs if _short(e) == "Set_charge_balance"]
            if ch is None:
                T.put("charge_record.none(no_electrostatics):nothing_scaled", not cm and not sg and not sc, repr([e.recv for e in cm + sg + sc]))
                continue
            T.put("charge_record.is_the_one_named_by_the_component(Find_charge(charge_name))", all("call:Get_charge_name" in repr(e.args) and comp in tm.subterms(e.args[-1]) and e.recv is owner for e in fc), repr([(e.recv, e.args) for e in fc]))
            grams = tm.app("call:Get_grams", (ch,), "R")
            def body(dec, hyps, s=s, cm=cm, sg=sg, sc=sc, ch=ch, grams=grams, molP=molP):
                if dec(tm.eq(ch, tm.NULL)):
                    seen.add("charge.none"); T.put("charge_record.none(no_electrostatics):nothing_scaled", not cm and not sg and not sc, repr([e.recv for e in cm + sg + sc])); return
                if dec(tm.lt(tm.num(0), grams)):
                    seen.add("charge.scaled")
                    ok = len(cm) == 1 and cm[0].recv is ch and _same(hyps, cm[0].args[0], molP / grams) and not sg and not sc
                    T.put("charge_record.with_grams:grams_charge_balance_layer_water_layer_totals_scaled_by_moles(partner)/grams", ok, "multiply: %r  Set_grams: %r  Set_charge_balance: %r" % ([e.args for e in cm], [e.args for e in sg], [e.args for e in sc]))
                else:
                    seen.add("charge.started")
                    ok = not cm and len(sg) == 1 and sg[0].recv is ch and _same(hyps, sg[0].args[0], molP) and len(sc) == 1 and sc[0].recv is ch and tm.isnum(sc[0].args[0]) and sc[0].args[0].args[0] == 0
                    T.put("charge_record.without_grams:started_at_grams=moles(partner)_and_no_charge", ok, "multiply: %r  Set_grams: %r" % ([e.args for e in cm], [e.args for e in sg]))
            case_split(hy, body)
    # ---- the loops that read the old sites / the site coefficient
    for o, what in [(old_loop[0], "old_sites")] + ([(coef_loop[0], "site_coefficient")] if coef_loop else []):
        nm = roles[o]["local"]
        for t in lives(info["inner_iters"][o], ("run", "cont", "brk")):
            es = [e for e in U.iter_events(t) if _short(e) == "element_store"]
            if not es:
                continue
            el = es[0].result
            mm = fld0(ex, t, "master", "P", el)
            now = t.locals.get(info["names"][nm])
            itv = [v for v in index_ptr(t)]
            node_val = [u for u in tm.subterms(now)] if now is not None and not isinstance(now, tuple) else []
            def body(dec, hyps, t=t, now=now, mm=mm, el=el):
                if dec(tm.or_(tm.eq(el, tm.NULL), tm.eq(mm, tm.NULL))):
                    return
                if dec(tm.eq(fld0(ex, t, "type", "I", mm), SITE_T)):
                    seen.add(what + ".site")
                    ok = now is not None and not isinstance(now, tuple) and now.op == "select" and "second:" in repr(now.args[0])[:14] and "mnode(iter_" in repr(now.args[1])
                    T.put("%s.is_the_amount_of_the_entry_whose_master_species_is_a_site" % what, ok, repr(now))
                else:
                    seen.add(what + ".other")
                    ok = now is not None and not isinstance(now, tuple) and now.op == "sym" and str(now.args[0]).startswith("iter_")
                    T.put("%s.other_entries_leave_it" % what, ok, repr(now))
            case_split(list(t.pc), body)
        src = roles[o]["src"]
        if what == "old_sites":
            T.put("old_sites.read_from_the_totals_of_THIS_component", src.args[1] is not None and comp_ok(_copied(U.iter_events(info["inner_entries"][o][0]), src.args[1])), repr(src))
    # ---- the search for the partner: stops exactly at the entry of the component's phase / rate name
    sl = [o for o, sts in info["inner_iters"].items() if any(_short(e) == "strcmp_nocase" for t in sts for e in U.iter_events(t))]
    for o in sl[:1]:
        for t in lives(info["inner_iters"][o], ("run", "cont", "brk")):
            cm = [e for e in U.iter_events(t) if _short(e) == "strcmp_nocase"]
            if len(cm) != 1:
                T.put("search.one_name_comparison_per_entry", False, "%d" % len(cm)); continue
            getter = "call:Get_phase_name" if partner == "min" else "call:Get_rate_name"
            a_comp = [a for a in cm[0].args if getter in repr(a) and compsf in repr(a)]
            a_ent = [a for a in cm[0].args if "iter_" in repr(a) and a not in a_comp]
            T.put("search.compares_the_component's_%s_with_the_name_of_the_entry_visited" % ("phase_name" if partner == "min" else "rate_name"), len(a_comp) == 1 and len(a_ent) == 1, repr(cm[0].args))
            for h, hit in cases(list(t.pc), tm.eq(cm[0].result, tm.num(0, "I"))):
                seen.add("search.hit" if hit else "search.miss")
                T.put("search.%s" % ("stops_at_the_entry_of_that_name" if hit else "another_name:goes_on"), (t.status == "brk") == hit, t.status)
    T.put("search.found", bool(sl), "no loop compares names")
    # n, where it is a local of the enclosing loop, is the user number of this exchanger / surface
    if "n_local" in seen:
        outer = [k for k in loops_with_body(fn, TIDY, "multiply(", innermost=False) if k != k_comp]
        ok = False
        if outer:
            fo, exo, itso, infoo = run_iter(TIDY, q, outer[0], _uc())
            for e0 in infoo["inner_entries"].get(k_comp, [])[:1]:
                nv = e0.locals.get(infoo["names"].get(nloc[0]))
                ok = nv is not None and not isinstance(nv, tuple) and nv.op == "app" and nv.args[0] == "call:Get_n_user" and "mnode(iter_" in repr(nv.args[1])
            if not ok:
                # declared inside the component loop
                for s in lives(its, ("run", "cont")):
                    nv = s.locals.get(info["names"].get(nloc[0]))
                    if nv is not None and not isinstance(nv, tuple) and nv.op == "app" and nv.args[0] == "call:Get_n_user":
                        ok = True
        T.put("partner.n_is_the_user_number_of_this_%s" % kind, ok, "")
    need = {"skipped", "scaled", "rebuilt", "old_sites.site", "old_sites.other", "search.hit", "search.miss"}
    if kind == "exchange":
        need |= {"site_coefficient.site", "site_coefficient.other"}
    else:
        need |= {"charge.scaled", "charge.started"}
    r.add("reach.cases", DISCHARGED if need <= seen else UNDECIDED, "symex", 0, "missing %r" % sorted(need - seen), kind="vacuity")
    r.assumptions += ["cxxExchComp / cxxSurfaceComp::multiply(f) multiplies every total, the moles and the charge balance by f; cxxSurfaceCharge::multiply(f) multiplies grams, charge balance, layer water and layer totals by f (bodies not under this contract)",
                      "get_elts_in_species(&formula, c) appends c x formula to elt_list; elt_list_NameDouble() combines it into a name -> moles map", "Utilities::Rxn_find(map, n) returns entity n; accessors are plain",
                      "the formula of a surface component carries its site with coefficient 1 (setup_related_surface and these functions assume it: new sites = moles x proportion)",
                      "WHEN these functions are called: units C03.tidy_model.*", "doubles as reals"]
    return r


def index_ptr(t):
    return [v for v in t.locals.values() if v is not None and not isinstance(v, tuple) and v.op == "sym" and str(v.args[0]).startswith("iter_") and v.sort == "P"]


def unit_update_min_exchange(twin=False): return _update("exchange", "min", twin)
def unit_update_kin_exchange(twin=False): return _update("exchange", "kin", twin)
def unit_update_min_surface(twin=False): return _update("surface", "min", twin)
def unit_update_kin_surface(twin=False): return _update("surface", "kin", twin)


UNITS = [
    ("C03.build_min_exch.related_component_enters_jacobian_and_deltas_with_formula_coefficient_x_proportion_on_the_mineral's_column", unit_build_min_exch),
    ("C03.build_min_surface.related_component_enters_jacobian_and_deltas_with_formula_coefficient_x_proportion_on_the_mineral's_column", unit_build_min_surface),
    ("C03.setup_related_surface.site_and_charge_unknowns_start_at_moles_of_the_mineral_x_proportion", unit_setup_related_surface),
    ("C03.update_min_exchange.totals_re-proportioned_to_site_coefficient_x_moles_of_the_partner_x_proportion", unit_update_min_exchange),
    ("C03.update_kin_exchange.totals_re-proportioned_to_site_coefficient_x_moles_of_the_partner_x_proportion", unit_update_kin_exchange),
    ("C03.update_min_surface.totals_re-proportioned_to_site_coefficient_x_moles_of_the_partner_x_proportion", unit_update_min_surface),
    # fails on the unchanged tree: update_kin_surface discards the grams it reads (`if (charge_ptr != NULL) charge_ptr->Get_grams();`), so the charge record is never scaled and its
    # charge balance is zeroed on every call; native demo /var/tmp/agent3_F_out/demo/kin_surface_charge.cpp (kept failing as the brief asks)
    ("C03.update_kin_surface.totals_re-proportioned_to_site_coefficient_x_moles_of_the_partner_x_proportion", unit_update_kin_surface),
]
