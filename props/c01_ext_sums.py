"""C01 ext: the mole-balance sums.  A species' contribution (unknown U, source = address of its moles, coefficient c) recorded by
store_mb_unknowns reaches U->f as  c * (*source)  once per evaluation:  store_mb_unknowns -> build_mb_sums -> store_mb -> mb_sums."""
from props.c01_ext_util import *

PREP = "src/phreeqcpp/prep.cpp"
MODEL = "src/phreeqcpp/model.cpp"


def vaddr(ex, s, vec, idx, owner=THIS, entry=True):
    get = entry_arr if entry else (lambda ex, s, k: ex.heap_arr(s, k))
    return tm.select(get(ex, s, ("f", "#vdata", "P")), tm.app("fld:" + vec, (owner,), "P")) + idx


def vsize0(ex, s, vec, owner=THIS):
    return tm.select(entry_arr(ex, s, ("f", "#vsize", "I")), tm.app("fld:" + vec, (owner,), "P"))


def _appended(r, tag, ex, s, vec, want, others=()):
    """the function appended exactly one record to this->vec whose fields are `want` {field: (sort, value)}; vectors in `others` untouched"""
    n0 = vsize0(ex, s, vec)
    slot = vaddr(ex, s, vec, n0)
    hy = list(s.pc)
    valid(r, "%s.%s_grows_by_one" % (tag, vec), hy, tm.eq(tm.select(ex.heap_arr(s, ("f", "#vsize", "I")), tm.app("fld:" + vec, (THIS,), "P")), n0 + I(1)))
    for fname, (so, val) in sorted(want.items()):
        ws = [(ix, v) for ix, v in writes(s, ("f", fname, so))]
        put(r, "%s.%s.%s_written_once_in_the_new_slot" % (tag, vec, fname), len(ws) == 1 and ws[0][0] == (slot,), repr([ix for ix, v in ws]), kind="frame")
        if len(ws) == 1:
            if so == "R":
                eqr(r, "%s.%s.%s==argument" % (tag, vec, fname), hy, ws[0][1], val)
            else:
                put(r, "%s.%s.%s==argument" % (tag, vec, fname), ws[0][1] is val, "%r" % (ws[0][1],))
    for o in others:
        w = [ix for ix, v in writes(s, ("f", "#vsize", "I")) if ix == (tm.app("fld:" + o, (THIS,), "P"),)]
        put(r, "%s.%s_untouched" % (tag, o), not w, repr(w), kind="frame")


def unit_store_mb_unknowns(twin=False):
    q = "Phreeqc::store_mb_unknowns"
    fn = A.find_function(PREP, q)
    r = U.new_unit("C01.store_mb_unknowns.records_unknown_source_and_coefficient", PREP, q, fn)
    f, ex, fin, info = U.run_function(PREP, q, ctx=ctx(functional=("equal",)))
    Uk, src_, coef = tm.sym("P0_unknown_ptr", "P"), tm.sym("P1_LDBLE_ptr", "P"), tm.sym("P2_coef", "R")
    nrec = nskip = 0
    for s in lives(fin, ("ret",)):
        eqs = events(s, "equal", it=False)
        zero = [e for e in eqs if e.args[0] is coef and tm.isnum(e.args[1]) and e.args[1].args[0] == 0]
        grew = any(ix == (tm.app("fld:mb_unknowns", (THIS,), "P"),) for ix, v in writes(s, ("f", "#vsize", "I")))
        if grew:
            nrec += 1
            _appended(r, "record", ex, s, "mb_unknowns", {"unknown": ("P", Uk), "source": ("P", src_), "coef": ("R", coef if not twin else tm.neg(coef))})
        else:
            nskip += 1
            put(r, "skip.only_a_coefficient_that_compares_equal_to_zero_is_dropped", len(zero) == 1 and proved(list(s.pc), tm.eq(zero[0].result, I(1))), repr(s.pc))
            put(r, "skip.writes_nothing", all(not writes(s, k) for k in s.heap), "", kind="frame")
    put(r, "reach.record_and_skip", nrec == 1 and nskip == 1, "%d/%d" % (nrec, nskip), kind="vacuity", undecided=True)
    r.assumptions += ["equal(a,b,tol) is the tolerance comparison of utilities.cpp (functional, not under contract)", "std::vector model of the engine"]
    return r


def unit_build_mb_sums(twin=False):
    q = "Phreeqc::build_mb_sums"
    fn = A.find_function(PREP, q)
    r = U.new_unit("C01.build_mb_sums.every_recorded_contribution_goes_to_its_unknown's_f", PREP, q, fn)
    if len(loops_of(fn)) != 1:
        raise Undecided("build_mb_sums: %d loops" % len(loops_of(fn)))
    f, ex, its, info = run_iter(PREP, q, 0)
    n = 0
    for s in lives(its, ("run", "cont")):
        n += 1
        iv = [v for k_, v in s.locals.items() if not isinstance(v, tuple) and v is not None and v.op == "sym" and str(v.args[0]).startswith("iter_")]
        i = tm.sym("iter_i", "I") if tm.sym("iter_i", "I") in iv or not iv else iv[0]
        slot = vaddr(ex, s, "mb_unknowns", i)
        sm = events(s, "store_mb")
        put(r, "entry.one_store_mb", len(sm) == 1, "%d" % len(sm), kind="trace")
        if len(sm) != 1:
            continue
        e = sm[0]
        un = fld0(ex, s, "unknown", "P", slot)
        put(r, "entry.source_is_the_entry's_source", e.args[0] is fld0(ex, s, "source", "P", slot), repr(e.args[0]), kind="trace")
        put(r, "entry.target_is_f_of_the_entry's_unknown", e.args[1] is tm.app("fld:f" if not twin else "fld:sum", (un,), "P"), repr(e.args[1]), kind="trace")
        eqr(r, "entry.coefficient_is_the_entry's_coefficient", list(s.pc), e.args[2], fld0(ex, s, "coef", "R", slot))
        bound = [p for p in s.pc if i in tm.subterms(p)]
        if n == 1:
            if len(bound) == 1:
                valid(r, "loop.covers_every_entry_of_mb_unknowns", [], tm.eq(tm.to_bool(bound[0]), tm.lt(i, vsize0(ex, s, "mb_unknowns"))), kind="establishment")
            else:
                put(r, "loop.bound_recognised", False, repr(s.pc), undecided=True)
    put(r, "reach.entries", n >= 1, "%d" % n, kind="vacuity", undecided=True)
    r.assumptions += ["store_mb: unit C01.store_mb; the debug print is not under contract"]
    return r


def unit_store_mb(twin=False):
    q = "Phreeqc::store_mb"
    fn = A.find_function(PREP, q)
    r = U.new_unit("C01.store_mb.term_filed_with_its_source_target_and_coefficient", PREP, q, fn)
    f, ex, fin, info = U.run_function(PREP, q, ctx=ctx(functional=("equal",)))
    src_, tgt, coef = tm.sym("P0_source", "P"), tm.sym("P1_target", "P"), tm.sym("P2_coef", "R")
    n1 = n2 = 0
    for s in lives(fin, ("ret",)):
        eqs = [e for e in events(s, "equal", it=False) if e.args[0] is coef and tm.isnum(e.args[1]) and e.args[1].args[0] == 1]
        grew1 = any(ix == (tm.app("fld:sum_mb1", (THIS,), "P"),) for ix, v in writes(s, ("f", "#vsize", "I")))
        if grew1:
            n1 += 1
            put(r, "unit_list.only_for_a_coefficient_that_compares_equal_to_one", len(eqs) == 1 and proved(list(s.pc), tm.eq(eqs[0].result, I(1))), repr(s.pc))
            _appended(r, "unit_list", ex, s, "sum_mb1", {"source": ("P", src_), "target": ("P", tgt if not twin else src_)}, others=("sum_mb2",))
        else:
            n2 += 1
            _appended(r, "scaled_list", ex, s, "sum_mb2", {"source": ("P", src_), "target": ("P", tgt), "coef": ("R", coef)}, others=("sum_mb1",))
    put(r, "reach.both_lists", n1 == 1 and n2 == 1, "%d/%d" % (n1, n2), kind="vacuity", undecided=True)
    r.assumptions += ["equal(coef,1,TOL)==TRUE means the multiplication may be skipped (relative 1e-9: inside the property's tolerance)"]
    return r


def unit_mb_sums(twin=False):
    q = "Phreeqc::mb_sums"
    fn = A.find_function(MODEL, q)
    r = U.new_unit("C01.mb_sums.f_is_zeroed_then_every_term_added_once", MODEL, q, fn)
    kinds = {}
    for k in range(len(loops_of(fn))):
        f, ex, its, info = run_iter(MODEL, q, k)
        for s in lives(its, ("run", "cont")):
            hy = list(s.pc)
            iv = sorted(set(v for v in s.locals.values() if v is not None and not isinstance(v, tuple) and v.op == "sym" and str(v.args[0]).startswith("iter_")), key=repr)
            wf = writes(s, ("f", "f", "R")); wm = writes(s, ("m", "R"))
            wsum = writes(s, ("f", "sum", "R"))
            if wf or wsum:
                kinds.setdefault("zero", k)
                ok = False
                if not wf:
                    put(r, "zero.f_of_unknown_k_reset", False, "the reset loop writes sum but not f")
                    continue
                for i in iv:
                    xi = vec_elem(ex, s, "x", i)
                    if wf[-1][0] == (xi,):
                        ok = True
                        put(r, "zero.f_of_unknown_k_reset", tm.isnum(wf[-1][1]) and wf[-1][1].args[0] == (0 if not twin else 1), repr(wf[-1][1]))
                        ws = writes(s, ("f", "sum", "R"))
                        put(r, "zero.sum_of_unknown_k_reset", bool(ws) and ws[-1][0] == (xi,) and tm.isnum(ws[-1][1]) and ws[-1][1].args[0] == 0, repr(ws))
                        bound = [p for p in s.pc if i in tm.subterms(p)]
                        valid(r, "zero.covers_every_unknown", [], tm.eq(tm.to_bool(bound[0]) if len(bound) == 1 else tm.FALSE, tm.lt(i, fld0(ex, s, "count_unknowns", "I"))), kind="establishment")
                if not ok:
                    put(r, "zero.writes_f_of_x[k]", False, repr(wf))
            elif wm:
                for lst, scaled in (("sum_mb1", False), ("sum_mb2", True)):
                    for i in iv:
                        slot = vaddr(ex, s, lst, i)
                        tg = fld0(ex, s, "target", "P", slot)
                        if len(wm) == 1 and wm[0][0] == (tg, I(0)):
                            kinds.setdefault(lst, k)
                            mem0 = entry_arr(ex, s, ("m", "R"))
                            sv = tm.select(mem0, fld0(ex, s, "source", "P", slot), I(0))
                            term = sv * fld0(ex, s, "coef", "R", slot) if scaled else sv
                            eqr(r, "%s.target+=source%s" % (lst, "*coef" if scaled else ""), hy, wm[0][1], tm.select(mem0, tg, I(0)) + term)
                            bound = [p for p in s.pc if i in tm.subterms(p)]
                            valid(r, "%s.covers_every_entry" % lst, [], tm.eq(tm.to_bool(bound[0]) if len(bound) == 1 else tm.FALSE, tm.lt(i, vsize0(ex, s, lst))), kind="establishment")
                put(r, "loop%d.one_target_written_per_entry" % k, len(wm) == 1, "%d" % len(wm), kind="frame")
    if set(kinds) == {"sum_mb1", "sum_mb2"}:
        put(r, "zero.f_of_unknown_k_reset", False, "no loop of mb_sums resets x[k]->f: the sums accumulate over evaluations")
    else:
        put(r, "reach.three_loops", set(kinds) == {"zero", "sum_mb1", "sum_mb2"}, repr(kinds), kind="vacuity", undecided=True)
    if set(kinds) == {"zero", "sum_mb1", "sum_mb2"}:
        put(r, "order.reset_precedes_the_additions", kinds["zero"] < min(kinds["sum_mb1"], kinds["sum_mb2"]), repr(kinds), kind="establishment")
        put(r, "order.no_further_loop_rewrites_the_sums", len(loops_of(fn)) == 3, "%d loops" % len(loops_of(fn)), kind="frame", undecided=True)
    r.assumptions += ["&x->f taken by build_mb_sums and the cell *target written here are the same double (address-of a field; the engine keeps them in two components)",
                      "doubles as reals; the order of floating-point additions is not modelled"]
    return r


UNITS = [
    ("C01.store_mb_unknowns.records_unknown_source_and_coefficient", unit_store_mb_unknowns),
    ("C01.build_mb_sums.every_recorded_contribution_goes_to_its_unknown's_f", unit_build_mb_sums),
    ("C01.store_mb.term_filed_with_its_source_target_and_coefficient", unit_store_mb),
    ("C01.mb_sums.f_is_zeroed_then_every_term_added_once", unit_mb_sums),
]
