"""C01 ext: rewriting a reaction to master species.  The rewritten reaction is the original plus multiples of the defining reactions
of the non-master species in it; log K is accumulated with the same multiples (trxn_add); rewriting stops only at master species."""
from props.c01_ext_util import *

TIDY = "src/phreeqcpp/tidy.cpp"
PREP = "src/phreeqcpp/prep.cpp"
STRUCT = "src/phreeqcpp/structures.cpp"
GS = "src/phreeqcpp/global_structures.h"


def _tok(ex, s, i):
    """address of trxn.token[i]"""
    return tm.select(entry_arr(ex, s, ("f", "#vdata", "P")), tm.app("fld:token", (tm.app("fld:trxn", (THIS,), "P"),), "P")) + i


def _rewrite_unit(fname, uid, is_master, what, twin=False):
    """fname: rewrite_eqn_to_secondary | rewrite_eqn_to_primary.
    scan loop (ordinal 1), for an arbitrary token index i >= 1 of the work reaction:
      token's species is not a master of the wanted level  ->  exactly one trxn_add(species->rxn, token coefficient, combine) ; repeat raised ; scan restarts
      token's species is a master                          ->  nothing is added, nothing written, repeat untouched
    pass loop (ordinal 0): repeat is lowered before each scan; scan covers tokens 1 .. count_trxn-1 ; the give-up branch reports an error."""
    q = "Phreeqc::" + fname
    fn = A.find_function(TIDY, q)
    r = U.new_unit(uid, TIDY, q, fn)
    if len(loops_of(fn)) != 2:
        raise Undecided("%s: expected a pass loop and a scan loop, found %d loops" % (fname, len(loops_of(fn))))
    f, ex, its, info = run_iter(TIDY, q, 1)
    drop_head(q, 1)
    ivar = "i" if "i" in info["names"] else "j"
    i = tm.sym("iter_" + ivar, "I")
    nsub = nkeep = 0
    for s in lives(its):
        tk = _tok(ex, s, i)
        sp = fld0(ex, s, "s", "P", tk)
        adds = events(s, "trxn_add")
        hy = list(s.pc)
        # the scan condition: i < count_trxn
        if s.pc:
            valid(r, "scan.covers_tokens_below_count_trxn", [], tm.eq(tm.to_bool(s.pc[0]), tm.lt(i, fld0(ex, s, "count_trxn", "I"))), kind="establishment") if nsub + nkeep == 0 else None
        if proved(hy, isnull(sp)):
            # error path: a token without a species (reported, counted as an input error)
            put(r, "null_species.reported_as_error", bool(events(s, "error_msg")) and not adds, "events %r" % [e.name for e in U.iter_events(s)])
            continue
        master = is_master(ex, s, sp)
        if adds:
            nsub += 1
            put(r, "non_master.one_reaction_added", len(adds) == 1, "%d trxn_add calls" % len(adds), kind="trace")
            e = adds[0]
            valid(r, "non_master.only_when_species_is_not_a_%s_master" % what, hy, tm.not_(master))
            put(r, "non_master.adds_the_defining_reaction_of_THIS_token's_species", e.args[0] is fld0(ex, s, "rxn", "I", sp), repr(e.args[0]), kind="trace")
            want = fld0(ex, s, "coef", "R", tk)
            eqr(r, "non_master.multiple==coefficient_of_the_token", hy, e.args[1], want if not twin else tm.neg(want))
            put(r, "non_master.like_terms_combined_so_the_replaced_species_cancels", e.args[2] is tm.TRUE or e.args[2] == I(1) or (tm.isnum(e.args[2]) and e.args[2].args[0] == 1), repr(e.args[2]), kind="trace")
            rep = local(info, s, "repeat")
            put(r, "non_master.scan_restarts(repeat raised, scan left)", s.status == "brk" and tm.isnum(rep) and rep.args[0] == 1, "status %s repeat %r" % (s.status, rep))
        else:
            nkeep += 1
            valid(r, "master.kept_only_when_species_is_a_%s_master" % what, hy, master)
            rep = local(info, s, "repeat")
            put(r, "master.repeat_untouched_and_scan_continues", rep is tm.sym("iter_repeat", "I") and s.status in ("run", "cont"), "status %s repeat %r" % (s.status, rep))
            put(r, "master.nothing_written", not U.iter_writes(s), repr(U.iter_writes(s))[:200], kind="frame")
    put(r, "reach.both_cases", nsub >= 1 and nkeep >= 1, "%d substituting, %d keeping paths" % (nsub, nkeep), kind="vacuity", undecided=True)
    # the scan starts at token 1 (token 0 is the species being defined)
    init = loops_of(fn)[1]["inner"][0]
    f2, ex2, fin2, info2 = region(TIDY, q, [init])
    for s in lives(fin2):
        v = local(info2, s, ivar)
        put(r, "scan.starts_at_token_1", tm.isnum(v) and v.args[0] == 1, repr(v), kind="establishment")
    # pass loop
    f3, ex3, its3, info3 = run_iter(TIDY, q, 0)
    ent = info3["inner_entries"].get(1, [])
    put(r, "pass.repeat_lowered_before_each_scan", bool(ent) and all(tm.isnum(local(info3, s, "repeat")) and local(info3, s, "repeat").args[0] == 0 for s in ent),
        repr([local(info3, s, "repeat") for s in ent]), kind="establishment")
    for s in lives(its3):
        if s.pc:
            valid(r, "pass.runs_while_repeat_is_raised", [], tm.eq(tm.to_bool(s.pc[0]), tm.eq(tm.sym("iter_repeat", "I"), I(1))), kind="establishment")
            break
    giveup = [s for s in lives(its3) if s.status == "brk"]
    for s in giveup:
        w = [v for ix, v in writes(s, ("f", "parse_error", "I"))]
        put(r, "give_up.counts_a_parse_error_and_reports", bool(events(s, "error_msg")) and len(w) == 1, "writes %r" % (w,))
    put(r, "reach.give_up_branch", len(giveup) == 1, "%d" % len(giveup), kind="vacuity", undecided=True)
    # after the loop: like terms combined, OK returned
    f4, ex4, fin4, info4 = U.run_function(TIDY, q, ctx=ctx())
    for s in lives(fin4, ("ret",)):
        put(r, "exit.combines_like_terms", bool(events(s, "trxn_combine", it=False)), repr([e.name for e in s.events]), kind="trace")
    r.assumptions += ["trxn_add(rxn, c, combine) adds c x rxn (tokens and log K) to the work reaction: unit C01.trxn_add", "doubles as reals",
                      "the loop as a whole (termination, MAX_ADD_EQUATIONS) is argued from the per-pass and per-token contracts; error paths only checked to report"]
    return r


def _master_any(ex, s, sp):
    return tm.or_(nonnull(fld0(ex, s, "secondary", "P", sp)), nonnull(fld0(ex, s, "primary", "P", sp)))


def _master_primary(ex, s, sp):
    return nonnull(fld0(ex, s, "primary", "P", sp))


def unit_rewrite_secondary(twin=False):
    return _rewrite_unit("rewrite_eqn_to_secondary", "C01.rewrite_eqn_to_secondary.adds_defining_reaction_times_coefficient_until_masters", _master_any, "primary_or_secondary", twin)


def unit_rewrite_primary(twin=False):
    return _rewrite_unit("rewrite_eqn_to_primary", "C01.rewrite_eqn_to_primary.adds_defining_reaction_times_coefficient_until_primary_masters", _master_primary, "primary", twin)



def unit_trxn_add(twin=False):
    """trxn_add(r, c, combine): the work reaction gets every token of r with coefficient c x its own, appended at count_trxn, and
    log K (all MAX_LOG_K_INDICES coefficients, so that k_calc of the sum is the sum of the k_calc) += c x log K of r — the SAME multiple;
    when the work reaction is empty (count_trxn == 0) the log K is copied (all callers pass c = 1 then: checked)."""
    q = "Phreeqc::trxn_add"
    fn = A.find_function(STRUCT, q)
    r = U.new_unit("C01.trxn_add.logk_and_tokens_scaled_by_the_same_multiple", STRUCT, q, fn)
    c = ctx(functional=("Get_logk", "Get_dz"), enums_from="global_structures.h", enums=("MAX_LOG_K_INDICES",))
    f, ex, fin, info = U.run_function(STRUCT, q, default="iter", ctx=c)
    coef = tm.sym("P1_coef", "R"); rref = tm.sym("P0_r_ref_ref", "P")
    nK = c.enum_values["MAX_LOG_K_INDICES"]
    i = tm.sym("iter_i", "I")
    seen = {"logk.copy": 0, "logk.add": 0, "dz.copy": 0, "dz.add": 0, "tok": 0}
    cnt0 = tm.select(tm.sym("H0.count_trxn:I", ("A", "P", "I")), THIS)
    for k, sts in sorted(info["iter"].items()):
        for s in lives(sts, ("run", "cont")):
            hy = list(s.pc)
            ws = U.iter_writes(s)
            for key, ix, v in ws:
                if key != ("m", "R"):
                    continue
                base, idx = ix
                which = "logk" if base is tm.app("fld:logk", (tm.app("fld:trxn", (THIS,), "P"),), "P") else ("dz" if base is tm.app("fld:dz", (tm.app("fld:trxn", (THIS,), "P"),), "P") else None)
                if which is None:
                    put(r, "frame.no_other_real_array_written", False, repr(ix), kind="frame"); continue
                if not put(r, "%s.written_at_the_loop_index[loop %d]" % (which, k), idx.op == "sym" and str(idx.args[0]).startswith("iter_"), repr(idx), kind="frame"):
                    continue
                i = idx
                src_arr = tm.app("call:Get_%s" % which, (rref,), "P")
                mem0 = entry_arr(ex, s, ("m", "R"))
                srcv = tm.select(mem0, src_arr, i)
                old = tm.select(mem0, base, i)
                for hyc, empty in cases(hy, tm.eq(cnt0, I(0))):
                    if empty:
                        seen[which + ".copy"] += 1
                        eqr(r, "%s.empty_work_reaction.copied" % which, hyc, v, srcv)
                    else:
                        seen[which + ".add"] += 1
                        eqr(r, "%s.accumulated_with_the_multiple(+= coef*source)" % which, hyc, v, old + (coef if not (twin and which == "logk") else tm.num(1)) * srcv)
                # the loop covers every coefficient
                n = nK if which == "logk" else 3
                bound = [p for p in s.pc if i in tm.subterms(p)]
                if len(bound) == 1:
                    valid(r, "%s.all_%d_coefficients_covered[loop %d]" % (which, n, k), [], tm.eq(tm.to_bool(bound[0]), tm.lt(i, I(n))), kind="establishment")
                else:
                    put(r, "%s.loop_bound_recognised[loop %d]" % (which, k), False, repr(s.pc), undecided=True)
            tokw = [(key, ix, v) for key, ix, v in ws if key in (("f", "s", "P"), ("f", "coef", "R"), ("f", "name", "P"))]
            if tokw:
                seen["tok"] += 1
                nt = tm.sym("iter_next_token", "P")
                cnt = fld0(ex, s, "count_trxn", "I")
                dst = None
                for key, ix, v in tokw:
                    a = ix[0]
                    okdst = a.op == "+" and a.args[1] is cnt and a.args[0].op == "select" and "#vdata" in repr(a.args[0].args[0]) and a.args[0].args[1] == (tm.app("fld:token", (tm.app("fld:trxn", (THIS,), "P"),), "P"),)
                    put(r, "token.%s_appended_at_count_trxn" % key[1], okdst, repr(a), kind="frame")
                    if key[1] == "coef":
                        eqr(r, "token.coefficient==multiple*source_coefficient", hy, v, coef * fld0(ex, s, "coef", "R", nt))
                    if key[1] == "s":
                        put(r, "token.species_is_the_source_token's", v is fld0(ex, s, "s", "P", nt), repr(v))
                put(r, "token.all_three_fields_written", len(tokw) == 3, repr([k_[1] for k_, _, _ in tokw]), kind="frame")
                valid(r, "token.count_trxn_advances_by_one", hy, tm.eq(fld(ex, s, "count_trxn", "I"), cnt + I(1)))
                valid(r, "token.walk_advances_by_one_token", hy, tm.eq(local(info, s, "next_token"), nt + I(1)))
                valid(r, "token.walk_ends_at_the_null_species_sentinel", [], tm.eq(tm.to_bool([p for p in s.pc if nt in tm.subterms(p)][0]), nonnull(fld0(ex, s, "s", "P", nt))), kind="establishment")
    put(r, "reach.all_regions", all(v >= 1 for v in seen.values()), repr(seen), kind="vacuity", undecided=True)
    # the walk starts at token 0 of the source
    wl = [k for k, sts in info["iter"].items() if any("next_token" in info["names"] and sts2.locals.get(info["names"]["next_token"]) is not None for sts2 in sts)]
    for k in wl:
        for s in info["entry"].get(k, []):
            v = s.locals.get(info["names"]["next_token"])
            okv = v is not None and not isinstance(v, tuple) and v.op == "select" and "#vdata" in repr(v.args[0]) and v.args[1] == (tm.app("fld:token", (rref,), "P"),)
            put(r, "token.walk_starts_at_token_0_of_the_source", okv, repr(v), kind="establishment")
    for s in lives(fin, ("ret",)):
        comb = proved(list(s.pc), tm.sym("P2_combine", "B")) if tm.sym("P2_combine", "B") in set().union(*[set(tm.subterms(p)) for p in s.pc]) else None
        has = bool(events(s, "trxn_combine", it=False))
        if comb is True or (comb is None and has):
            put(r, "exit.combine_requested=>like_terms_combined", has, "", kind="trace")
    # first addition copies log K unscaled: every call that follows `count_trxn = 0` must pass the multiple 1
    import glob
    nsite = 0
    for path in sorted(glob.glob(os.path.join(REPO, "src/phreeqcpp/*.cpp"))):
        rel = os.path.relpath(path, REPO)
        txt = A.squeeze(src(rel).decode("latin1"))        # comment- and blank-free text: linear-time match, insensitive to re-formatting
        for k_site, m in enumerate(re.finditer(r"count_trxn=0;(trxn_add(?:_phase)?)\(([^;]*?),([^,;]*?),(\w+)\);", txt)):
            nsite += 1
            put(r, "callers.first_addition_into_an_empty_work_reaction_has_multiple_1[%s#%d]" % (rel.split("/")[-1], k_site),
                m.group(3).strip() in ("1.0", "1", "1.0e0"), m.group(3), kind="structural", backend="syntactic")
    put(r, "reach.call_sites", nsite >= 8, "%d" % nsite, kind="vacuity", undecided=True)
    r.assumptions += ["CReaction::Get_logk/Get_dz return the arrays of the source reaction", "doubles as reals", "trxn_combine (sorting, merging like terms) is not under this contract",
                      "call-site obligation is text-anchored (a trxn_add directly after `count_trxn = 0;`)"]
    return r


def unit_rewrite_master(twin=False):
    """rewrite_master_to_secondary(m1, m2): work reaction := rxn_primary(m1) + k * rxn_primary(m2) with k chosen so that the common
    primary master species cancels: c1 + k*c2 == 0, c_j = coefficient of that species in rxn_primary(m_j).  Masters of different elements
    or a reaction without the primary master: error, nothing added."""
    q = "Phreeqc::rewrite_master_to_secondary"
    fn = A.find_function(PREP, q)
    r = U.new_unit("C01.rewrite_master_to_secondary.difference_of_primary_reactions_cancels_the_primary_master", PREP, q, fn)
    c = ctx(functional=("rxn_find_coef", "equal"))
    c.snapshot = {"trxn_add": [("count_trxn", "I")]}
    f, ex, fin, info = U.run_function(PREP, q, ctx=c)
    m1, m2 = tm.sym("P0_master_ptr1", "P"), tm.sym("P1_master_ptr2", "P")
    nok = nerr = 0
    for s in lives(fin, ("ret",)):
        hy = list(s.pc)
        F = lambda name, so, o: fld0(ex, s, name, so, o)
        p1 = F("primary", "P", F("elt", "P", m1)); p2 = F("primary", "P", F("elt", "P", m2))
        adds = events(s, "trxn_add", it=False)
        if adds:
            nok += 1
            valid(r, "ok.same_element(primary masters equal and not null)", hy, tm.and_(tm.eq(p1, p2), nonnull(p1)))
            put(r, "ok.two_reactions_added", len(adds) == 2, "%d" % len(adds), kind="trace")
            if len(adds) != 2:
                continue
            a, b = adds
            rp1, rp2 = F("rxn_primary", "I", m1), F("rxn_primary", "I", m2)
            put(r, "ok.first_is_primary_reaction_of_master1_times_1", a.args[0] is rp1 and tm.isnum(a.args[1]) and a.args[1].args[0] == 1, repr(a.args[:2]), kind="trace")
            snap = a.snap or {}
            cnt = snap.get("count_trxn") if isinstance(snap, dict) else None
            put(r, "ok.work_reaction_emptied_first(count_trxn==0 at the first addition)", cnt is not None and tm.isnum(cnt) and cnt.args[0] == 0, repr(a.snap), kind="trace")
            put(r, "ok.second_is_primary_reaction_of_master2", b.args[0] is rp2, repr(b.args[0]), kind="trace")
            finds = events(s, "rxn_find_coef", it=False)
            pname = F("name", "P", F("s", "P", p1))
            byrx = {e.args[0]: e for e in finds}
            okf = rp1 in byrx and rp2 in byrx and all(e.args[1] is pname for e in finds)
            put(r, "ok.coefficients_looked_up_for_the_primary_master_species_in_both_reactions", okf, repr([e.args for e in finds]), kind="trace")
            if okf:
                c1, c2 = byrx[rp1].result, byrx[rp2].result
                k = b.args[1]
                eqr(r, "ok.multiple_cancels_the_primary_master(c1+k*c2==0)", hy + [tm.not_(tm.eq(c2, tm.num(0)))], (c1 + k * c2) * c2, tm.num(0) if not twin else c1 * c2)
            valid(r, "ok.returns_OK", hy, tm.eq(s.ret, I(1)))
        else:
            nerr += 1
            valid(r, "error.returns_ERROR", hy, tm.eq(s.ret, I(0)))
            w = [v for ix, v in writes(s, ("f", "input_error", "I"))]
            put(r, "error.counted_and_reported", len(w) == 1 and bool(events(s, "error_msg", it=False)), repr(w))
            put(r, "error.work_reaction_untouched", not writes(s, ("f", "count_trxn", "I")), "", kind="frame")
    put(r, "reach.ok_and_error_paths", nok == 1 and nerr == 2, "%d ok, %d error" % (nok, nerr), kind="vacuity", undecided=True)
    r.assumptions += ["rxn_find_coef(rxn, name) returns the coefficient of the named species in rxn (0 when absent); equal(c,0,TOL)==FALSE implies c != 0",
                      "trxn_add: unit C01.trxn_add", "OK == 1, ERROR == 0 (global_structures.h)"]
    return r


def unit_switch_bases(twin=False):
    """switch_bases: for a mole-balance unknown whose first master species is dominated (by > 10 log units) by another redox state, the
    two masters are SWAPPED (no master lost), the new basis species is in the model (in = TRUE), the old one is rewritten (in = REWRITE),
    and the unknown's log activity is that of the new basis species: la = lm + lg of it.  TRUE is returned so that the model is rebuilt."""
    q = "Phreeqc::switch_bases"
    fn = A.find_function(PREP, q)
    r = U.new_unit("C01.switch_bases.swaps_masters_and_takes_la=lm+lg_of_the_new_basis", PREP, q, fn)
    REWRITE = int(hdr_define("REWRITE"))
    # (1) the search loop keeps the invariant  first != 0 => la == lm+lg of master[first]
    k = the_loop(fn, PREP, "la1=", what="search for a more active master")
    f, ex, its, info = run_iter(PREP, q, k)
    drop_head(q, k)
    j = tm.sym("iter_j", "I"); la0 = tm.sym("iter_la", "R"); f0 = tm.sym("iter_first", "I")
    nup = nkeep = 0
    for s in lives(its, ("run", "cont")):
        hy = list(s.pc)
        xi = vec_elem(ex, s, "x", local(info, s, "i"))
        mj = vec_elem(ex, s, "master", j, owner=xi)
        sj = fld0(ex, s, "s", "P", mj)
        laj = fld0(ex, s, "lm", "R", sj) + (fld0(ex, s, "lg", "R", sj) if not twin else tm.num(0))
        la1, f1 = local(info, s, "la"), local(info, s, "first")
        put(r, "search.writes_no_memory", not U.iter_writes(s), "", kind="frame")
        if f1 is f0:
            nkeep += 1
            put(r, "search.no_candidate=>la_unchanged", la1 is la0, repr(la1))
            valid(r, "search.a_later_candidate_is_kept_out_only_when_not_more_active_than_the_best_so_far", hy, tm.or_(tm.eq(f0, I(0)), tm.le(laj, la0)))
        else:
            nup += 1
            valid(r, "search.candidate_index_is_this_master", hy, tm.eq(f1, j))
            eqr(r, "search.la_becomes_lm+lg_of_the_candidate's_species", hy, la1, laj)
            valid(r, "search.candidate_taken_only_when_more_active_than_the_best_so_far", hy, tm.lt(la0, laj))
    for s in lives(its, ("run", "cont"))[:1]:
        xi = vec_elem(ex, s, "x", local(info, s, "i"))
        b = [p for p in s.pc if j in tm.subterms(p) and "#vsize" in repr(p)]
        valid(r, "search.covers_every_master_of_the_unknown", [], tm.eq(tm.to_bool(b[0]) if b else tm.FALSE, tm.lt(j, tm.select(entry_arr(ex, s, ("f", "#vsize", "I")), tm.app("fld:master", (xi,), "P")))), kind="establishment")
    put(r, "reach.search_paths", nup >= 2 and nkeep >= 1, "%d updating, %d keeping" % (nup, nkeep), kind="vacuity", undecided=True)
    init = loops_of(fn)[k]["inner"][0]
    f2, ex2, fin2, info2 = region(PREP, q, [init])
    for s in lives(fin2):
        v = local(info2, s, "j")
        put(r, "search.starts_at_master_1(master 0 is the current basis)", tm.isnum(v) and v.args[0] == 1, repr(v), kind="establishment")
    # (2) the swap
    blk = ifs_with_then(fn, PREP, "return_value=TRUE")
    if len(blk) != 1:
        raise Undecided("switch block (the branch that sets return_value = TRUE) of switch_bases not found (%d)" % len(blk))
    f3, ex3, fin3, info3 = region(PREP, q, [blk[0]])
    first, la, iL = tm.sym("L_first", "I"), tm.sym("L_la", "R"), tm.sym("L_i", "I")
    nsw = nno = 0
    for s in lives(fin3, ("run",)):
        hy = list(s.pc)
        xi = vec_elem(ex3, s, "x", iL)
        m0 = vec_elem(ex3, s, "master", I(0), owner=xi); mf = vec_elem(ex3, s, "master", first, owner=xi)
        if all(not writes(s, key) for key in s.heap):
            nno += 1
            valid(r, "no_switch.only_when_no_more_active_master_was_found(first==0)", hy, tm.eq(first, I(0)))
            put(r, "no_switch.result_unchanged", local(info3, s, "return_value") is tm.sym("L_return_value", "I"), "", kind="frame")
            continue
        nsw += 1
        valid(r, "switch.whenever_a_more_active_master_was_found(first!=0)", hy, tm.not_(tm.eq(first, I(0))))
        hy2 = hy + [tm.not_(tm.eq(m0, mf)), tm.lt(I(0), first)]
        n0 = vec_elem(ex3, s, "master", I(0), owner=xi, entry=False); nf = vec_elem(ex3, s, "master", first, owner=xi, entry=False)
        valid(r, "switch.new_basis_is_the_candidate(master[0]' == master[first])", hy2, tm.eq(n0, mf))
        valid(r, "switch.old_basis_kept_in_the_list(master[first]' == master[0])", hy2, tm.eq(nf, m0))
        valid(r, "switch.new_basis_in_model(in == TRUE)", hy2, tm.eq(fld(ex3, s, "in", "I", mf), I(1)))
        valid(r, "switch.old_basis_marked_REWRITE", hy2, tm.eq(fld(ex3, s, "in", "I", m0), I(REWRITE if not twin else 0)))
        eqr(r, "switch.unknown_la==la_of_the_candidate", hy2, fld(ex3, s, "la", "R", xi), la)
        valid(r, "switch.basis_species_la==la_of_the_candidate", hy2 + [tm.not_(tm.eq(fld0(ex3, s, "s", "P", mf), xi))], tm.eq(fld(ex3, s, "la", "R", fld0(ex3, s, "s", "P", mf)), la))
        rv = local(info3, s, "return_value")
        put(r, "switch.reports_TRUE_so_the_model_is_rebuilt", tm.isnum(rv) and rv.args[0] == 1, repr(rv))
        other = [key for key in s.heap if writes(s, key) and key not in (("m", "P"), ("f", "in", "I"), ("f", "la", "R"), ("f", "error_string", "P"))]
        put(r, "switch.frame(only the master list, in flags and the two la)", not other and len(writes(s, ("m", "P"))) == 2 and len(writes(s, ("f", "in", "I"))) == 2 and len(writes(s, ("f", "la", "R"))) == 2, repr(other), kind="frame")
    put(r, "reach.switch_and_no_switch", nsw == 1 and nno == 1, "%d/%d" % (nsw, nno), kind="vacuity", undecided=True)
    # (3) only mole-balance unknowns are examined; the result is what the switch block left
    f4, ex4, its4, info4 = run_iter(PREP, q, 0, ctx(enums_from="global_structures.h", enums=("MB", "PITZER_GAMMA")))
    MB = ctx(enums_from="global_structures.h", enums=("MB",)).enum_values["MB"]
    for s in lives(its4, ("run", "cont", "brk")):
        xi = vec_elem(ex4, s, "x", tm.sym("iter_i", "I"))
        if any(writes(s, key) for key in s.heap) or (getattr(ex4, "iter_written", None) and s.status == "run"):
            valid(r, "outer.only_MB_unknowns_are_switched", list(s.pc), tm.eq(fld0(ex4, s, "type", "I", xi), I(MB)))
            break
    ff, exf, finf, infof = U.run_function(PREP, q, ctx=ctx())
    for s in lives(finf, ("ret",)):
        put(r, "exit.returns_the_switch_flag", s.ret is local(infof, s, "return_value"), repr(s.ret))
    r.assumptions += ["TRUE == 1; REWRITE from global_structures.h", "the masters of one unknown are distinct objects", "doubles as reals", "the size of the switching threshold (10 log units) is not pinned, only that a switch goes to a MORE active master",
                      "rebuilding the model after a switch (model(): build_model) is not under this contract"]
    return r


def hdr_define(name):
    from vf.astvc import hdr
    return hdr.define_value(GS, name)


UNITS = [
    ("C01.rewrite_eqn_to_secondary.adds_defining_reaction_times_coefficient_until_masters", unit_rewrite_secondary),
    ("C01.rewrite_eqn_to_primary.adds_defining_reaction_times_coefficient_until_primary_masters", unit_rewrite_primary),
    ("C01.trxn_add.logk_and_tokens_scaled_by_the_same_multiple", unit_trxn_add),
    ("C01.rewrite_master_to_secondary.difference_of_primary_reactions_cancels_the_primary_master", unit_rewrite_master),
    ("C01.switch_bases.swaps_masters_and_takes_la=lm+lg_of_the_new_basis", unit_switch_bases),
]
