"""C01 ext: rewriting a reaction to master species.  The rewritten reaction is the original plus multiples of the defining reactions
of the non-master species in it; log K is accumulated with the same multiples (trxn_add); rewriting stops only at master species."""
from props.c01_ext_util import *

TIDY = "src/phreeqcpp/tidy.cpp"
PREP = "src/phreeqcpp/prep.cpp"
STRUCT = "src/phreeqcpp/structures.cpp"
GS = "src/phreeqcpp/global_structures.h"


def _tok(ex, s, i):
    """address of trxn.token[i]"""
    return tm.select(entry_arr(ex, s, ("f", "#vdata", "P")), tm.app("fld:token", (tm.app("fld:trxn", (THIS,), "P"),), "P")) + i


def _rewrite_unit(fname, uid, is_master, what, twin=False):
    """fname: rewrite_eqn_to_secondary | rewrite_eqn_to_primary.
    scan loop (ordinal 1), for an arbitrary token index i >= 1 of the work reaction:
      token's species is not a master of the wanted level  ->  exactly one trxn_add(species->rxn, token coefficient, combine) ; repeat raised ; scan restarts
      token's species is a master                          ->  nothing is added, nothing written, repeat untouched
    pass loop (ordinal 0): repeat is lowered before each scan; scan covers tokens 1 .. count_trxn-1 ; the give-up branch reports an error."""
    q = "Phreeqc::" + fname
    fn = A.find_function(TIDY, q)
    r = U.new_unit(uid, TIDY, q, fn)
    if len(loops_of(fn)) != 2:
        raise Undecided("%s: expected a pass loop and a scan loop, found %d loops" % (fname, len(loops_of(fn))))
    f, ex, its, info = run_iter(TIDY, q, 1)
    drop_head(q, 1)
    ivar = "i" if "i" in info["names"] else "j"
    i = tm.sym("iter_" + ivar, "I")
    nsub = nkeep = 0
    for s in lives(its):
        tk = _tok(ex, s, i)
        sp = fld0(ex, s, "s", "P", tk)
        adds = events(s, "trxn_add")
        hy = list(s.pc)
        # the scan condition: i < count_trxn
        if s.pc:
            valid(r, "scan.covers_tokens_below_count_trxn", [], tm.eq(tm.to_bool(s.pc[0]), tm.lt(i, fld0(ex, s, "count_trxn", "I"))), kind="establishment") if nsub + nkeep == 0 else None
        if proved(hy, isnull(sp)):
            # error path: a token without a species (reported, counted as an input error)
            put(r, "null_species.reported_as_error", bool(events(s, "error_msg")) and not adds, "events %r" % [e.name for e in U.iter_events(s)])
            continue
        master = is_master(ex, s, sp)
        if adds:
            nsub += 1
            put(r, "non_master.one_reaction_added", len(adds) == 1, "%d trxn_add calls" % len(adds), kind="trace")
            e = adds[0]
            valid(r, "non_master.only_when_species_is_not_a_%s_master" % what, hy, tm.not_(master))
            put(r, "non_master.adds_the_defining_reaction_of_THIS_token's_species", e.args[0] is fld0(ex, s, "rxn", "I", sp), repr(e.args[0]), kind="trace")
            want = fld0(ex, s, "coef", "R", tk)
            eqr(r, "non_master.multiple==coefficient_of_the_token", hy, e.args[1], want if not twin else tm.neg(want))
            put(r, "non_master.like_terms_combined_so_the_replaced_species_cancels", e.args[2] is tm.TRUE or e.args[2] == I(1) or (tm.isnum(e.args[2]) and e.args[2].args[0] == 1), repr(e.args[2]), kind="trace")
            rep = local(info, s, "repeat")
            put(r, "non_master.scan_restarts(repeat raised, scan left)", s.status == "brk" and tm.isnum(rep) and rep.args[0] == 1, "status %s repeat %r" % (s.status, rep))
        else:
            nkeep += 1
            valid(r, "master.kept_only_when_species_is_a_%s_master" % what, hy, master)
            rep = local(info, s, "repeat")
            put(r, "master.repeat_untouched_and_scan_continues", rep is tm.sym("iter_repeat", "I") and s.status in ("run", "cont"), "status %s repeat %r" % (s.status, rep))
            put(r, "master.nothing_written", not U.iter_writes(s), repr(U.iter_writes(s))[:200], kind="frame")
    put(r, "reach.both_cases", nsub >= 1 and nkeep >= 1, "%d substituting, %d keeping paths" % (nsub, nkeep), kind="vacuity", undecided=True)
    # the scan starts at token 1 (token 0 is the species being defined)
    init = loops_of(fn)[1]["inner"][0]
    f2, ex2, fin2, info2 = region(TIDY, q, [init])
    for s in lives(fin2):
        v = local(info2, s, ivar)
        put(r, "scan.starts_at_token_1", tm.isnum(v) and v.args[0] == 1, repr(v), kind="establishment")
    # pass loop
    f3, ex3, its3, info3 = run_iter(TIDY, q, 0)
    ent = info3["inner_entries"].get(1, [])
    put(r, "pass.repeat_lowered_before_each_scan", bool(ent) and all(tm.isnum(local(info3, s, "repeat")) and local(info3, s, "repeat").args[0] == 0 for s in ent),
        repr([local(info3, s, "repeat") for s in ent]), kind="establishment")
    for s in lives(its3):
        if s.pc:
            valid(r, "pass.runs_while_repeat_is_raised", [], tm.eq(tm.to_bool(s.pc[0]), tm.eq(tm.sym("iter_repeat", "I"), I(1))), kind="establishment")
            break
    giveup = [s for s in lives(its3) if s.status == "brk"]
    for s in giveup:
        w = [v for ix, v in writes(s, ("f", "parse_error", "I"))]
        put(r, "give_up.counts_a_parse_error_and_reports", bool(events(s, "error_msg")) and len(w) == 1, "writes %r" % (w,))
    put(r, "reach.give_up_branch", len(giveup) == 1, "%d" % len(giveup), kind="vacuity", undecided=True)
    # after the loop: like terms combined, OK returned
    f4, ex4, fin4, info4 = U.run_function(TIDY, q, ctx=ctx())
    for s in lives(fin4, ("ret",)):
        put(r, "exit.combines_like_terms", bool(events(s, "trxn_combine", it=False)), repr([e.name for e in s.events]), kind="trace")
    r.assumptions += ["trxn_add(rxn, c, combine) adds c x rxn (tokens and log K) to the work reaction: unit C01.trxn_add", "doubles as reals",
                      "the loop as a whole (termination, MAX_ADD_EQUATIONS) is argued from the per-pass and per-token contracts; error paths only checked to report"]
    return r


def _master_any(ex, s, sp):
    return tm.or_(nonnull(fld0(ex, s, "secondary", "P", sp)), nonnull(fld0(ex, s, "primary", "P", sp)))


def _master_primary(ex, s, sp):
    return nonnull(fld0(ex, s, "primary", "P", sp))


def unit_rewrite_secondary(twin=False):
    return _rewrite_unit("rewrite_eqn_to_secondary", "C01.rewrite_eqn_to_secondary.adds_defining_reaction_times_coefficient_until_masters", _master_any, "primary_or_secondary", twin)


def unit_rewrite_primary(twin=False):
    return _rewrite_unit("rewrite_eqn_to_primary", "C01.rewrite_eqn_to_primary.adds_defining_reaction_times_coefficient_until_primary_masters", _master_primary, "primary", twin)


UNITS = [
    ("C01.rewrite_eqn_to_secondary.adds_defining_reaction_times_coefficient_until_masters", unit_rewrite_secondary),
    ("C01.rewrite_eqn_to_primary.adds_defining_reaction_times_coefficient_until_primary_masters", unit_rewrite_primary),
]
