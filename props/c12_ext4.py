"""C12 (fourth wave), ReadClass.cxx run_as_cells(): the TIME handed to every reaction step of RUN_CELLS and the clock afterwards.

The property: the result at time T does not depend on how T is divided into steps or on INCREMENTAL_REACTIONS.  For RUN_CELLS that needs:
with -time_step T and n = count_steps steps, step k (1..n) integrates  T*k/n measured from the start of the cell (cumulative steps, every step
restarts from the copy of the initial state) or T/n (incremental steps, continuing from the previous one), the elapsed time shown after step k
is T*k/n in both modes, the steps k = 1..n are all made, so the time integrated at the end is T*n/n == T == sum of the n increments; without
-time_step the step is the KINETICS block's own (Current_step, under C12.Current_step); and the total-time clock after the run is
start + elapsed, `start` being -start_time when given, else the clock as it stood - for every cell the same start.

Which cells run and what is saved back: C14.run_as_cells.* ; rate_sim_time update shape: C12.step_drivers.* (not repeated here)."""
UNITS = []
from props.common import *
from props.c11_ext import fast_twin, Agg, proved, reach, loops_of, I, R, _top
from vf.core import FAILED, DISCHARGED, UNDECIDED, Undecided

RC = "src/phreeqcpp/ReadClass.cxx"
Q = "Phreeqc::run_as_cells"
NA_ = tm.num(-98.7654321)


def _calls(node, name):
    return [y for y in A.walk(node) if y.get("kind") == "CXXMemberCallExpr" and text_of(RC, y).startswith(name + "(")]


def _contains(outer, inner):
    return any(z is inner for z in A.walk(outer))


def unit_run_as_cells_time(twin=False):
    """Phreeqc::run_as_cells(): one pass of the reaction-step loop and one pass of the cell loop from an ARBITRARY state, the statements before
    and after them as regions.  Contract (T = run_info.Get_time_step(), n = count_steps, k = reaction_step, inc = incremental_reactions):
      * count_steps >= 1 when the step loop is reached; the loop makes the steps k = 1, 2, .., n (starts at 1, goes on exactly while k <= n,
        k advances by one, the body writes neither k nor n);
      * every pass calls run_reactions exactly once, unconditionally, with the time
            0                      when KINETICS does not take part,
            T*k/n                  -time_step given, cumulative steps,
            T/n                    -time_step given, incremental steps,
            Current_step(inc, k) of the scratch KINETICS (-2)   otherwise;
      * the step clock is reset (rate_sim_time_start = rate_sim_time = 0) for every cell before its first step; INV(k): incremental steps:
        rate_sim_time_start == T*k/n after step k given T*(k-1)/n before it (so the increments add up), cumulative: untouched; in both modes the
        elapsed time rate_sim_time shown after step k is T*k/n; hence after the last step (k == n) it is T for every n >= 1 (closing identity);
      * total-time clock: the start value is -start_time when given, else the clock on entry; every cell that runs starts from that value
        (written once, unconditionally, before its steps, nothing else writes it in the pass), and after the walk the clock is advanced once by
        the elapsed time of the steps: start + T."""
    fn = A.find_function(RC, Q)
    r = U.new_unit("C12.run_as_cells.time_asked_for_is_integrated_whatever_the_number_of_steps_and_the_clock_ends_at_start_plus_it", RC, Q, fn)
    ag = Agg(r)
    lps = loops_of(fn)
    with_rr = [k for k, lp in enumerate(lps) if _calls(lp["inner"][-1], "run_reactions")]
    if len(with_rr) != 2:
        raise Undecided("cell loop / step loop of run_as_cells not found (%d loops contain run_reactions)" % len(with_rr))
    k_cell, k_step = with_rr
    cell, step = lps[k_cell], lps[k_step]
    if not _contains(cell, step):
        raise Undecided("step loop is not inside the cell loop")
    fnl = ("Get_time_step", "Get_kinetics_in", "Current_step", "Rxn_find", "Get_start_time", "Get_reaction_steps", "Get_countTemps", "Get_count",
           "Get_reaction_in", "Get_reaction_ptr", "Get_kinetics_ptr", "Get_temperature_in", "Get_temperature_ptr", "Get_pressure_in", "Get_pressure_ptr")
    RI = tm.app("fld:run_info", (THIS,), "P")
    T = tm.app("call:Get_time_step", (RI,), "R")

    # ------------------------------------------------------------------ one pass of the step loop
    c1 = ctx(functional=fnl)
    c1.record_types.add("save")
    f, ex, its, info = U.run_loop_isolated(RC, Q, k_step, ctx=c1)
    init, cond, inc_node, body = ex.loop_parts(step)
    n_ = local(info, info["entry_state"], "count_steps")
    npass = 0
    seen = set()
    for s in live(its, ("run", "cont")):
        npass += 1
        k_ = tm.select(entry_arr(ex, s, ("f", "reaction_step", "I")), THIS)
        incv = fld0(ex, s, "incremental_reactions", "I")
        hy0 = list(s.pc) + [tm.le(I(1), n_), tm.or_(tm.eq(incv, I(0)), tm.eq(incv, I(1)))]
        if B.z3_sat(hy0) == "unsat":
            continue
        rr = [e for e in U.iter_events(s) if e.name.split("::")[-1] == "run_reactions"]
        ag.put("step.integrated_exactly_once_per_pass_unconditionally", len(rr) == 1 and rr[0].guard is tm.TRUE, rr)
        ag.put("step.body_leaves_the_step_number_alone", not writes(s, ("f", "reaction_step", "I")), writes(s, ("f", "reaction_step", "I")), kind="frame")
        ag.put("step.body_leaves_the_total_time_clock_alone", not writes(s, ("f", "initial_total_time", "R")), writes(s, ("f", "initial_total_time", "R")), kind="frame")
        ag.put("step.body_leaves_the_number_of_steps_alone", local(info, s, "count_steps") is n_, local(info, s, "count_steps"), kind="frame")
        if len(rr) != 1:
            continue
        kt = rr[0].args[1]
        kin_in = next((e.result for e in U.iter_events(s) if e.name.split("::")[-1] == "Get_kinetics_in"), None)
        if kin_in is None:
            ag.put("step.time_depends_on_whether_KINETICS_takes_part", proved(hy0, tm.eq(kt, R(0))), kt); continue
        kin_on = tm.to_bool(kin_in)
        tR = tm.to_real
        start0 = fld0(ex, s, "rate_sim_time_start", "R")
        start1 = fld(ex, s, "rate_sim_time_start", "R")
        el1 = fld(ex, s, "rate_sim_time", "R")
        for hy1, on_ in cases(hy0, kin_on):
            if not on_:
                seen.add("off")
                ag.eq("step_time.no_KINETICS:0", hy1, kt, R(0)); continue
            for hy2, given in cases(hy1, tm.not_(tm.eq(T, NA_))):
                for hy, incr in cases(hy2, tm.eq(incv, I(1))):
                    if given and not incr:
                        seen.add("cum")
                        want = _div(_mul(tR(k_), T), tR(n_)) if not twin else _div(T, tR(n_))
                        ag.valid("step_time.time_step_given.cumulative:T*k/n_from_the_start", hy, tm.eq(kt, want))
                        ag.valid("clock.cumulative.elapsed_after_step_k==T*k/n", hy, tm.eq(el1, _div(_mul(tR(k_), T), tR(n_))))
                        ag.put("clock.cumulative.start_of_step_clock_untouched", start1 is start0 or proved(hy, tm.eq(start1, start0)), start1)
                    elif given and incr:
                        seen.add("inc")
                        ag.valid("step_time.time_step_given.incremental:T/n_each", hy, tm.eq(kt, _div(T, tR(n_))))
                        inv0 = tm.eq(start0, _div(_mul(tR(k_) - R(1), T), tR(n_)))
                        ag.valid("clock.incremental.INV_kept:start==T*(k-1)/n_before=>T*k/n_after(the_increments_add_up)", hy + [inv0], tm.eq(start1, _div(_mul(tR(k_), T), tR(n_))))
                        ag.valid("clock.incremental.elapsed_after_step_k==T*k/n", hy + [inv0], tm.eq(el1, _div(_mul(tR(k_), T), tR(n_))))
                    else:
                        seen.add("own")
                        cs = [e for e in U.iter_events(s) if e.name.split("::")[-1] == "Current_step"]
                        okc = len(cs) == 1 and kt is cs[0].result
                        ag.put("step_time.no_time_step:the_KINETICS_blocks_own_step(Current_step_result_handed_on)", okc, (kt, cs))
                        if len(cs) == 1:
                            want_recv = tm.app("call:Rxn_find", (tm.NULL, tm.app("fld:Rxn_kinetics_map", (THIS,), "P"), I(-2)), "P")
                            ag.put("step_time.no_time_step:asked_of_the_scratch_KINETICS_-2", cs[0].recv is want_recv, cs[0].recv)
                            a0 = cs[0].args[0]
                            a0b = a0 if a0.sort == "B" else tm.not_(tm.eq(a0, I(0)))
                            ag.valid("step_time.no_time_step:asked_with_the_incremental_flag", hy, a0b if incr else tm.not_(a0b))
                            ag.valid("step_time.no_time_step:asked_for_step_k", hy, tm.eq(cs[0].args[1], k_))
                            if incr:
                                ag.valid("clock.own_steps.incremental.elapsed==previous+step", hy, tm.eq(el1, start0 + kt))
                                ag.valid("clock.own_steps.incremental.start_advanced_by_the_step", hy, tm.eq(start1, start0 + kt))
                            else:
                                ag.valid("clock.own_steps.cumulative.elapsed==step", hy, tm.eq(el1, kt))
        # the pass continues with k+1
        if inc_node is not None:
            s2 = s.clone(); s2.status = "run"
            for s3, _v in ex.ev(inc_node, s2):
                ag.valid("steps.next_pass_is_step_k+1", hy0, tm.eq(fld(ex, s3, "reaction_step", "I"), k_ + I(1)))
    r.add("reach.every_way_of_timing_a_step", DISCHARGED if seen == {"off", "cum", "inc", "own"} else UNDECIDED, "symex", 0, repr(sorted(seen)), kind="vacuity")
    reach(r, "step_pass", npass, 4)
    # range of the step loop: k = 1 .. n
    kI = tm.select(tm.sym("Hiter.reaction_step:I", ("A", "P", "I")), THIS)
    conds = [s_.pc[0] for s_ in its if s_.pc]
    if conds:
        c0 = conds[0]
        want = tm.le(kI, n_)
        ag.put("steps.loop_goes_on_exactly_while_k<=n", proved([want], c0) and proved([c0], want), c0)
    else:
        ag.put("steps.loop_goes_on_exactly_while_k<=n", None, "condition not read")
    v0 = None
    if init is not None:
        for s0 in ex.exec(init, [info["entry_state"].clone()]):
            v0 = fld(ex, s0, "reaction_step", "I")
    ag.put("steps.first_step_is_number_1", v0 is not None and proved([], tm.eq(v0, I(1))), v0)
    # closing identities (pure arithmetic, all T, all n >= 1): last step reaches T; n increments of T/n make T
    Ts, ns = tm.sym("T", "R"), tm.sym("n", "I")
    nr = tm.to_real(ns)
    ag.valid("closing.elapsed_after_the_last_step(k==n)_is_T_for_every_n>=1", [tm.le(I(1), ns)], tm.eq(_div(_mul(nr, Ts), nr), Ts))
    ag.valid("closing.n_increments_of_T/n_add_up_to_T", [tm.le(I(1), ns)], tm.eq(_mul(nr, _div(Ts, nr)), Ts))

    # ------------------------------------------------------------------ one pass of the cell loop (step loop opaque)
    c2 = ctx(functional=fnl + ("begin", "end", "Get_cells", "Get_numbers"))
    c2.record_types.add("save")
    f2, ex2, cits, cinfo = U.run_loop_isolated(RC, Q, k_cell, ctx=c2)
    ncell = 0
    save_ = local(cinfo, cinfo["entry_state"], "initial_total_time_save")
    for s in live(cits, ("run", "cont")):
        evs_ = U.iter_events(s)
        runs = [e for e in evs_ if e.name.split("::")[-1] == "set_advection"]
        if not runs:
            ag.put("cell.skipped_cell_leaves_the_clocks_alone", not writes(s, ("f", "initial_total_time", "R")) and not writes(s, ("f", "rate_sim_time_start", "R")), "", kind="frame")
            continue
        ncell += 1
        w = writes(s, ("f", "initial_total_time", "R"))
        ag.put("cell.clock_not_moved_after_the_steps_of_a_cell", not w, w, kind="frame")
        ag.put("cell.start_value_not_changed_by_a_cell", local(cinfo, s, "initial_total_time_save") is save_, local(cinfo, s, "initial_total_time_save"), kind="frame")
    reach(r, "cell_pass", ncell, 1)
    # entry states of the step loop inside the cell pass: the step clock was reset and the number of steps is at least 1
    nent = 0
    for s in cinfo["inner_entries"].get(k_step, []):
        if B.z3_sat(list(s.pc)) == "unsat":
            continue
        nent += 1
        ag.valid("cell.count_steps>=1_when_the_steps_begin", list(s.pc), tm.le(I(1), local(cinfo, s, "count_steps")))
        ag.eq("cell.step_clock_reset_before_the_first_step:rate_sim_time_start==0", list(s.pc), fld(ex2, s, "rate_sim_time_start", "R"), R(0))
        ag.eq("cell.step_clock_reset_before_the_first_step:rate_sim_time==0", list(s.pc), fld(ex2, s, "rate_sim_time", "R"), R(0))
        # without -time_step the KINETICS block's own list of steps is the time asked for: none of its steps may be left out
        USE = tm.app("fld:use", (THIS,), "P")
        kptr = tm.app("call:Get_kinetics_ptr", (USE,), "P")
        ksteps = tm.app("call:Get_reaction_steps", (kptr,), "I")
        allsteps = tm.and_(tm.not_(fld0(ex2, s, "run_cells_one_step", "B")), tm.to_bool(tm.app("call:Get_kinetics_in", (USE,), "B")), tm.not_(tm.eq(kptr, tm.NULL)))
        for hy, want_all in cases(list(s.pc), allsteps):
            if want_all:
                ag.valid("cell.at_least_as_many_steps_as_the_KINETICS_block_lists(unless_one_step_is_asked_for)", hy, tm.le(ksteps, local(cinfo, s, "count_steps")))
        w = writes(s, ("f", "initial_total_time", "R"))
        ag.put("cell.every_cell_that_runs_starts_from_the_same_start_value(clock:=start,once,before_its_steps)", len(w) == 1 and w[0][1] is save_, w)
    reach(r, "steps_entered", nent, 1)

    # ------------------------------------------------------------------ before and after the walk
    top = _top(fn)
    kc = next((k for k, x in enumerate(top) if x is cell), None)
    if kc is None:
        raise Undecided("cell loop is not a top-level statement of run_as_cells")
    pre = [x for x in top[:kc] if x.get("kind") == "IfStmt" and "initial_total_time_save=" in text_of(RC, x)]
    if len(pre) != 1:
        raise Undecided("start value of the clock: defining statement not found (%d)" % len(pre))
    f3, ex3, fin, info3 = region(RC, Q, pre, ctx(functional=fnl))
    st_ = tm.app("call:Get_start_time", (RI,), "R")
    nb = 0
    for s in live(fin):
        v = local(info3, s, "initial_total_time_save")
        for hy, given in cases(list(s.pc), tm.not_(tm.eq(st_, NA_))):
            nb += 1
            if given != bool(twin):
                ag.valid("start.clock_starts_at_-start_time_when_given", hy, tm.eq(v, st_))
            else:
                ag.valid("start.clock_goes_on_from_where_it_stood_otherwise", hy, tm.eq(v, fld0(ex3, s, "initial_total_time", "R")))
        ag.put("start.defining_the_start_value_does_not_move_the_clock", not writes(s, ("f", "initial_total_time", "R")), "", kind="frame")
    reach(r, "start_value", nb, 2)
    post = [x for x in top[kc + 1:] if x.get("kind") in ("CompoundAssignOperator", "BinaryOperator") and text_of(RC, x).startswith("initial_total_time")]
    ag.put("end.clock_advanced_once_unconditionally_after_the_walk", len(post) == 1, [text_of(RC, x) for x in post])
    between = [x for x in top[:kc] if x not in pre and any(text_of(RC, y).startswith("initial_total_time") and not text_of(RC, y).startswith("initial_total_time_save")
                                                          for y in A.walk(x) if y.get("kind") in ("CompoundAssignOperator", "BinaryOperator") and y.get("opcode", "").endswith("=") and y.get("opcode") not in ("==", "!=", "<=", ">="))]
    ag.put("start.nothing_else_moves_the_clock_before_the_walk", not between, [text_of(RC, x)[:60] for x in between], kind="frame")
    for x in post:
        f4, ex4, fin4, info4 = region(RC, Q, [x], ctx())
        for s in live(fin4):
            ag.eq("end.clock==start_value_of_the_last_cell+elapsed_time_of_its_steps", list(s.pc), fld(ex4, s, "initial_total_time", "R"),
                  fld0(ex4, s, "initial_total_time", "R") + fld0(ex4, s, "rate_sim_time", "R"))
    ag.flush()
    r.assumptions += ["doubles as reals (T/n added n times is T up to rounding)", "incremental_reactions in {TRUE, FALSE} (get_true_false)", "NA == -98.7654321 (global_structures.h)",
                      "run_reactions / copy_use / set_initial_moles / saver / punch_all / print_all do not write rate_sim_time_start, reaction_step, incremental_reactions, initial_total_time "
                      "(run_reactions sets rate_sim_time itself; the driver overwrites it afterwards: C12.run_reactions.clock_*)",
                      "run_info.Get_time_step() / Get_start_time() / use.Get_kinetics_in() are accessors whose value does not change during the walk",
                      "cxxKinetics::Current_step under C12.Current_step; the induction over the steps (INV(0) from the reset, INV(k-1) => INV(k) from the pass, closing identity at k == n) is stated, its three parts are mechanised",
                      "a walk in which no cell runs leaves rate_sim_time as it stood (not excluded here)"]
    return r


def _mul(a, b):
    return tm.mul(a, b)


def _div(a, b):
    return tm.div(a, b)


_UNITS = [("C12.run_as_cells.time_asked_for_is_integrated_whatever_the_number_of_steps_and_the_clock_ends_at_start_plus_it", unit_run_as_cells_time)]
UNITS[:] = [(uid, fast_twin(f)) for uid, f in _UNITS]
