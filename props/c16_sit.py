"""C16: SIT model (sit.cpp sit()): the sums that define the osmotic coefficient and the water activity run over all aqueous
solutes whose molality was loaded (s_list), the Debye-Hueckel term is -z^2 A sqrt(I)/(1+1.5 sqrt(I)) with A = 3*A0/ln10, the
epsilon terms are symmetric, and a_w = exp(-phi * sum(m) / 55.50837) with phi = 1 + OSMOT*ln10/sum(m)."""
import sympy
from props.common import *
from vf.core import FAILED, DISCHARGED, UNDECIDED

SIT = "src/phreeqcpp/sit.cpp"
Q = "Phreeqc::sit"


def _list_of_loop(fn, lp):
    return text_of(SIT, lp["inner"][2]).split("<")[-1].replace(".size()", "")


def unit_sit(twin=False):
    fn = A.find_function(SIT, Q)
    r = U.new_unit("C16.sit.sums_over_all_solutes_and_DH_term", SIT, Q, fn)
    loops = [x for x in A.walk(fn) if x.get("kind") == "ForStmt"]
    role = {}
    for k, lp in enumerate(loops):
        body_t = text_of(SIT, lp["inner"][-1])
        lst = _list_of_loop(fn, lp)
        if "sit_M[i]=under(" in body_t: role["load"] = (k, lst)
        elif "OSUM=OSUM+" in body_t or "OSUM+=" in body_t: role["sums"] = (k, lst)
        elif "lg_pitzer=" in body_t: role["store"] = (k, lst)
        elif "*F" in body_t and "sit_LGAMMA" in body_t: role["dh"] = (k, lst)
        elif "sit_params" in body_t: role["eps"] = (k, lst)
    need = {"load", "sums", "store", "dh", "eps"}
    if set(role) != need:
        raise Undecided("sit(): loops not recognised: %r" % (role,))
    want_sums = role["load"][1] if not twin else "ion_list"
    r.add("lists.osmotic_sum_runs_over_the_solutes_loaded(%s)" % role["load"][1], DISCHARGED if role["sums"][1] == want_sums else FAILED, "syntactic", 0, repr(role), kind="structural")
    r.add("lists.gammas_stored_for_the_solutes_loaded", DISCHARGED if role["store"][1] == role["load"][1] else FAILED, "syntactic", 0, repr(role), kind="structural")
    r.add("lists.DH_term_over_ions", DISCHARGED if role["dh"][1] == "ion_list" else FAILED, "syntactic", 0, repr(role), kind="structural")
    # sums loop: iteration contract
    f, ex, its, info = U.run_loop_isolated(SIT, Q, role["sums"][0], ctx=ctx(functional=("fabs",)))
    n = 0
    for s in live(its, ("run", "cont")):
        n += 1
        lst = role["sums"][1]
        idx = vec_elem(ex, s, lst, tm.sym("iter_j", "I"), sort="I")
        M = tm.select(entry_arr(ex, s, ("m", "R")), tm.select(entry_arr(ex, s, ("f", "#vdata", "P")), tm.app("fld:sit_M", (THIS,), "P")), idx)
        sp = vec_elem(ex, s, "spec", idx); z = fld0(ex, s, "z", "R", sp)
        U.discharge_eq_real(r, "sums.OSUM+=m_i", list(s.pc), local(info, s, "OSUM"), tm.sym("iter_OSUM", "R") + M)
        U.discharge_eq_real(r, "sums.XI+=m_i*z_i^2", list(s.pc), local(info, s, "XI"), tm.sym("iter_XI", "R") + M * z * z)
    r.add("reach.sums", DISCHARGED if n else UNDECIDED, "symex", 0, "%d" % n, kind="vacuity")
    for acc in ("OSUM", "XI"):
        check_accumulator_init(r, fn, SIT, loop_node(fn, role["sums"][0]), acc, "sums")
    # Debye-Hueckel term and the DH part of the osmotic function
    sts = [find_stmt(fn, SIT, t, prefix=True, kinds=("BinaryOperator",)) for t in ("DI =", "AGAMMA =", "A =", "B =", "F =", "T =", "OSMOT =")]
    f, ex, fin, info = region(SIT, Q, sts, ctx())
    for s in live(fin):
        cv = B.SymConv()
        I = sympy.Symbol("I", positive=True)
        i0 = cv.conv(tm.sym("L_I", "R"))
        F = cv.conv(local(info, s, "F")).subs(i0, I); OS = cv.conv(local(info, s, "OSMOT")).subs(i0, I)
        a0 = cv.conv(fld0(ex, s, "sit_A0", "R")); ln10 = cv.conv(fld0(ex, s, "LOG_10", "R"))
        Aq = 3 * a0 / ln10
        wantF = -Aq * sympy.sqrt(I) / (1 + sympy.Rational(3, 2) * sympy.sqrt(I))
        if twin:
            wantF = -Aq * sympy.sqrt(I) / (1 + sympy.sqrt(I))
        ok = sympy.simplify(F - wantF) == 0
        r.add("DH.F==-A*sqrt(I)/(1+1.5*sqrt(I)),A=3*A0/ln10", DISCHARGED if ok else FAILED, "sympy", 0, str(F))
        # Gibbs-Duhem for the DH part: with log10(gamma_i) = z_i^2 F(I), the osmotic function G(I) = sum(m)(phi-1)/ln10 contributed by it
        # satisfies dG/dI = I * dF/dI * 2  (since sum m_i z_i^2 = 2I):  d[OSMOT]/dI == 2 I dF/dI
        # OSMOT as coded contains an uninterpreted log; use sympy's log
        OSr = OS.replace(lambda e: getattr(e, "func", None) is not None and str(e.func) == "uf_log", lambda e: sympy.log(e.args[0]))
        lhs = sympy.diff(OSr, I); rhs = 2 * I * sympy.diff(wantF, I)
        okgd = sympy.simplify(lhs - rhs) == 0
        r.add("DH.osmotic_term_obeys_Gibbs_Duhem(dOSMOT/dI==2*I*dF/dI)", DISCHARGED if okgd else FAILED, "sympy.diff", 0, "" if okgd else str(sympy.simplify(lhs - rhs)))
    # water activity
    sts = [find_stmt(fn, SIT, t, prefix=True, kinds=("BinaryOperator",)) for t in ("COSMOT =", "AW =")]
    f, ex, fin, info = region(SIT, Q, sts, ctx(functional=("exp",)))
    for s in live(fin):
        osum, osm = tm.sym("L_OSUM", "R"), tm.sym("L_OSMOT", "R")
        phi = tm.num(1) + osm * fld0(ex, s, "LOG_10", "R") / osum
        U.discharge_eq_real(r, "water.phi==1+OSMOT*ln10/sum(m)", list(s.pc), fld(ex, s, "COSMOT", "R"), phi)
        aw = fld(ex, s, "AW", "R")
        ok = aw.op == "app" and aw.args[0] in ("exp", "call:exp")
        if ok:
            U.discharge_eq_real(r, "water.ln(a_w)==-sum(m)*phi/55.50837", list(s.pc), aw.args[-1], tm.neg(osum) * phi / tm.Q("55.50837"))
        else:
            r.add("water.a_w_is_exp(...)", FAILED, "symex", 0, repr(aw)[:120])
    # interaction terms: log10 gamma_i += eps(i,k) * m_k and log10 gamma_k += eps(i,k) * m_i (times I for the ionic-strength dependent
    # kind), and the osmotic sum gets the Gibbs-Duhem partner of exactly these two increments: for a term G = eps m_i m_k (degree 2 in
    # the molalities) the osmotic contribution sum_j m_j dG/dm_j - G equals G itself
    ev = A.enum_values_compiled("global_structures.h", ["TYPE_SIT_EPSILON", "TYPE_SIT_EPSILON_MU"])
    c_e = stop_on_error_msg(ctx()); c_e.enum_values.update(ev)
    f, ex, its, info = U.run_loop_isolated(SIT, Q, role["eps"][0], ctx=c_e)
    ne = nm = 0
    for s in live(its, ("run", "cont", "brk")):
        w = [(ix, v) for ix, v in writes(s, ("m", "R")) if "sit_LGAMMA" in repr(ix[0])]
        if len(w) != 2:
            r.add("epsilon.both_partners_updated(i0,i1)", FAILED, "symex", 0, repr(w)[:200]); continue
        (a0_, va), (a1_, vb) = w
        r.add("epsilon.both_partners_updated(i0,i1)", DISCHARGED if a0_ != a1_ else FAILED, "symex", 0, "", kind="post")
        i0, i1 = local(info, s, "i0"), local(info, s, "i1")
        okix = a0_[1] is i0 and a1_[1] is i1
        r.add("epsilon.updates_go_to_the_two_species_of_the_parameter", DISCHARGED if okix else FAILED, "symex", 0, "%r %r" % (a0_[1], a1_[1]))
        Mv = tm.select(entry_arr(ex, s, ("f", "#vdata", "P")), tm.app("fld:sit_M", (THIS,), "P"))
        LG = tm.select(entry_arr(ex, s, ("f", "#vdata", "P")), tm.app("fld:sit_LGAMMA", (THIS,), "P"))
        memR = entry_arr(ex, s, ("m", "R"))
        M0, M1 = tm.select(memR, Mv, i0), tm.select(memR, Mv, i1)
        par = local(info, s, "param"); I = local(info, s, "I")
        prm = tm.select(entry_arr(ex, s, ("m", "P")), tm.select(entry_arr(ex, s, ("f", "#vdata", "P")), tm.app("fld:sit_params", (THIS,), "P")), local(info, s, "i"))
        ty = fld0(ex, s, "type", "I", prm)
        r.add("epsilon.value_is_the_parameter's_own(p)", DISCHARGED if par is fld0(ex, s, "p", "R", prm) else FAILED, "symex", 0, repr(par)[:120])
        z0, z1 = local(info, s, "z0"), local(info, s, "z1")
        for hy, plain in cases(list(s.pc) + [tm.not_(tm.eq(i0, i1))], tm.eq(ty, tm.num(ev["TYPE_SIT_EPSILON"], "I"))):
            fac = tm.num(1) if plain else I
            if twin and plain:
                fac = I
            label = "epsilon" if plain else "epsilon_mu"
            ne += plain; nm += (not plain)
            d0 = va - tm.select(memR, LG, i0); d1 = vb - tm.select(memR, LG, i1)
            U.discharge_eq_real(r, "%s.log_gamma[i0]+=m[i1]*eps%s" % (label, "" if plain else "*I"), hy, d0, M1 * par * fac)
            U.discharge_eq_real(r, "%s.log_gamma[i1]+=m[i0]*eps%s" % (label, "" if plain else "*I"), hy, d1, M0 * par * fac)
            if plain:
                dO = local(info, s, "OSMOT") - tm.sym("iter_OSMOT", "R")
                for hy2, neutral_pair in cases(hy, tm.and_(tm.eq(z0, tm.num(0)), tm.eq(z1, tm.num(0)))):
                    if not neutral_pair:
                        U.discharge_eq_real(r, "epsilon.osmotic_sum_gets_the_Gibbs_Duhem_partner(m0*dlg0+m1*dlg1-G==G)", hy2, dO, M0 * d0 + M1 * d1 - M0 * M1 * par)
    r.add("reach.epsilon", DISCHARGED if ne >= 2 and nm >= 2 else UNDECIDED, "symex", 0, "%d/%d" % (ne, nm), kind="vacuity")
    r.assumptions += ["under(lm) = 10^lm; sit_A0 is the Debye-Hueckel A_phi of the solvent", "I is taken from mu_x (the ionic-strength unknown), as coded",
                      "the osmotic partner of the EPSILON_MU kind and of a neutral-neutral pair (halved in the code; no such parameter in sit.dat) are not pinned", "the two species of a parameter are different (i0 != i1)", "doubles as reals"]
    return r
