"""C16: SIT model (sit.cpp sit()): the sums that define the osmotic coefficient and the water activity run over all aqueous
solutes whose molality was loaded (s_list), the Debye-Hueckel term is -z^2 A sqrt(I)/(1+1.5 sqrt(I)) with A = 3*A0/ln10, the
epsilon terms are symmetric, and a_w = exp(-phi * sum(m) / 55.50837) with phi = 1 + OSMOT*ln10/sum(m)."""
import sympy
from props.common import *
from vf.core import FAILED, DISCHARGED, UNDECIDED

SIT = "src/phreeqcpp/sit.cpp"
Q = "Phreeqc::sit"


def _list_of_loop(fn, lp):
    return text_of(SIT, lp["inner"][2]).split("<")[-1].replace(".size()", "")


def unit_sit(twin=False):
    fn = A.find_function(SIT, Q)
    r = U.new_unit("C16.sit.sums_over_all_solutes_and_DH_term", SIT, Q, fn)
    loops = [x for x in A.walk(fn) if x.get("kind") == "ForStmt"]
    role = {}
    for k, lp in enumerate(loops):
        body_t = text_of(SIT, lp["inner"][-1])
        lst = _list_of_loop(fn, lp)
        if "sit_M[i]=under(" in body_t: role["load"] = (k, lst)
        elif "OSUM=OSUM+" in body_t or "OSUM+=" in body_t: role["sums"] = (k, lst)
        elif "lg_pitzer=" in body_t: role["store"] = (k, lst)
        elif "*F" in body_t and "sit_LGAMMA" in body_t: role["dh"] = (k, lst)
        elif "sit_params" in body_t: role["eps"] = (k, lst)
    need = {"load", "sums", "store", "dh", "eps"}
    if set(role) != need:
        raise Undecided("sit(): loops not recognised: %r" % (role,))
    want_sums = role["load"][1] if not twin else "ion_list"
    r.add("lists.osmotic_sum_runs_over_the_solutes_loaded(%s)" % role["load"][1], DISCHARGED if role["sums"][1] == want_sums else FAILED, "syntactic", 0, repr(role), kind="structural")
    r.add("lists.gammas_stored_for_the_solutes_loaded", DISCHARGED if role["store"][1] == role["load"][1] else FAILED, "syntactic", 0, repr(role), kind="structural")
    r.add("lists.DH_term_over_ions", DISCHARGED if role["dh"][1] == "ion_list" else FAILED, "syntactic", 0, repr(role), kind="structural")
    # sums loop: iteration contract
    f, ex, its, info = U.run_loop_isolated(SIT, Q, role["sums"][0], ctx=ctx(functional=("fabs",)))
    n = 0
    for s in live(its, ("run", "cont")):
        n += 1
        lst = role["sums"][1]
        idx = vec_elem(ex, s, lst, tm.sym("iter_j", "I"), sort="I")
        M = tm.select(entry_arr(ex, s, ("m", "R")), tm.select(entry_arr(ex, s, ("f", "#vdata", "P")), tm.app("fld:sit_M", (THIS,), "P")), idx)
        sp = vec_elem(ex, s, "spec", idx); z = fld0(ex, s, "z", "R", sp)
        U.discharge_eq_real(r, "sums.OSUM+=m_i", list(s.pc), local(info, s, "OSUM"), tm.sym("iter_OSUM", "R") + M)
        U.discharge_eq_real(r, "sums.XI+=m_i*z_i^2", list(s.pc), local(info, s, "XI"), tm.sym("iter_XI", "R") + M * z * z)
    r.add("reach.sums", DISCHARGED if n else UNDECIDED, "symex", 0, "%d" % n, kind="vacuity")
    for acc in ("OSUM", "XI"):
        check_accumulator_init(r, fn, SIT, loop_node(fn, role["sums"][0]), acc, "sums")
    # Debye-Hueckel term and the DH part of the osmotic function
    sts = [find_stmt(fn, SIT, t, prefix=True, kinds=("BinaryOperator",)) for t in ("DI =", "AGAMMA =", "A =", "B =", "F =", "T =", "OSMOT =")]
    f, ex, fin, info = region(SIT, Q, sts, ctx())
    for s in live(fin):
        cv = B.SymConv()
        I = sympy.Symbol("I", positive=True)
        i0 = cv.conv(tm.sym("L_I", "R"))
        F = cv.conv(local(info, s, "F")).subs(i0, I); OS = cv.conv(local(info, s, "OSMOT")).subs(i0, I)
        a0 = cv.conv(fld0(ex, s, "sit_A0", "R")); ln10 = cv.conv(fld0(ex, s, "LOG_10", "R"))
        Aq = 3 * a0 / ln10
        wantF = -Aq * sympy.sqrt(I) / (1 + sympy.Rational(3, 2) * sympy.sqrt(I))
        if twin:
            wantF = -Aq * sympy.sqrt(I) / (1 + sympy.sqrt(I))
        ok = sympy.simplify(F - wantF) == 0
        r.add("DH.F==-A*sqrt(I)/(1+1.5*sqrt(I)),A=3*A0/ln10", DISCHARGED if ok else FAILED, "sympy", 0, str(F))
        # Gibbs-Duhem for the DH part: with log10(gamma_i) = z_i^2 F(I), the osmotic function G(I) = sum(m)(phi-1)/ln10 contributed by it
        # satisfies dG/dI = I * dF/dI * 2  (since sum m_i z_i^2 = 2I):  d[OSMOT]/dI == 2 I dF/dI
        # OSMOT as coded contains an uninterpreted log; use sympy's log
        OSr = OS.replace(lambda e: getattr(e, "func", None) is not None and str(e.func) == "uf_log", lambda e: sympy.log(e.args[0]))
        lhs = sympy.diff(OSr, I); rhs = 2 * I * sympy.diff(wantF, I)
        okgd = sympy.simplify(lhs - rhs) == 0
        r.add("DH.osmotic_term_obeys_Gibbs_Duhem(dOSMOT/dI==2*I*dF/dI)", DISCHARGED if okgd else FAILED, "sympy.diff", 0, "" if okgd else str(sympy.simplify(lhs - rhs)))
    # water activity
    sts = [find_stmt(fn, SIT, t, prefix=True, kinds=("BinaryOperator",)) for t in ("COSMOT =", "AW =")]
    f, ex, fin, info = region(SIT, Q, sts, ctx(functional=("exp",)))
    for s in live(fin):
        osum, osm = tm.sym("L_OSUM", "R"), tm.sym("L_OSMOT", "R")
        phi = tm.num(1) + osm * fld0(ex, s, "LOG_10", "R") / osum
        U.discharge_eq_real(r, "water.phi==1+OSMOT*ln10/sum(m)", list(s.pc), fld(ex, s, "COSMOT", "R"), phi)
        aw = fld(ex, s, "AW", "R")
        ok = aw.op == "app" and aw.args[0] in ("exp", "call:exp")
        if ok:
            U.discharge_eq_real(r, "water.ln(a_w)==-sum(m)*phi/55.50837", list(s.pc), aw.args[-1], tm.neg(osum) * phi / tm.Q("55.50837"))
        else:
            r.add("water.a_w_is_exp(...)", FAILED, "symex", 0, repr(aw)[:120])
    # epsilon terms symmetric (case TYPE_SIT_EPSILON)
    f, ex, its, info = U.run_loop_isolated(SIT, Q, role["eps"][0], ctx=ctx())
    ne = 0
    for s in live(its, ("run", "cont", "brk")):
        w = [(ix, v) for ix, v in writes(s, ("m", "R")) if "sit_LGAMMA" in repr(ix[0])]
        if len(w) != 2:
            continue
        ne += 1
        (a0_, va), (a1_, vb) = w
        r.add("epsilon.both_partners_updated(i0,i1)", DISCHARGED if a0_ != a1_ else FAILED, "symex", 0, "", kind="post")
    r.add("reach.epsilon", DISCHARGED if ne >= 2 else UNDECIDED, "symex", 0, "%d" % ne, kind="vacuity")
    r.assumptions += ["under(lm) = 10^lm; sit_A0 is the Debye-Hueckel A_phi of the solvent", "I is taken from mu_x (the ionic-strength unknown), as coded",
                      "the epsilon-term magnitudes and the EPSILON_MU variant are not pinned", "doubles as reals"]
    return r
