"""C03 ext: tidy_min_exchange / tidy_min_surface — an exchanger / surface component tied to a mineral gets sites = moles of THAT mineral (the phase
of the same-numbered EQUILIBRIUM_PHASES whose name equals the component's phase_name) x the component's proportion, distributed over the
elements of the component's own formula."""
from props.c01_ext_util import *

TIDY = "src/phreeqcpp/tidy.cpp"
FUN = ("Get_new_def", "Get_n_user", "Get_exchange_comps", "Get_phase_name", "size", "Get_totals", "element_store", "c_str", "Rxn_find", "Get_pp_assemblage_comps", "strcmp_nocase",
       "Get_moles", "Get_phase_proportion", "Get_formula", "phase_bsearch", "elt_list_NameDouble", "Get_surface_comps", "Get_surface_charges", "Get_charge_name", "Find_charge",
       "Get_master_element", "string_duplicate", "Get_type")


def _unit(kind, twin=False):
    q = "Phreeqc::tidy_min_" + kind
    fn = A.find_function(TIDY, q)
    r = U.new_unit("C03.tidy_min_%s.sites==moles_of_the_related_mineral_x_proportion" % kind, TIDY, q, fn)
    c = ctx(functional=FUN); c.snapshot = {"get_elts_in_species": [("count_elts", "I")]}
    ks = loops_with_body(fn, TIDY, "Set_totals(")
    if not ks:
        raise Undecided("component loop (the one that stores the new totals) of tidy_min_%s not found" % kind)
    k = ks[0]
    f, ex, its, info = run_iter(TIDY, q, k, c, inner_modes={"*": "iter"})
    owner = tm.sym("L_exchange_ptr" if kind == "exchange" else "L_surface_ptr", "P")
    vec = tm.app("call:Get_%s_comps" % kind, (owner,), "P")
    n = 0
    for s in lives(its, ("run", "cont")):
        evs = U.iter_events(s)
        st = [e for e in evs if e.name.endswith("Set_totals")]
        ge = [e for e in evs if e.name.endswith("get_elts_in_species")]
        if not st:
            continue
        n += 1
        if n > 2:
            continue
        j = [v for v in index_of(s) if str(v.args[0]) == "iter_j"] or index_of(s)
        comp = tm.select(entry_arr(ex, s, ("f", "#vdata", "P")), vec) + j[0]
        put(r, "totals.stored_on_component_j", st[0].recv is comp, repr(st[0].recv)[:200], kind="trace")
        # the first formula expansion before the totals are stored carries the amount
        first = [e for e in ge if evs.index(e) < evs.index(st[0])]
        if not put(r, "totals.one_formula_expansion_before_they_are_stored", len(first) == 1, "%d" % len(first), kind="trace"):
            continue
        e = first[0]
        put(r, "totals.expanded_into_an_empty_element_list", e.snap is not None and tm.isnum(e.snap.get("count_elts")) and e.snap["count_elts"].args[0] == 0, repr(e.snap), kind="establishment")
        amount = e.args[1]
        prop = tm.app("call:Get_phase_proportion", (comp,), "R")
        # amount = moles(mineral) * proportion: recover the mineral term
        ok = amount.op == "*" and (amount.args[1] is prop or amount.args[0] is prop)
        if not put(r, "sites.amount_is_a_product_with_the_component's_proportion", ok, repr(amount)[:200]):
            continue
        mol = amount.args[0] if amount.args[1] is prop else amount.args[1]
        if twin:
            mol = tm.num(1)
        okm = mol.op == "app" and str(mol.args[0]) == "call:Get_moles" and mol.args[1].op == "app" and mol.args[1].args[0] == "fld:second"
        put(r, "sites.other_factor_is_the_moles_of_an_assemblage_phase", okm, repr(mol)[:200])
        if okm:
            jit = mol.args[1].args[1].args[1] if mol.args[1].args[1].op == "app" else None
            jv = [v for nme, did in info["names"].items() for v in [s.locals.get(did)] if nme == "jit"]
            put(r, "sites.that_phase_is_the_one_the_search_stopped_at", jit is not None and any(jit is v for v in jv), repr(jit), kind="trace")
        # text expanded is the component's own formula
        fm = tm.app("call:Get_formula", (comp,), "P")
        before = evs[:evs.index(e)]
        gf = [x for x in before if x.name.endswith("Get_formula")]
        last_other = max([i for i, x in enumerate(before) if x.name.split("::")[-1] in ("Set_phase_name", "Get_phase_proportion", "Get_moles")] or [-1])
        put(r, "sites.formula_expanded_is_the_component's_own", bool(gf) and gf[-1].recv is comp and before.index(gf[-1]) > last_other - 3, repr([(x.name, x.recv) for x in before[-4:]])[:300], kind="trace")
        nd = [x for x in evs if x.name.endswith("elt_list_NameDouble")]
        put(r, "totals.are_the_combined_element_list", len(nd) >= 1 and (st[0].args[0] is nd[0].result or nd[0].result in tm.subterms(st[0].args[0]) or _copied(evs, st[0].args[0]) is nd[0].result), repr(st[0].args)[:200], kind="trace")
        rf = [x for x in evs if x.name.endswith("Rxn_find")]
        put(r, "mineral.assemblage_has_the_number_of_the_%s" % ("exchanger" if kind == "exchange" else "surface"), len(rf) >= 1 and rf[0].args[0] is tm.app("fld:Rxn_pp_assemblage_map", (THIS,), "P") and (rf[0].args[1] is tm.sym("L_n", "I") or rf[0].args[1] is tm.app("call:Get_n_user", (owner,), "I")), repr([x.args for x in rf])[:200], kind="trace")
    put(r, "reach.proportional_paths", n >= 1, "%d" % n, kind="vacuity", undecided=True)
    # the search for the mineral stops only at the phase whose name equals the component's phase_name
    m = 0
    for kk, sts in info["inner_iters"].items():
        for t in lives(sts, ("brk",)):
            cmpv = [e for e in U.iter_events(t) if e.name.endswith("strcmp_nocase")]
            if not cmpv:
                continue
            m += 1
            jit = tm.sym("iter_jit", "P")
            a0, a1 = cmpv[0].args[0], cmpv[0].args[1]
            okc = ("Get_phase_name" in repr(a0) and "mnode(iter_jit)" in repr(a1)) or ("Get_phase_name" in repr(a1) and "mnode(iter_jit)" in repr(a0))
            put(r, "search.compares_the_component's_phase_name_with_the_phase_visited", okc, repr(cmpv[0].args)[:300], kind="trace")
            valid(r, "search.stops_only_on_equal_names", list(t.pc), tm.eq(cmpv[0].result, I(0)))
    put(r, "reach.search", m >= 1, "%d" % m, kind="vacuity", undecided=True)
    # n is the number of the exchanger / surface
    ff, exf, itsf, infof = run_iter(TIDY, q, the_loop(fn, TIDY, "Set_totals(", innermost=False, what="outer loop"), ctx(functional=FUN))
    direct = any(x.name.endswith("Rxn_find") and x.args[1] is tm.app("call:Get_n_user", (owner,), "I") for s in lives(its, ("run", "cont")) for x in U.iter_events(s))
    for s in ([] if direct else infof["inner_entries"].get(k, [])[:1]):
        nv = s.locals.get(infof["names"]["n"])
        ent = [e.recv for e in U.iter_events(s) if e.name.endswith("Get_n_user")]
        put(r, "mineral.n_is_the_user_number_of_this_%s" % kind, bool(ent) and nv is tm.app("call:Get_n_user", (ent[-1],), "I"), repr(nv), kind="establishment")
    r.assumptions += ["get_elts_in_species(&formula, c) appends c x formula to elt_list; elt_list_NameDouble() combines it into a name -> moles map", "Utilities::Rxn_find(map, n) returns entity n",
                      "the sub-set test of the formulas and the area/grams bookkeeping are not under this contract", "doubles as reals"]
    return r


def _copied(evs, obj):
    for _ in range(3):
        ct = [e for e in evs if e.name.startswith("ctor ") and e.recv is obj and len(e.args) == 1]
        if not ct:
            return obj
        obj = ct[-1].args[0]
    return obj


def unit_min_exchange(twin=False):
    return _unit("exchange", twin)


def unit_min_surface(twin=False):
    return _unit("surface", twin)


UNITS = [
    ("C03.tidy_min_exchange.sites==moles_of_the_related_mineral_x_proportion", unit_min_exchange),
    ("C03.tidy_min_surface.sites==moles_of_the_related_mineral_x_proportion", unit_min_surface),
]
