"""C15 (extension): more of the code that makes equivalent descriptions of one system equal.
 * check_units: every accepted spelling of a concentration unit is normalised to the ONE canonical string convert_units looks for
   (executed on the real function with a concrete-string interpretation of its string helpers, for every member of an enumerated family);
 * convert_units: the branches beyond the plain unit table ('as' formula / gfw overrides / alkalinity default / water-mass scaling);
 * ordering: the compare functions used by the tidy_* sorts are strict weak orders on the intended key;
 * SOLUTION_SPREAD: a value is stored under the element of its own column heading.
The other units are in c15_ext_*.py."""
from props.common import *
from vf.core import FAILED, DISCHARGED, UNDECIDED
from vf.astvc import symex as SX

READ = "src/phreeqcpp/read.cpp"
PREP = "src/phreeqcpp/prep.cpp"
I0, I1 = tm.num(0, "I"), tm.num(1, "I")


# ------------------------------------------------------------------------------------------------ concrete strings
def sval(t):
    """python string of a constant string term (str / c_str(str) / string_of(str)), else None"""
    for _ in range(4):
        if t.op == "str":
            return t.args[0][1:-1] if t.args[0].startswith('"') else t.args[0]
        if t.op == "app" and t.args[0] in ("c_str", "string_of") and len(t.args) == 2:
            t = t.args[1]
            continue
        return None
    return None


def S(txt):
    return tm.strc(txt)


class StrRef(object):
    """the std::string object behind reference parameter `ref`: read / write its value in the state"""
    KEY = ("m", "S")
    def __init__(self, ref): self.ref = ref
    def get(self, ex, st): return tm.select(ex.heap_arr(st, self.KEY), self.ref, I0)
    def put(self, ex, st, v): st.heap[self.KEY] = tm.store(ex.heap_arr(st, self.KEY), (self.ref, I0), v)


def string_handlers(c, obj):
    """concrete interpretation of the string helpers check_units uses, for the object `obj` (a StrRef); any call whose operands are not
    constant strings falls through to the opaque treatment"""
    NPOS = tm.num(-1, "I")
    def on_obj(v, ex, st):
        return v is obj.get(ex, st)
    def squeeze(ex, st, n, name, recv, args):
        s = sval(args[0])
        if s is None or not on_obj(args[0], ex, st): return None
        obj.put(ex, st, S("".join(ch for ch in s if not ch.isspace())))
        return [(st, I0)]
    def lower(ex, st, n, name, recv, args):
        s = sval(args[0])
        if s is None or not on_obj(args[0], ex, st): return None
        obj.put(ex, st, S(s.lower()))
        return [(st, I0)]
    def replace(ex, st, n, name, recv, args):
        if len(args) != 3: return None
        a, b, s = sval(args[0]), sval(args[1]), sval(args[2])
        if None in (a, b, s) or not on_obj(args[2], ex, st): return None
        k = s.find(a)
        if k < 0:
            return [(st, tm.FALSE)]
        obj.put(ex, st, S(s[:k] + b + s[k + len(a):]))
        return [(st, tm.TRUE)]
    def find(ex, st, n, name, recv, args):
        if recv is not obj.ref: return None
        s, a = sval(obj.get(ex, st)), sval(args[0])
        if s is None or a is None: return None
        return [(st, tm.num(s.find(a), "I"))]
    def assign(ex, st, n, name, recv, args):
        if recv is not obj.ref: return None
        v = args[0]
        s = sval(v)
        if s is None and v.op == "app" and v.args[0] == "substr":
            base = sval(v.args[1])
            if base is not None and all(tm.isnum(x) for x in v.args[2:]):
                p = int(v.args[2].args[0]); ln = int(v.args[3].args[0]) if len(v.args) > 3 else None
                s = base[p:] if ln is None else base[p:p + ln]
        if s is None: return None
        obj.put(ex, st, S(s))
        return [(st, obj.ref)]
    def strcmp(ex, st, n, name, recv, args):
        x, y = sval(args[0]), sval(args[1])
        if x is None or y is None: return None
        return [(st, tm.num(0 if x == y else (1 if x > y else -1), "I"))]
    def strstr(ex, st, n, name, recv, args):
        x, y = sval(args[0]), sval(args[1])
        if x is None or y is None: return None
        return [(st, tm.num(1, "P") if y in x else tm.NULL)]
    def assign_op(ex, st, n, name, arg_nodes):
        return ex.do_call(n, st, "verif::string_assign", arg_nodes[0], arg_nodes[1:], recv_is_ptr=False)
    c.handlers.update({"squeeze_white": squeeze, "str_tolower": lower, "replace": replace, "std::basic_string<char>::find": find, "find": find,
                       "std::basic_string<char>::operator=": assign_op, "verif::string_assign": assign, "strcmp": strcmp, "strstr": strstr})
    c.npos = NPOS


class ExecPA(SX.Exec):
    """executor that also knows sizeof of an array of pointers (T *[N] -> 8 * N on LP64), needed to fold NUNITS"""
    def ev_UnaryExprOrTypeTraitExpr(self, n, st):
        import re as _re
        out = []
        for s, v in SX.Exec.ev_UnaryExprOrTypeTraitExpr(self, n, st):
            if v.op == "app" and v.args[0] == "sizeof" and v.args[1].op == "str":
                m = _re.match(r'^"?(.*\*)\s*\[(\d+)\]"?$', v.args[1].args[0])
                if m:
                    v = tm.num(8 * int(m.group(2)), "I")
            out.append((s, v))
        return out


def run_check_units(text, alk=False, compat=False, default="mMol/kgw"):
    q = "Phreeqc::check_units"
    fn = A.find_function(READ, q)
    c = ctx(enums_from="Phreeqc.h", enums=["TRUE", "FALSE", "OK", "ERROR", "CONTINUE"])
    ref = tm.sym("P0_tot_units_ref", "P")
    obj = StrRef(ref)
    string_handlers(c, obj)
    c.loop = lambda ex, st, node, o: ex.unroll(node, st, maxn=40)
    c.enum_values["npos"] = -1
    ex = ExecPA(c)
    st = SX.State()
    obj.put(ex, st, S(text))
    st.assume(tm.eq(tm.sym("G.npos", "I"), tm.num(-1, "I")))        # std::string::npos is no valid position (modelled as -1; find returns it for 'absent')
    B_ = lambda b: tm.TRUE if b else tm.FALSE
    fin = ex.run(fn, st, params=[ref, B_(alk), B_(compat), S(default), tm.FALSE])
    out = []
    for s in fin:
        if s.status != "ret" or B.z3_sat(list(s.pc)) == "unsat":
            continue
        out.append((s.ret, sval(obj.get(ex, s)), s))
    return fn, out, c


PREF = {"": "", "m": "m", "milli": "m", "u": "u", "micro": "u"}
BASE = {"mol": "Mol", "mole": "Mol", "moles": "Mol", "Mol": "Mol", "MOL": "Mol", "g": "g", "gram": "g", "grams": "g", "Grams": "g",
        "eq": "eq", "equiv": "eq", "equivalent": "eq", "equivalents": "eq"}
DEN = {"/l": "/l", "/L": "/l", "/liter": "/l", "/Liter": "/l", "/kgs": "/kgs", "/kgw": "/kgw", "/kg H2O": "/kgw", "/kgh2o": "/kgw", "/kgwater": "/kgw", "/KGW": "/kgw", " / kgw": "/kgw"}
PARTS = {"ppt": "g/kgs", "ppm": "mg/kgs", "ppb": "ug/kgs", "PPM": "mg/kgs"}
BAD = ["mol/m3", "l/mol", "kg/kgw", "mol", "/kgw", "mMol/gal", "moles per liter"]


def unit_check_units(twin=False):
    q = "Phreeqc::check_units"
    fn = A.find_function(READ, q)
    r = U.new_unit("C15.check_units.every_spelling_normalised_to_the_canonical_unit_string", READ, q, fn)
    OKV, ERR = None, None
    n = 0; bad = []
    fam = [(p + b + d, PREF[p] + BASE[b] + DEN[d]) for p in PREF for b in BASE for d in DEN] + list(PARTS.items())
    if twin:
        fam = [(t, ("u" + w[1:] if w.startswith("m") and t.startswith("milli") else w)) for t, w in fam]
    enumv = None
    for text, want in fam:
        fn_, res, c = run_check_units(text)
        enumv = c.enum_values
        if len(res) != 1:
            bad.append("%r: %d paths" % (text, len(res))); continue
        ret, got, s = res[0]
        n += 1
        if not (tm.isnum(ret) and int(ret.args[0]) == enumv["OK"] and got == want):
            bad.append("%r -> %r (returns %r), canonical %r" % (text, got, ret, want))
    r.add("accepted[%d spellings].normal_form==prefix(m|u)+(Mol|g|eq)+(/l|/kgs|/kgw)_and_OK" % len(fam), DISCHARGED if not bad else FAILED, "symex(concrete strings)", 0, "; ".join(bad[:6]))
    r.add("reach.accepted", DISCHARGED if n >= len(fam) - 2 else UNDECIDED, "symex", 0, "%d of %d decided" % (n, len(fam)), kind="vacuity")
    bad = []
    for text in BAD:
        fn_, res, c = run_check_units(text)
        if len(res) != 1 or not (tm.isnum(res[0][0]) and int(res[0][0].args[0]) == c.enum_values["ERROR"]):
            bad.append("%r -> %r" % (text, [(x[0], x[1]) for x in res]))
    r.add("rejected[%d strings].returns_ERROR" % len(BAD), DISCHARGED if not bad else FAILED, "symex(concrete strings)", 0, "; ".join(bad[:6]))
    # compatibility with the block's default units; alkalinity in moles means equivalents; equivalents only for alkalinity
    bad = []
    cases = [("mmol/l", False, "mMol/l", "OK", "mMol/l"), ("mg/l", False, "Mol/l", "OK", "mg/l"), ("mmol/kgw", False, "mMol/l", "ERROR", None), ("ppm", False, "mg/kgs", "OK", "mg/kgs"),
             ("ppm", False, "mMol/kgw", "ERROR", None), ("mmol/kgw", True, "mMol/kgw", "OK", "meq/kgw"), ("meq/kgw", True, "mMol/kgw", "OK", "meq/kgw"), ("meq/kgw", False, "mMol/kgw", "ERROR", None),
             ("mg/kgw", True, "mMol/kgw", "OK", "mg/kgw"), ("umol/kgs", False, "ppm", "ERROR", None), ("umol/kgs", False, "mg/kgs", "OK", "uMol/kgs")]
    for text, alk, dflt, wantr, wantu in cases:
        fn_, res, c = run_check_units(text, alk=alk, compat=True, default=dflt)
        ok = len(res) == 1 and tm.isnum(res[0][0]) and int(res[0][0].args[0]) == c.enum_values[wantr] and (wantu is None or res[0][1] == wantu)
        if not ok:
            bad.append("%r alk=%s default=%r -> %r" % (text, alk, dflt, [(x[0], x[1]) for x in res]))
    r.add("compatibility[%d cases].same_denominator_as_the_default;alkalinity_moles_are_equivalents;equivalents_only_for_alkalinity" % len(cases), DISCHARGED if not bad else FAILED, "symex(concrete strings)", 0, "; ".join(bad[:6]))
    r.assumptions += ["string helpers interpreted on constant strings by the contract (squeeze_white removes white space, str_tolower lowers, replace(a,b,s) replaces the FIRST occurrence, "
                      "std::string::find / substr / strcmp / strstr as in the C++ library): these helpers are not under contract",
                      "the quantifier is the enumerated family of spellings (prefix x base x denominator, ppt/ppm/ppb) and the listed rejections, not all strings",
                      "the canonical forms are the strings Phreeqc::convert_units tests for (unit C15.convert_units.unit_table)"]
    return r



# ------------------------------------------------------------------------------------------------ convert_units beyond the unit table
def cu_ctx(comp_units, soln_units, desc, as_):
    c = ctx(enums_from="Phreeqc.h", enums=["TRUE", "FALSE", "OK", "ERROR", "CONTINUE"])
    c.stl.map_like.add("cxxNameDouble")
    c.functional.update({"Get_input_conc", "Get_density", "Get_totals", "master_bsearch", "Get_comps", "compute_gfw", "Get_mass_water"})
    GF = ("f", "verif_gfw", "R")
    def get_units(ex, st, n, name, recv, args):
        return [(st, S(soln_units if recv is tm.sym("L_initial_data_ptr", "P") else comp_units))]
    c.handlers["cxxISolutionComp::Get_units"] = get_units
    c.handlers["cxxISolution::Get_units"] = get_units
    c.handlers["cxxISolutionComp::Get_description"] = lambda ex, st, n, name, recv, args: [(st, S(desc))]
    c.handlers["cxxISolutionComp::Get_as"] = lambda ex, st, n, name, recv, args: [(st, S(as_))]
    # the component's gfw is a member: Set_gfw followed by Get_gfw must give the value set
    def get_gfw(ex, st, n, name, recv, args):
        return [(st, tm.select(ex.heap_arr(st, GF), recv))]
    def set_gfw(ex, st, n, name, recv, args):
        st.heap[GF] = tm.store(ex.heap_arr(st, GF), (recv,), args[0])
        st.events.append(SX.Event(name, recv, args, I0, n))
        return [(st, I0)]
    c.handlers["cxxISolutionComp::Get_gfw"] = get_gfw
    c.handlers["cxxISolutionComp::Set_gfw"] = set_gfw
    def c_str(ex, st, n, name, recv, args):
        return [(st, recv)] if isinstance(recv, tm.T) and recv.op == "str" else None
    c.handlers["c_str"] = c_str
    def size(ex, st, n, name, recv, args):
        v = sval(recv) if isinstance(recv, tm.T) else None
        return [(st, tm.num(len(v), "I"))] if v is not None else None
    c.handlers["size"] = size
    def strcmp(ex, st, n, name, recv, args):
        x, y = sval(args[0]), sval(args[1])
        return [(st, tm.num(0 if x == y else (1 if x > y else -1), "I"))] if x is not None and y is not None else None
    def strstr(ex, st, n, name, recv, args):
        x, y = sval(args[0]), sval(args[1])
        return [(st, tm.num(1, "P") if y in x else tm.NULL)] if x is not None and y is not None else None
    c.handlers["strcmp"] = strcmp; c.handlers["strstr"] = strstr
    def str_index(ex, st, n, name, arg_nodes):
        out = []
        for s1, v in ex.ev(arg_nodes[0], st):
            for s2, i in ex.ev(arg_nodes[1], s1):
                t = sval(v)
                if t is None or not tm.isnum(i):
                    raise Undecided("symbolic string index")
                k = int(i.args[0])
                out.append((s2, tm.num(ord(t[k]) if k < len(t) else 0, "I")))
        return out
    c.handlers["operator[]@std::basic_string<char>"] = str_index
    c.handlers["operator[]@const std::basic_string<char>"] = str_index
    return c, GF


def unit_convert_units_more(twin=False):
    """convert_units, per component: (a) the formula weight used is the user's gfw if positive, else the weight of the 'as' formula (halved for
    Alkalinity as CaCO3: 50 g/eq), else the weight of the element's master species; (b) every amount given per kg SOLUTION or per LITRE adds its
    mass in grams (moles * gfw for mole and equivalent units) to the solute mass from which the water mass per kg solution is derived;
    (c) afterwards totals are divided by that water mass (1 - solute/1000, or the speciated kgw/kgs in density iterations) for /kgs and /l
    units only, multiplied by the solution's water mass, and the block is relabelled Mol/kgw."""
    q = "Phreeqc::convert_units"
    fn = A.find_function(PREP, q)
    r = U.new_unit("C15.convert_units.formula_weight_choice_solute_mass_and_water_scaling", PREP, q, fn)
    TOT = ("m2", "#mval", "R", "S")
    # (a) formula weight
    cases = [("Na", "", "element"), ("S(6)", "SO4", "as"), ("Alkalinity", "CaCO3", "as_CaCO3"), ("Alkalinity", "HCO3", "as")]
    for desc, as_, kind in cases:
        c, GF = cu_ctx("mg/kgw", "mg/kgw", desc, as_)
        f, ex, its, info = U.run_loop_isolated(PREP, q, 0, ctx=c)
        n = 0
        for s in live(its, ("run", "cont")):
            w = writes(s, TOT)
            val = w[-1][1] if w else None
            if val is None or tm.isnum(val):
                continue            # paths that only store the initial 0.0 (non-positive input, H(1), E, missing weight)
            conc = [t for t in tm.subterms(val) if t.op == "app" and t.args[0] == "call:Get_input_conc"]
            if not conc:
                r.add("gfw[%s].total_depends_on_the_input" % kind, FAILED, "symex", 0, repr(val)[:200]); continue
            comp = conc[0].args[1]          # the component object (jit->second) whose input concentration is read
            g0 = tm.select(entry_arr(ex, s, GF), comp)
            mg = conc[0] * tm.num(_frac("1e-3"))
            for case, hy in spec_cases1(list(s.pc), tm.lt(tm.num(0), g0)):
                if case:
                    n += 1
                    U.discharge_eq_real(r, "gfw[%s,user_gfw>0].the_user's_weight_is_used" % kind, hy, val, mg / g0)
                    continue
                evs = U.iter_events(s)
                if kind == "element":
                    mb = [e for e in evs if e.name.endswith("master_bsearch")]
                    if len(mb) < 2:
                        r.add("gfw[element].master_species_looked_up", FAILED, "trace", 0, "%d" % len(mb)); continue
                    mp = mb[-1].result
                    if B.z3_prove(hy, tm.eq(mp, tm.NULL))[0] == "proved":
                        continue
                    n += 1
                    gw = fld0(ex, s, "gfw", "R", mp)
                    U.discharge_eq_real(r, "gfw[element].weight_of_the_master_species_of_the_redox_state", hy + [tm.not_(tm.eq(gw, tm.num(0)))], val, mg / (gw if not twin else gw * tm.num(2)))
                else:
                    cg = [e for e in evs if e.name.endswith("compute_gfw")]
                    if len(cg) != 1 or sval(cg[0].args[0]) != as_:
                        r.add("gfw[%s].compute_gfw(the_'as'_formula)" % kind, FAILED, "trace", 0, repr([e.args for e in cg])[:200]); continue
                    if B.z3_prove(hy, tm.eq(cg[0].result, tm.num(c.enum_values["ERROR"], "I")))[0] == "proved":
                        continue
                    n += 1
                    dm = fld(ex, s, "dummy", "R")
                    okp = cg[0].args[1] is tm.app("fld:dummy", (THIS,), "P")
                    r.add("gfw[%s].weight_written_by_compute_gfw_is_the_one_stored" % kind, DISCHARGED if okp else FAILED, "trace", 0, repr(cg[0].args[1])[:100])
                    gw = dm / tm.num(2) if kind == "as_CaCO3" else dm
                    U.discharge_eq_real(r, "gfw[%s].%s" % (kind, "half_the_CaCO3_weight(50_g/eq)" if kind == "as_CaCO3" else "weight_of_the_'as'_formula"), hy + [tm.not_(tm.eq(dm, tm.num(0)))], val, mg / gw)
        r.add("reach.gfw[%s:%s]" % (desc, as_), DISCHARGED if n >= 2 else UNDECIDED, "symex", 0, "%d" % n, kind="vacuity")
    # (b) solute mass
    rho = tm.app("call:Get_density", (tm.sym("L_solution_ptr", "P"),), "R")
    for u in ("mg/kgs", "g/l", "ug/l", "mMol/kgs", "uMol/l", "Mol/l", "meq/l", "meq/kgs", "eq/kgs", "mMol/kgw", "mg/kgw", "meq/kgw"):
        c, GF = cu_ctx(u, u, "Alkalinity" if "eq" in u else "Na", "")
        f, ex, its, info = U.run_loop_isolated(PREP, q, 0, ctx=c)
        n = 0
        for s in live(its, ("run", "cont")):
            w = writes(s, TOT)
            val = w[-1][1] if w else None
            if val is None or tm.isnum(val):
                continue
            concs = [t for t in tm.subterms(val) if t.op == "app" and t.args[0] == "call:Get_input_conc"]
            if not concs:
                continue
            conc = concs[0]; comp = conc.args[1]
            g0 = tm.select(entry_arr(ex, s, GF), comp)
            if B.z3_prove(list(s.pc), tm.lt(tm.num(0), g0))[0] != "proved":
                continue
            n += 1
            amt = conc * tm.num(_prefix(u))
            if u.endswith("/l"):
                amt = amt * (tm.num(1) / rho)
            s0, s1 = tm.sym("iter_sum_solutes", "R"), local(info, s, "sum_solutes")
            if u.endswith("/kgw"):
                U.discharge_eq_real(r, "solute_mass[%s].per_kg_water_units_need_no_solute_mass" % u, list(s.pc), s1, s0)
            else:
                grams = amt if u.split("/")[0].endswith("g") else amt * g0
                if twin and u == "mg/kgs":
                    grams = amt * g0
                U.discharge_eq_real(r, "solute_mass[%s]+=%s" % (u, "grams" if u.split("/")[0].endswith("g") else "moles*gfw"), list(s.pc), s1, s0 + grams)
        r.add("reach.solute_mass[%s]" % u, DISCHARGED if n else UNDECIDED, "symex", 0, "%d" % n, kind="vacuity")
    # (c) after the component loop
    body = A.body_of(fn)["inner"]
    loops0 = [x for x in body if x.get("kind") == "ForStmt"]
    k0 = next(k for k, x in enumerate(body) if x is loops0[0])
    for su in ("mg/kgs", "mMol/l", "mMol/kgw"):
        c, GF = cu_ctx(su, su, "Na", "")
        rec = []
        def handler(ex, st, node, o, rec=rec):
            rec.append((node, st.clone()))
            return [st]
        c.loop = handler
        f, ex, fin, info = region(PREP, q, body[k0 + 1:], c)
        ss = tm.sym("L_sum_solutes", "R")
        for s in live(fin, ("run", "ret")):
            mw = [e for e in s.events if e.name.endswith("Get_mass_water")]
            su_ = [e for e in s.events if e.name.endswith("Set_units")]
            r.add("after[%s].block_relabelled_Mol/kgw" % su, DISCHARGED if len(su_) == 1 and su_[0].recv is local(info, s, "initial_data_ptr") else FAILED, "trace", 0, repr([e.args for e in su_])[:120], kind="trace")
            per_water = su.endswith("/kgw")
            want_loops = 1 if per_water else 2
            mine = [(nd, st) for nd, st in rec if all(p in s.pc for p in st.pc)]
            r.add("after[%s].%s" % (su, "only_the_water-mass_scaling_runs" if per_water else "division_by_water_fraction_then_water-mass_scaling"), DISCHARGED if len(mine) == want_loops else FAILED, "symex", 0, "%d loops reached" % len(mine))
            if not per_water and len(mine) == 2:
                mwx = tm.select(ex.heap_arr(mine[0][1], ("f", "mass_water_aq_x", "R")), THIS)
                di = fld0(ex, s, "density_iterations", "I")
                for case, hy in spec_cases1(list(mine[0][1].pc), tm.lt(I0, di)):
                    U.discharge_eq_real(r, "after[%s].water_per_kg_solution==%s" % (su, "kgw_kgs(speciated)" if case else "1-solute_grams/1000"), hy, mwx,
                                        fld0(ex, s, "kgw_kgs", "R") if case else tm.num(1) - tm.num(_frac("1e-3")) * ss)
            if mine and mw:
                last = mine[-1][1]
                U.discharge_eq_real(r, "after[%s].final_factor==water_mass_of_the_solution" % su, list(last.pc), tm.select(ex.heap_arr(last, ("f", "mass_water_aq_x", "R")), THIS), mw[0].result)
    # the two scaling loops: every total, by the member mass_water_aq_x
    top_sc = [lp for lp in loops0[1:] if "it->second" in text_of(PREP, lp["inner"][-1])]
    in_if = [lp for x in body[k0 + 1:] if x.get("kind") == "IfStmt" for lp in A.walk(x) if lp.get("kind") == "ForStmt" and "it->second" in text_of(PREP, lp["inner"][-1])]
    if len(top_sc) != 1 or len(in_if) != 1:
        raise Undecided("the two scaling loops of convert_units not found (%d, %d)" % (len(top_sc), len(in_if)))
    seen = set()
    for lp, op in ((in_if[0], "divide"), (top_sc[0], "multiply")):
        k = [x for x in A.walk(fn) if x.get("kind") in ("ForStmt", "WhileStmt", "DoStmt")].index(lp)
        c, GF = cu_ctx("mg/kgs", "mg/kgs", "Na", "")
        f, ex, its, info = U.run_loop_isolated(PREP, q, k, ctx=c)
        for s in live(its, ("run", "cont")):
            ws = [(ix, v) for key in s.heap for ix, v in writes(s, key) if isinstance(v, tm.T) and v.sort == "R"]
            mwx = fld0(ex, s, "mass_water_aq_x", "R")
            if len(ws) != 1:
                r.add("scaling[%s].one_total_per_iteration" % op, FAILED, "symex", 0, repr(ws)[:200]); continue
            ix, v = ws[0]
            old = [t for t in tm.subterms(v) if t.sort == "R" and t.op == "select" and t is not mwx and "second" in repr(t)]
            if not old:
                r.add("scaling[%s].reads_the_total" % op, FAILED, "symex", 0, repr(v)[:200]); continue
            seen.add(op)
            U.discharge_eq_real(r, "scaling[/kgs,/l].total/=water_fraction" if op == "divide" else "scaling[all].total*=water_mass", list(s.pc), v, old[0] / mwx if op == "divide" else old[0] * mwx)
    r.add("reach.scaling", DISCHARGED if seen == {"divide", "multiply"} else UNDECIDED, "symex", 0, repr(sorted(seen)), kind="vacuity")
    r.assumptions += ["unit strings are the canonical forms of check_units (unit C15.check_units...); Get_units / Get_description / Get_as return constants chosen by the contract, the component's gfw is a member (Set_gfw then Get_gfw)",
                      "compute_gfw writes the formula weight through its second argument (&dummy) and returns ERROR for an unknown formula; master_bsearch functional",
                      "the solute mass of H+ and OH- at the top of the function and the density iteration are not under this contract", "doubles as reals"]
    return r


def _frac(txt):
    import fractions
    return fractions.Fraction(txt)


def _prefix(u):
    import fractions
    return {"m": fractions.Fraction(1, 1000), "u": fractions.Fraction(1, 1000000)}.get(u[0], fractions.Fraction(1))


def spec_cases1(hy, cond):
    return [(v, h) for h, v in cases(hy, cond)]


def same_r(hy, a, b):
    try:
        return B.sympy_equal(a, b)[0]
    except ValueError:
        return B.z3_prove(hy, tm.eq(a, b))[0] == "proved"


UNITS = [("C15.check_units.every_spelling_normalised_to_the_canonical_unit_string", unit_check_units),
         ("C15.convert_units.formula_weight_choice_solute_mass_and_water_scaling", unit_convert_units_more)]


def _more():
    out = []
    import importlib
    for m in ("c15_ext_order", "c15_ext_solution"):
        try:
            out += list(getattr(importlib.import_module("props." + m), "UNITS", []))
        except ModuleNotFoundError as e:
            if e.name != "props." + m:
                raise
    return out


UNITS = UNITS + _more()
from props.c15_ext2 import UNITS as _U2; UNITS = UNITS + _U2
from props.c15_ext3 import UNITS as _U3; UNITS = UNITS + _U3
