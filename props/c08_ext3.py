"""C08 extension units of the third helper wave: heap blocks released exactly once in the readers (props/c08_ext3_heap.py), NULL-safety of the
BASIC statement executors in immediate mode / at the end of a line (props/c08_ext3_basic.py), subscripts of the BASIC interpreter."""
from props import c08_ext3_heap as HP

SPREAD = "src/phreeqcpp/spread.cpp"
READ = "src/phreeqcpp/read.cpp"
TIDY = "src/phreeqcpp/tidy.cpp"

UNITS = []


def _heap(uid, rel, q, mode, **kw):
    UNITS.append((uid, lambda twin=False: HP.unit_release_once(uid, rel, q, mode, twin=twin, **kw)))


_heap("C08.heap.spread_row_to_solution.column_text_and_isotope_name_released_once_and_not_used_afterwards", SPREAD, "Phreeqc::spread_row_to_solution", "loops")
_heap("C08.heap.read_solution_spread.rows_released_once_heading_and_units_rows_stay_live_until_the_end", SPREAD, "Phreeqc::read_solution_spread", "whole")
_heap("C08.heap.check_key.duplicate_of_the_line_released_once_after_its_last_use", READ, "Phreeqc::check_key", "whole")
_heap("C08.heap.tidy_min_surface.copy_of_the_surface_formula_released_once_per_component", TIDY, "Phreeqc::tidy_min_surface", "loops")
_heap("C08.heap.update_min_surface.copy_of_the_surface_formula_released_once_per_component", TIDY, "Phreeqc::update_min_surface", "loops")
_heap("C08.heap.read_line_LDBLEs.grown_array_replaces_the_callers_pointer_before_it_is_used_again", "src/phreeqcpp/readtr.cpp", "Phreeqc::read_line_LDBLEs", "whole")
_heap("C08.heap.read_list_ints_range.grown_list_replaces_the_old_pointer_before_it_is_used_or_returned", READ, "Phreeqc::read_list_ints_range", "whole",
      find_kw={"nparams": 4})
_heap("C08.heap.spread_row_free.row_deleted_once_and_not_touched_afterwards", SPREAD, "Phreeqc::spread_row_free", "whole")
_heap("C08.heap.fpunchf_helper_ostream.retry_buffer_deleted_once_and_replaced_before_the_next_try", "src/phreeqcpp/common/PHRQ_io.cpp", "PHRQ_io::fpunchf_helper", "whole",
      find_kw={"type_contains": "std::ostream"})
_heap("C08.heap.fpunchf_helper_string.retry_buffer_deleted_once_and_replaced_before_the_next_try", "src/phreeqcpp/common/PHRQ_io.cpp", "PHRQ_io::fpunchf_helper", "whole",
      find_kw={"type_contains": "std::string"})

from props import c08_ext3_basic as BS
UNITS += BS.units()
UNITS.append(("C08.basic_null.exec.statement_and_line_pointers_tested_before_use", BS.unit_null_exec))
UNITS.append(("C08.basic_immediate.loop_records_do_not_outlive_the_tokens_of_an_unnumbered_line", BS.unit_immediate_tokens))
from props import c08_ext3_index as IX
UNITS += IX.units()

# heap blocks of the BASIC interpreter (loop records, tokens, string values, line records): released once, not used afterwards, no cell left dangling
PBAS = "src/phreeqcpp/PBasic.cpp"
for _f, _what in (("cmdnext", "loop_records_popped_by_NEXT"), ("cmdwend", "loop_records_popped_by_WEND"), ("cmdreturn", "loop_records_popped_by_RETURN"),
                  ("cmdwhile", "record_of_a_WHILE_whose_condition_is_false"), ("clearloops", "every_loop_record"), ("clearvar", "array_or_string_of_a_variable"),
                  ("cmdlet", "old_string_value_of_the_assigned_variable"), ("disposetokens", "every_token_and_its_text"), ("parseinput", "replaced_line_and_its_tokens"),
                  ("cmdread", "old_string_value_of_the_variable_read"), ("cmdrun", "file_name_buffer"), ("cmdnew", "lines_and_variables_of_the_old_program")):
    _heap("C08.heap.PBasic.%s.%s_released_once_and_not_used_afterwards" % (_f, _what), PBAS, "PBasic::" + _f, "whole")
