"""C03: the EQUILIBRIUM_PHASES (PP) row of Phreeqc::residuals — when the row must refuse convergence.
check_residuals() only warns about (never rejects) a phase that has an alternative formula or is dissolve_only, so the only things that bring such
a phase to its target are (a) residuals() refusing convergence while it is super-saturated and (b) residuals() forcing at least one Newton
iteration whenever a phase that may precipitate AND dissolve is in the model (an under-saturated phase is then moved by ineq())."""
from props.c01_resid import *
from props.c01_resid import _branch
import time
from props.c01_ext_util import sat


def unit_pp_row_convergence(twin=False):
    fn = A.find_function(MODEL, Q)
    r = U.new_unit("C03.residuals.PP.row_refuses_convergence_when_supersaturated_or_before_the_first_iteration", MODEL, Q, fn)
    body = _branch(fn, "x[i]->type==PP")
    c0 = ctx(functional=("Get_add_formula", "Get_initial_moles", "size", "fabs", "sqrt", "exp"))
    f, ex, fin, info = region(MODEL, Q, [body], c0)
    i = tm.sym("L_i", "I")
    seen = set()
    for s in live(fin, ("run", "cont")):
        hy = list(s.pc)
        xi = vec_elem(ex, s, "x", i)
        cv = s.locals.get(info["names"]["converge"])
        if cv is None:
            raise Undecided("local `converge` not found")
        lowered = tm.eq(cv, tm.num(0, "I"))
        kept = tm.eq(cv, tm.sym("L_converge", "I"))
        res = fld0(ex, s, "f", "R", xi) * fld0(ex, s, "LOG_10", "R")
        tol = s.locals.get(info["names"]["l_toler"])
        if tol is None:
            raise Undecided("local `l_toler` not found")
        it = fld0(ex, s, "iterations", "I")
        dis = tm.eq(fld0(ex, s, "dissolve_only", "I", xi), tm.num(1, "I"))
        first = tm.lt(it, tm.num(1 if not twin else 2, "I"))
        sup = tm.lt(res, tm.neg(tol))
        # (a) super-saturated beyond the tolerance and free to precipitate: never converged
        for hc, d in cases(hy, dis):
            if d:
                seen.add("dissolve_only")
                continue
            for hc2, v in cases(hc, sup):
                if v:
                    seen.add("super")
                    _valid(r, "free_phase.supersaturated_beyond_tolerance=>not_converged", hc2, lowered)
            for hc2, v in cases(hc, first):
                if v:
                    seen.add("first")
                    _valid(r, "free_phase.before_the_first_iteration=>not_converged(one_iteration_forced,with_or_without_alternative_formula)", hc2, lowered)
            if sat(hc + [tm.not_(sup), tm.not_(first), kept]):
                seen.add("kept")      # reachability only: a stricter test than the property needs is not a violation
    r.add("reach.cases", DISCHARGED if seen >= {"dissolve_only", "super", "first", "kept"} else UNDECIDED, "symex", 0, repr(sorted(seen)), kind="vacuity")
    r.assumptions += ["residual[i] of the PP row is ln10 * x[i]->f (C01.residuals.row_equations)", "ineq() moves an under-saturated present phase towards its target once an iteration runs (C03 ineq units)",
                      "dissolve_only rows: the code's own test is not pinned here (C03.check_residuals.PP only logs them)", "doubles as reals; both strict/weak reading at the boundary res == -tolerance is not distinguished (strict, as coded)"]
    return r


def _valid(r, name, hy, goal, kind="post"):
    t0 = time.time()
    st = B.z3_prove(hy, goal)[0]
    r.add(name, DISCHARGED if st == "proved" else FAILED, "z3", time.time() - t0, "" if st == "proved" else "not valid under the path condition: %r" % (hy[-3:],), kind=kind)
