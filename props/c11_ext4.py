"""C11 (fourth wave): the order in which the cells of a column are reacted and written back.
  * advection(): the cell loop of one shift and the statement after it (results parked under scratch -2 and written into their place only
    when no later cell of this shift can read them any more), the cell range and the per-cell punch / print conditions;
  * find_J(): the three-way species pairing (species in both cells / only in icell / only in jcell): one sign convention for the gradient
    and for the terms built from it, D, z and the name from the cell that has the species;
  * the scratch solution number of rk_kinetics (`save_old`) against the pending slots -2-k of the stagnant sweep.

Every unit executes the real loop body / region from an ARBITRARY state (Engine B) and compares call events and final terms with what the
property statement needs."""
import re
UNITS = []            # filled in place at the end (props.c11_ext imports this name at ITS end: either import order must work)
from props.common import *
from props.c11_ext import (fast_twin, Agg, split, proved, same, evs, pos, reach, loops_of, I, R, _parent_and_index, macro)
from vf.core import FAILED, DISCHARGED, UNDECIDED, Undecided

TR = "src/phreeqcpp/transport.cpp"
KIN = "src/phreeqcpp/kinetics.cpp"
AD = "src/phreeqcpp/advection.cpp"
LOOPK = ("ForStmt", "WhileStmt", "DoStmt")


def calls_in(node, rel, short):
    return [c for c in A.walk(node) if c.get("kind") in ("CXXMemberCallExpr", "CallExpr") and re.match(r"(\w+::)*%s\(" % re.escape(short), text_of(rel, c))]


def induction_var(lp):
    """name of the variable the for-initialiser of the loop assigns / declares"""
    for x in A.walk(lp["inner"][0]):
        if x.get("kind") == "VarDecl" and x.get("name"):
            return x["name"]
        if x.get("kind") == "DeclRefExpr" and x.get("referencedDecl", {}).get("kind") == "VarDecl":
            return x["referencedDecl"]["name"]
    raise Undecided("induction variable of a loop not found")


# ------------------------------------------------------------------------------------------------- advection(): cell loop of one shift
def unit_advection_cells(twin=False):
    """Phreeqc::advection(), the loop that reacts the cells of one shift (`for (int i = 1; i <= count_ad_cells; i++)` containing
    run_reactions), one pass for an arbitrary i from an arbitrary state, plus the statement after the loop and the place of the loop in
    the shift.  Contract:
      * the loop visits 1 .. count_ad_cells; cell i is reacted exactly once as cell i (cell_no == i), with the shift's kinetic time, its MIX
        record honoured (use_mix TRUE) and step fraction 1; the reactants are set for cell i before;
      * the result (run_reactions parks it under scratch -2 in ADVECTION, unit C11.run_reactions.scratch_cell_numbers) is saved exactly once,
        after the cell has been reacted;
      * for i > 1 the PREVIOUS cell's result is moved scratch -2 -> cell i-1, after cell i has been reacted (which may read cell i-1 through
        its MIX record) and before cell i's result is saved over the scratch; nothing is moved for i <= 1; the cell written is below i:
        no cell that is still to be processed in this shift is overwritten;
      * after the loop, unconditionally, cell count_ad_cells receives scratch -2; the shift loop (C11.advection.advective_shift) stands before
        the cell loop in the same shift, both unconditional;
      * selected output / print of cell i exactly when the shift number is a multiple of the punch / print modulus and the flag of cell i
        (entry i-1 of advection_punch / advection_print) is set, after the cell has been reacted."""
    q = "Phreeqc::advection"
    fn = A.find_function(AD, q)
    r = U.new_unit("C11.advection.cells_reacted_in_order_results_parked_until_no_longer_read", AD, q, fn)
    TRUE = macro("TRUE")
    loops = loops_of(fn)
    ks = [k for k, lp in enumerate(loops) if lp.get("kind") == "ForStmt" and calls_in(lp["inner"][-1], AD, "run_reactions")
          and not any(l2 is not lp and l2.get("kind") in LOOPK and calls_in(l2, AD, "run_reactions") for l2 in A.walk(lp["inner"][-1]))]
    if len(ks) != 1:
        raise Undecided("cell loop of advection() not found (%d candidates)" % len(ks))
    k = ks[0]
    ag = Agg(r)
    smap = tm.app("fld:Rxn_solution_map", (THIS,), "P")
    c = ctx()
    c.snapshot = {"run_reactions": [("cell_no", "I")]}
    f, ex, its, info = U.run_loop_isolated(AD, q, k, ctx=c)
    iv = induction_var(loops[k])
    i_ = tm.sym("iter_" + iv, "I")
    n1 = n2 = npu = npr = 0
    for s in live(its, ("run", "cont", "brk", "ret")):
        ag.put("cell.pass_runs_to_its_end(no_early_exit)", s.status in ("run", "cont"), s.status)
    for s in live(its, ("run", "cont")):
        N = fld0(ex, s, "count_ad_cells", "I")
        step = fld0(ex, s, "advection_step", "I")
        rr, sv, cp, sa = evs(s, "run_reactions"), evs(s, "saver"), evs(s, "Rxn_copy"), evs(s, "set_advection")
        pu, pr = evs(s, "punch_all"), evs(s, "print_all")
        kt = local(info, s, "kin_time")
        ag.put("cell.reacted_exactly_once", len(rr) == 1, rr)
        if len(rr) != 1:
            continue
        e = rr[0]
        hy0 = list(s.pc)
        ag.put("cell.reacted_as_cell_i", same(hy0, e.args[0], i_ if not twin else i_ - 1), e)
        ag.put("cell.reacted_with_the_shift's_time_step", e.args[1] is kt, e)
        ag.put("cell.reacted_with_its_mix_record(use_mix_TRUE)_and_step_fraction_1", same(hy0, e.args[2], I(TRUE)) and same(hy0, e.args[3], R(1)), e)
        ag.put("cell.cell_no==i_while_reacted", same(hy0, e.snap["cell_no"], i_), e.snap)
        ag.put("cell.reactants_set_for_cell_i_before", len(sa) >= 1 and all(same(hy0, x.args[0], i_) and pos(s, x) < pos(s, e) for x in sa), sa)
        ag.put("cell.result_saved_exactly_once_afterwards", len(sv) == 1 and pos(s, sv[0]) > pos(s, e), sv)
        ag.put("cell.only_solutions_are_moved", all(x.args[0] is smap for x in cp), cp)
        for hy in split(hy0, [tm.lt(I(1), i_)]):
            if proved(hy, tm.lt(I(1), i_)):
                n2 += 1
                okc = len(cp) == 1 and cp[0].args[0] is smap and same(hy, cp[0].args[1], I(-2)) and same(hy, cp[0].args[2], i_ - 1)
                ag.put("cell.previous_result_moved_scratch_-2->cell_i-1", okc, cp)
                if len(cp) == 1 and len(sv) == 1:
                    ag.put("cell.move_is_after_reacting_cell_i_and_before_saving_it", pos(s, e) < pos(s, cp[0]) < pos(s, sv[0]), "")
            else:
                n1 += 1
                ag.put("cell.no_move_for_i<=1", not cp, cp)
            for x in cp:
                ag.put("cell.no_cell_still_to_be_processed_is_overwritten(destination<i,>=1)", proved(hy, tm.and_(tm.lt(x.args[2], i_), tm.le(I(1), x.args[2]))), x)
        # punch / print: classify by what the pass does, demand the condition
        for label, es, mod, flags in (("punch", pu, "punch_ad_modulus", "advection_punch"), ("print", pr, "print_ad_modulus", "advection_print")):
            m = fld0(ex, s, mod, "I")
            fl = vec_elem(ex, s, flags, i_ - 1, sort="I")
            want = tm.and_(tm.eq(tm.imod(step, m), I(0)), tm.eq(fl, I(TRUE)))
            ag.put("cell.%s_all_at_most_once_and_after_the_cell_was_reacted" % label, len(es) <= 1 and all(pos(s, x) > pos(s, e) for x in es), es)
            if es:
                if label == "punch": npu += 1
                else: npr += 1
                ag.put("cell.%s_only_when_shift_is_a_multiple_of_the_modulus_and_flag_of_cell_i(entry_i-1)_is_set" % label, proved(hy0, want), "path %r" % (hy0,))
            else:
                ag.put("cell.%s_whenever_shift_is_a_multiple_of_the_modulus_and_flag_of_cell_i(entry_i-1)_is_set" % label, proved(hy0, tm.not_(want)), "path %r" % (hy0,))
    reach(r, "cells_above_1", n2, 1); reach(r, "first_cell", n1, 1); reach(r, "punched", npu, 1); reach(r, "printed", npr, 1)
    Nn = tm.select(ex.heap_arr(SX.State(), ("f", "count_ad_cells", "I")), THIS)
    check_loop_range(r, "cell_loop", ex, c, info, its, iv, I(1), lambda v: tm.le(v, Nn))
    if not hasattr(r, "head_exempt"):
        r.head_exempt = {}
    r.head_exempt[(q, k)] = "the unit states the range of the cell loop semantically (cell_loop.starts_at_1 / runs_while i <= count_ad_cells)"
    # place of the loop in the shift and the statement after it
    par, idx = _parent_and_index(fn, loops[k])
    outer = [k2 for k2, lp in enumerate(loops) if lp.get("kind") in LOOPK and lp["inner"][-1] is par]
    ag.put("shift.cell_loop_is_an_unconditional_statement_of_the_shift_loop_body", len(outer) == 1, "parent kind %s" % (par or {}).get("kind"))
    if par is not None:
        before = par["inner"][:idx]
        shifts = [x for x in before if x.get("kind") == "ForStmt" and calls_in(x, AD, "Rxn_copy") and not calls_in(x, AD, "run_reactions")]
        ag.put("shift.solutions_are_shifted_(unconditionally)_before_the_cells_are_reacted", len(shifts) == 1, "%d copy loops before the cell loop" % len(shifts))
        moved = [x for x in before if x not in shifts and (calls_in(x, AD, "Rxn_copy") or calls_in(x, AD, "saver") or calls_in(x, AD, "run_reactions"))]
        ag.put("shift.nothing_else_moves_or_reacts_solutions_before_the_cell_loop", not moved, [text_of(AD, x)[:60] for x in moved])
        nxt = par["inner"][idx + 1] if idx + 1 < len(par["inner"]) else None
        if nxt is None:
            ag.put("after_loop.last_cell_receives_scratch_-2", False, "the cell loop is the last statement of the shift")
        else:
            f2, ex2, fin, info2 = region(AD, q, [nxt], ctx())
            fin = live(fin)
            for s in fin:
                cp = evs(s, "Rxn_copy", False)
                N = fld0(ex2, s, "count_ad_cells", "I")
                ag.put("after_loop.last_cell_receives_scratch_-2", len(cp) == 1 and cp[0].args[0] is smap and same(list(s.pc), cp[0].args[1], I(-2)) and same(list(s.pc), cp[0].args[2], N), cp)
                ag.put("after_loop.unconditionally", not s.pc and len(fin) == 1, s.pc)
                ag.put("after_loop.nothing_reacted_or_saved_in_between", not evs(s, "saver", False) and not evs(s, "run_reactions", False), "")
            rest = par["inner"][idx + 2:]
            more = [x for x in rest if calls_in(x, AD, "Rxn_copy") or calls_in(x, AD, "saver") or calls_in(x, AD, "run_reactions")]
            ag.put("after_loop.no_further_move_in_this_shift", not more, [text_of(AD, x)[:60] for x in more])
    ag.flush()
    r.assumptions += ["run_reactions(i, t, TRUE, 1) in state ADVECTION reacts solution i (with MIX record i if defined) and leaves the result under scratch -2 "
                      "(units C11.set_advection.*, C11.run_reactions.scratch_cell_numbers); saver() stores the last result under save.n_solution_user; Rxn_copy by its contract (C14)",
                      "the induction from the per-pass contract to the whole shift (cell i-1 is written in pass i, cell N after the loop, hence every cell is reacted from the shifted, "
                      "not yet reacted solutions of itself and of all cells >= i-1) is stated, not mechanised",
                      "the cell loop is located as the innermost for-loop of advection() that calls run_reactions; the shift loop before it as a for-loop calling Rxn_copy only (its body is under C11.advection.advective_shift)",
                      "order facts about statements of the shift body (before / after the cell loop) are read from the AST (which statements exist), the statement after the loop is executed",
                      "punch_all / print_all / set_initial_moles / log output are not modelled; macros TRUE read from global_structures.h"]
    return r


# ------------------------------------------------------------------------------------------------- find_J(): the three-way species pairing
def _skip_inner_loops(c):
    """inner loops of the region (iterator loops over the surface charges that sum g_i / g_j): the locals they assign become arbitrary,
    the initialiser is not executed (the engine has no pre-allocated iterator local in a region)"""
    def loop(ex, st, n, o):
        ids, wm = ex.assigned_locals(n)
        for did, (name, qq) in ids.items():
            if not isinstance(st.locals.get(did), tuple):
                st.locals[did] = SX.fresh("havoc_" + str(name), SX.sort_of(qq))
        return [st]
    c.loop = loop
    return c


def _eq_real(a, b):
    if a is b:
        return True
    try:
        return bool(B.sympy_equal(a, b)[0])
    except Exception:
        return False


def _last_writes(s, field, sort):
    return writes(s, ("f", field, sort))


def unit_find_J_pairing(twin=False):
    """Phreeqc::find_J, the body of the merge loop `while (i < i_max || j < j_max)` over the two sorted species lists, one pass from an arbitrary
    state (arbitrary i, j, k, k_il; the loop condition is assumed).  Specification cases (from the property, not from the code): the species
    is only in icell  <=>  j == j_max or (i < i_max and name_i < name_j);  only in jcell  <=>  not that and (i == i_max or (j < j_max and
    name_i > name_j));  otherwise in both.  With c_i := concentration of spec[i] of icell if the species is in icell else 0, c_j likewise:
      * ONE record is filled per pass (v_m[k] of ct[icell], or v_m_il[k_il] for an exchange species with interlayer diffusion);
      * grad stored == c_j - c_i in EVERY case (interlayer: (c_j - c_i) * cec12 / z): one sign convention; species in both cells: the value left
        is that, or that times the activity factor 1 + (lg_j - lg_i) / (lm_j - lm_i) (species in both cells only: numerator and denominator with
        the same orientation);
      * z, the name (J_ij[k].name) and the diffusion coefficients handed to calc_b_ij come from the cell that HAS the species (no field of the
        other cell's species record at the current index is read into the record or into the call); c == c_i/2 + c_j/2; zc == z * c;
        b_i == A1 * Dwt of the species on the side that has it, b_j == A2 * Dwt likewise;
      * calc_b_ij is called for (icell, jcell, k) exactly when the pass keeps the record (k advances by one), never for the interlayer record
        (k_il advances instead); the list index of every cell that has the species advances by one, the other does not move, also when
        the pass steps out (`continue`)."""
    q = "Phreeqc::find_J"
    fn = A.find_function(TR, q)
    r = U.new_unit("C11.find_J.gradient_is_c_j-c_i_in_all_three_pairing_cases_record_from_the_cell_that_has_the_species", TR, q, fn)
    loops = loops_of(fn)
    ks = [k for k, lp in enumerate(loops) if lp.get("kind") == "WhileStmt" and calls_in(lp["inner"][-1], TR, "calc_b_ij") and calls_in(lp["inner"][-1], TR, "strcmp")]
    if len(ks) != 1:
        raise Undecided("merge loop of find_J not found (%d candidates)" % len(ks))
    lp = loops[ks[0]]
    c = _skip_inner_loops(ctx(functional=["strcmp"]))
    f, ex, fin, info = region(TR, q, [lp["inner"][-1]], c)
    ag = Agg(r)
    L = lambda n, so="I": tm.sym("L_" + n, so)
    i0, j0, k0, kil0, imax, jmax, ic, jc = L("i"), L("j"), L("k"), L("k_il"), L("i_max"), L("j_max"), L("icell"), L("jcell")
    # the loop condition, read from the loop itself (run on the entry state)
    conds = []
    cnode = lp["inner"][0 if len(lp["inner"]) == 2 else 1]
    f0, ex0, fin0, info0 = region(TR, q, [cnode], ctx())
    st0 = SX.State(); st0.locals = dict(fin0[0].locals) if fin0 else {}
    lc = tm.or_(tm.lt(i0, imax), tm.lt(j0, jmax))
    ag.put("loop.runs_while_either_list_has_species_left", True if text_of(TR, cnode) in ("i<i_max||j<j_max", "j<j_max||i<i_max", "(i<i_max)||(j<j_max)") else None, text_of(TR, cnode))
    H0 = SX.State()
    sold = tm.select(ex.heap_arr(H0, ("f", "sol_D", "P")), THIS)
    def spec(cell, idx):
        return tm.select(ex.heap_arr(H0, ("f", "spec", "P")), sold + cell) + idx
    sp_i, sp_j = spec(ic, i0), spec(jc, j0)
    def F(name, rec, so="R"):
        return tm.select(ex.heap_arr(H0, ("f", name, so)), rec)
    ct_i = tm.sym("G.ct", "P") + ic
    rec_vm = tm.select(ex.heap_arr(H0, ("f", "v_m", "P")), ct_i) + k0
    rec_il = tm.select(ex.heap_arr(H0, ("f", "v_m_il", "P")), ct_i) + kil0
    nm_vm = tm.select(ex.heap_arr(H0, ("f", "J_ij", "P")), ct_i) + k0
    nm_il = tm.select(ex.heap_arr(H0, ("f", "J_ij_il", "P")), ct_i) + kil0
    CMP = tm.sym("sign_of_comparing_name_i_with_name_j", "I")
    vocab = {i0, j0, imax, jmax, CMP}
    inv = [lc, tm.le(I(0), i0), tm.le(i0, imax), tm.le(I(0), j0), tm.le(j0, jmax)]
    def small(pc, cmp_):
        """the facts of the path about the two list positions and the comparison (a subset of the path condition: sound as hypotheses)"""
        out = list(inv)
        for a in pc:
            a2 = tm.substitute(a, {cmp_: CMP})
            if {t for t in tm.subterms(a2) if t.op == "sym"} <= vocab:
                out.append(a2)
        return out
    memo = {}
    def eqm(name, hy, a, b):
        key = (a, b)
        if key not in memo:
            if a is b:
                memo[key] = True
            else:
                try:
                    memo[key] = bool(B.sympy_equal(a, b)[0])
                except Exception:
                    memo[key] = False
                if not memo[key]:
                    memo[key] = proved(hy, tm.eq(a, b))
        ag.put(name, memo[key], "code %r   spec %r" % (a, b))
        return memo[key]
    cnt = {"only_i": 0, "only_j": 0, "both": 0, "il": 0, "stepout": 0}
    npaths = 0
    A1, A2 = L("A1", "R"), L("A2", "R")
    for s in live(fin, ("run", "cont", "brk", "ret")):
        ag.put("pass.ends_normally_or_with_continue", s.status in ("run", "cont"), s.status)
    for s in fin:
        if s.status not in ("run", "cont"):
            continue
        npaths += 1
        es = [e for e in s.events if e.name.split("::")[-1] == "strcmp"]
        if not es:
            ag.put("pass.compares_the_two_names", None, "no strcmp on the path"); continue
        cmp_ = es[0].result
        ok_cmp = es[0].args[0] is F("name", sp_i, "P") and es[0].args[1] is F("name", sp_j, "P")
        ag.put("pass.compares_name_of_spec[i]_of_icell_with_name_of_spec[j]_of_jcell", ok_cmp, es[0])
        hs = small(s.pc, cmp_)
        if B.z3_sat(hs) == "unsat":
            continue                 # outside the loop invariant 0 <= i <= i_max, 0 <= j <= j_max, one list not exhausted
        only_i = tm.or_(tm.eq(j0, jmax), tm.and_(tm.lt(i0, imax), tm.lt(CMP, I(0))))
        only_j = tm.and_(tm.not_(only_i), tm.or_(tm.eq(i0, imax), tm.and_(tm.lt(j0, jmax), tm.lt(I(0), CMP))))
        for hy in split(hs, [only_i, only_j]):
            case = "only_i" if proved(hy, only_i) else ("only_j" if proved(hy, only_j) else "both")
            has_i, has_j = case != "only_j", case != "only_i"
            ci = F("c", sp_i) if has_i else R(0)
            cj = F("c", sp_j) if has_j else R(0)
            gw, zw, cw, zcw, nw = [_last_writes(s, n_, so) for n_, so in (("grad", "R"), ("z", "R"), ("c", "R"), ("zc", "R"), ("name", "P"))]
            recs = {ix[0] for ix, v in gw + zw + cw + zcw}
            il = recs == {rec_il}
            ag.put(case + ".one_record_filled(v_m[k]_or_v_m_il[k_il]_of_ct[icell])", recs == {rec_vm} or il, recs)
            if not (recs == {rec_vm} or il) or not gw or not zw:
                ag.put(case + ".record_gets_grad_and_z", bool(recs) and bool(gw) and bool(zw), (gw, zw)); continue
            zv = zw[-1][1]
            ag.put(case + ".z_from_the_cell_that_has_the_species", (has_i and zv is F("z", sp_i)) or (has_j and zv is F("z", sp_j)), zv)
            ag.put(case + ".name_from_the_cell_that_has_the_species", len(nw) == 1 and nw[0][0][0] is (nm_il if il else nm_vm) and ((has_i and nw[0][1] is F("name", sp_i, "P")) or (has_j and nw[0][1] is F("name", sp_j, "P"))), nw)
            diff = (cj - ci) if not twin else (ci - cj)
            ki, kj, kk, kkil = [local(info, s, n_) for n_ in ("i", "j", "k", "k_il")]
            eqm(case + ".list_index_i_advances_iff_the_species_is_in_icell", hy, ki, i0 + 1 if has_i else i0)
            eqm(case + ".list_index_j_advances_iff_the_species_is_in_jcell", hy, kj, j0 + 1 if has_j else j0)
            cb = [e for e in s.events if e.name.split("::")[-1] == "calc_b_ij"]
            if il:
                cnt["il"] += 1
                eqm(case + ".interlayer.grad==(c_j-c_i)*cec12/z", hy, gw[0][1], diff * L("cec12", "R") / zv)
                ag.put(case + ".interlayer.grad_written_once", len(gw) == 1, gw)
                ag.put(case + ".interlayer.k_il_advances_k_does_not_and_no_conductance_call", kkil is kil0 + 1 and kk is k0 and not cb, (kk, kkil, cb))
                continue
            cnt[case] += 1
            gv = gw[-1][1]
            if case == "both":
                fac = R(1) + (F("lg", sp_j) - F("lg", sp_i)) / (F("lm", sp_j) - F("lm", sp_i))
                key = ("g", gv, diff)
                if key not in memo:
                    memo[key] = any(_eq_real(gv, w) for w in (diff, diff * fac))
                ag.put("both.grad==c_j-c_i_or_that_times_the_activity_factor_1+(lg_j-lg_i)/(lm_j-lm_i)", memo[key], "code %r" % (gv,))
            else:
                eqm(case + ".grad==c_j-c_i(the_absent_side_counts_as_0)", hy, gv, diff)
            if cw:
                eqm(case + ".c==c_i/2+c_j/2", hy, cw[-1][1], ci / R(2) + cj / R(2))
            else:
                ag.put(case + ".c==c_i/2+c_j/2", False, "no write to c")
            for ix, v in zcw:
                eqm(case + ".zc==z*c", hy, v, zv * cw[-1][1] if cw else R(0))
            ag.put(case + ".k_il_untouched", kkil is kil0, kkil)
            if s.status == "cont" or not cb:
                cnt["stepout"] += 1
                ag.put(case + ".step_out.record_not_kept(k_unchanged)_and_no_conductance_call", kk is k0 and not cb and s.status == "cont", (kk, cb, s.status))
                continue
            ag.put(case + ".conductance_computed_once_for(icell,jcell,k)_and_k_advances", len(cb) == 1 and cb[0].args[0] is ic and cb[0].args[1] is jc and cb[0].args[2] is k0 and kk is k0 + 1, (cb[0].args[:3], kk))
            other = sp_j if case == "only_i" else (sp_i if case == "only_j" else None)
            if other is not None:
                bad = [a for a in cb[0].args if other in tm.subterms(a)]
                ag.put(case + ".coefficients_handed_on_use_no_field_of_the_other_cell's_record", not bad, bad)
            bi, bj = cb[0].args[3], cb[0].args[4]
            own = sp_i if has_i else sp_j
            if has_i:
                eqm(case + ".b_i==A1*Dwt_of_the_species_in_icell", hy, bi, A1 * F("Dwt", sp_i))
            else:
                ag.put(case + ".b_i_from_A1_and_the_diffusion_coefficient_of_the_species_in_jcell", A1 in tm.subterms(bi) and A2 not in tm.subterms(bi) and (F("Dwt", own) in tm.subterms(bi) or F("Dw", own) in tm.subterms(bi)), bi)
            if has_j:
                eqm(case + ".b_j==A2*Dwt_of_the_species_in_jcell", hy, bj, A2 * F("Dwt", sp_j))
            else:
                ag.put(case + ".b_j_from_A2_and_the_diffusion_coefficient_of_the_species_in_icell", A2 in tm.subterms(bj) and A1 not in tm.subterms(bj) and (F("Dwt", own) in tm.subterms(bj) or F("Dw", own) in tm.subterms(bj)), bj)
    for n_ in ("only_i", "only_j", "both", "il", "stepout"):
        reach(r, "find_J." + n_, cnt[n_], 1)
    ag.flush()
    r.assumptions += ["strcmp is a function of its arguments (one value per pass); both species lists are sorted by name (fill_spec), so that the merge pairs equal names",
                      "the sums g_i / g_j over the surface charges (inner iterator loops) are arbitrary values; calc_b_ij by its own contract (C11.calc_b_ij.*)",
                      "the loop condition is compared as text (three spellings accepted, otherwise UNDECIDED); everything else is read from terms of the final states",
                      "the comparison of diffusive and electromotive force that lets a pass step out (dV_dcell) is not specified here beyond: the indices still advance and the record is not kept",
                      "interlayer (v_m_il) D / Dz / Dzc are not specified here"]
    return r


from props import c11_ext4_slots as _SL

_UNITS = [
    ("C11.advection.cells_reacted_in_order_results_parked_until_no_longer_read", unit_advection_cells),
    ("C11.find_J.gradient_is_c_j-c_i_in_all_three_pairing_cases_record_from_the_cell_that_has_the_species", unit_find_J_pairing),
    ("C11.rk_kinetics.saved_copy_slot_never_coincides_with_a_pending_slot_-2-k_and_brackets_the_integration", _SL.unit_scratch_slot),
]

UNITS[:] = [(uid, fast_twin(f)) for uid, f in _UNITS]
import props.c11_ext as _E
if not getattr(getattr(_E, "__spec__", None), "_initializing", False) and hasattr(_E, "UNITS") and not any(u[0] == UNITS[0][0] for u in _E.UNITS):
    _E.UNITS = _E.UNITS + UNITS       # this module was imported first: props.c11_ext saw the empty list
