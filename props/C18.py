"""C18 — inverse models are genuine and admissible (one clause).
Only the -minimal bookkeeping: set_bit / get_bits are exact bit operations for the <= 32 items the engine admits, and
superset_minimal / subset_minimal / subset_bad answer FALSE only if no stored set has the relation.  Mole balance of the reported
models, sign constraints and ranges (simplex + subset search) are NOT decided."""
import time
from vf import core, cbmc

PID = "C18"
INV = "src/phreeqcpp/inverse.cpp"
GS = "src/phreeqcpp/global_structures.h"
H = core.VERIF + "/harness/A/c18_bits.c"
RULES = [(r"\bPhreeqc::\s*", "", "drop class qualifier Phreeqc::")]


def inv(arr, count):
    return ("""__CPROVER_assigns(i, temp_bits_l)
__CPROVER_loop_invariant(0 <= i && i <= %s)
__CPROVER_loop_invariant(g_k >= i || g_k >= %s || (%s))
__CPROVER_decreases(%s - i)""")


def units(tier):
    pre = cbmc.define_lines(GS, ["TRUE", "FALSE"]) + "\nunsigned long *minimal, *bad; int count_minimal, count_bad;\nextern int g_k;\n"
    U = []
    # `1 << 31` on int: undefined in C, defined (wraps to INT_MIN) in the C++ dialect the build uses; the unit is compiled as C by
    # goto-cc, so the signed-shift overflow check would be a C-vs-C++ artefact: it is switched off for these two loop-free units
    CHK = ["--bounds-check", "--pointer-check", "--div-by-zero-check"]
    def loopfree(fn, harness, defines=(), tag=""):
        uid = "C18.bits.%s%s" % (fn, tag)
        U.append((uid, lambda: cbmc.extracted_unit(uid, [(INV, "Phreeqc::" + fn, None)], open(H).read(), harness, prelude=pre, rules=RULES,
                 defines=list(defines), function="Phreeqc::" + fn, expect=("assertion",), timeout=600, native=True, checks=CHK, cbmc_flags=["--no-signed-overflow-check"])))
    loopfree("set_bit", "h_set_bit", ["VERIF_MAXPOS=31"])
    loopfree("get_bits", "h_get_bits", ["VERIF_MAXPOS=31"])
    rel = {"superset_minimal": ("minimal", "count_minimal", "(bits | minimal[g_k]) != bits"),
           "subset_minimal": ("minimal", "count_minimal", "(bits | minimal[g_k]) != minimal[g_k]"),
           "subset_bad": ("bad", "count_bad", "(bits | bad[g_k]) != bad[g_k]")}
    for fn, (arr, cnt, fact) in rel.items():
        invs = ("__CPROVER_assigns(i, temp_bits_l)\n__CPROVER_loop_invariant(0 <= i && i <= %s)\n"
                "__CPROVER_loop_invariant(g_k >= i || g_k >= %s || (%s))\n__CPROVER_decreases(%s - i)") % (cnt, cnt, fact, cnt)
        uid = "C18.bits." + fn
        U.append((uid, lambda fn=fn, invs=invs, uid=uid: cbmc.extracted_unit(uid, [(INV, "Phreeqc::" + fn, None)], open(H).read(), "h_" + fn, prelude=pre, rules=RULES,
                 loop_contracts={"Phreeqc::" + fn: {0: invs}}, loop_count={"Phreeqc::" + fn: 1}, defines=["VERIF_MAXPOS=31"], function="Phreeqc::" + fn,
                 expect=("loop_invariant_base", "loop_invariant_step", "assertion"), loop_contracts_flag=True, timeout=600)))
    from props import c18_more as MM
    from props.common import wrap as _wrap
    _wrap(U, "C18.inverse.report_clamps_and_minimal_search_cover_every_item", MM.unit_inverse_reporting)
    return U


def run(tier, seed, only, jobs):
    t0 = time.time()
    U = units(tier)
    from props.common import ext_units as _ext
    U += _ext("C18")
    if only:
        U = [x for x in U if only in x[0]]
    res = core.run_units(U, jobs=jobs)
    return core.finish(PID, tier, seed, "proof", res, t0,
        checker_cmd="vf/extract.py -> goto-cc -> goto-instrument --dfcc [--apply-loop-contracts] -> cbmc 6.11 (cadical), bit-precise over all 64-bit inputs",
        trusted_base=["cbmc 6.11.0 / goto-instrument", "clang 14 AST byte ranges", "vf/extract.py (class qualifier dropped; std::vector members lowered to arrays)"],
        assumptions=["std::vector<unsigned long> minimal/bad lowered to arrays with their counts", "only the FALSE direction of the three searches is specified (no stored set has the relation); the TRUE direction needs an existential witness"],
        explanation="Bit-set helpers of the -minimal bookkeeping only; that the search uses them so that no reported model strictly contains another, and everything numeric, is not decided.")
