"""C08, mechanism "tolerant line reader and option matcher": what the line layer returns for every shape of input.

PHRQ_io::get_logical_line / CParser::get_logical_line  (assembly of one logical line from the stream, for ALL byte sequences):
   inductive contracts on the three loops - the reading loop, the comment loop, the continuation loop - each run once from an arbitrary state
   with an arbitrary character.  std::string members are modelled as values with a length: "" has length 0, s += c has length + 1,
   s.substr(0, p) has length p when p <= length (otherwise std::out_of_range would escape: a side obligation).
PHRQ_io::get_line, check_key, push_istream / pop_istream, Phreeqc::check_line_impl, Phreeqc::get_line, Phreeqc::get_option,
Phreeqc::find_option, CParser::check_line / get_option / copy_token / get_rest_of_line: see the units."""
from props.common import *
from vf.core import FAILED, DISCHARGED, UNDECIDED
from vf import core as _core
from props.c08_ext_buf import ScanExec, _cls, entry_array, Agg

PIO = "src/phreeqcpp/common/PHRQ_io.cpp"
PAR = "src/phreeqcpp/common/Parser.cxx"
INP = "src/phreeqcpp/input.cpp"
READ = "src/phreeqcpp/read.cpp"
I0 = tm.num(0, "I")
I1 = tm.num(1, "I")
STR = ("std::basic_string<char>", "std::string", "std::__cxx11::basic_string<char>", "const std::basic_string<char>")


# ---------------------------------------------------------------------------------------------------------------- a std::string with a length
def slen(v):
    """length of a string value (structural where the value was built here, otherwise an opaque non-negative integer)"""
    if v.op == "str":
        t = v.args[0]
        return tm.num(len(t[1:-1]) if len(t) >= 2 and t[0] == '"' and t[-1] == '"' else len(t), "I")
    if v.op == "app" and v.args[0] == "s.app":
        return tm.add(slen(v.args[1]), I1)
    if v.op == "app" and v.args[0] == "s.prefix":            # substr(0, p) with p <= length (side obligation)
        return v.args[3]
    if v.op == "ite":
        return tm.ite(v.args[0], slen(v.args[1]), slen(v.args[2]))
    return tm.app("strlen", (v,), "I")


def len_axioms(terms):
    out = []
    for t in terms:
        for x in tm.subterms(t):
            if x.op == "app" and x.args[0] == "strlen":
                out.append(tm.le(I0, x))
    return list(dict.fromkeys(out))


class StrModel(object):
    """handlers for the std::string operations the line readers use; side = [(what, pc, obligation)] the throwing preconditions"""
    def __init__(self):
        self.side = []

    def _lv(self, ex, st, recv):
        return ex.deref(st, recv) if recv.sort == "P" else None

    def _val(self, ex, st, recv):
        return ex.load(st, ex.deref(st, recv), "S") if recv.sort == "P" else recv

    def install(self, c):
        for cls in STR:
            c.handlers[cls + "::size"] = self.size
            c.handlers[cls + "::length"] = self.size
            c.handlers[cls + "::empty"] = self.empty
            c.handlers[cls + "::begin"] = self.begin
            c.handlers[cls + "::end"] = self.end
            c.handlers[cls + "::erase"] = self.erase
            c.handlers[cls + "::clear"] = self.clear
            c.handlers[cls + "::substr"] = self.substr
            c.handlers[cls + "::operator+="] = self.op_append
            c.handlers[cls + "::operator="] = self.op_assign
            c.handlers[cls + "::operator[]"] = self.op_index
        return c

    def size(self, ex, st, n, name, recv, args):
        return [(st, slen(self._val(ex, st, recv)))]

    def empty(self, ex, st, n, name, recv, args):
        return [(st, tm.eq(slen(self._val(ex, st, recv)), I0))]

    def begin(self, ex, st, n, name, recv, args):
        return [(st, tm.app("s.begin", (recv,), "P"))]

    def end(self, ex, st, n, name, recv, args):
        return [(st, tm.app("s.end", (recv,), "P"))]

    def clear(self, ex, st, n, name, recv, args):
        lv = self._lv(ex, st, recv)
        if lv is None:
            raise Undecided("clear() of a string value")
        ex.store(st, lv, tm.strc('""'), "S")
        st.events.append(SX.Event("str.clear", recv, [], I0, n))
        return [(st, I0)]

    def erase(self, ex, st, n, name, recv, args):
        lv = self._lv(ex, st, recv)
        if lv is None:
            raise Undecided("erase() of a string value")
        old = ex.load(st, lv, "S")
        if len(args) == 2 and args[0].op == "app" and args[0].args[0] == "s.begin" and args[1].op == "app" and args[1].args[0] == "s.end" \
                and args[0].args[1] is recv and args[1].args[1] is recv:
            ex.store(st, lv, tm.strc('""'), "S")
            st.events.append(SX.Event("str.clear", recv, [], I0, n))
            return [(st, I0)]
        if len(args) == 2 and args[0].sort == "I" and args[1].sort == "I":
            pos, cnt = args
            self.side.append(("std::string::erase(pos, n): pos <= size()", list(st.pc), tm.le(pos, slen(old))))
            if tm.isnum(cnt) and B.z3_prove(list(st.pc) + len_axioms([slen(old)]), tm.eq(tm.add(pos, cnt), slen(old)))[0] == "proved":
                ex.store(st, lv, tm.app("s.prefix", (old, I0, pos), "S"), "S")       # erase(size - n, n): the first size - n characters stay
                st.events.append(SX.Event("str.erase_tail", recv, [pos, cnt], I0, n))
                return [(st, I0)]
        raise Undecided("std::string::erase of this shape is not modelled")

    def substr(self, ex, st, n, name, recv, args):
        v = self._val(ex, st, recv)
        pos = ex.coerce(args[0], "I") if args else I0
        self.side.append(("std::string::substr(pos, ..): pos <= size()", list(st.pc), tm.le(pos, slen(v))))
        if len(args) == 2 and tm.isnum(pos) and pos.args[0] == 0:
            cnt = ex.coerce(args[1], "I")
            # substr(0, n) keeps min(n, size) characters; callers here pass n <= size (an obligation of the unit where it matters)
            return [(st, tm.app("s.prefix", (v, I0, tm.ite(tm.le(cnt, slen(v)), cnt, slen(v))), "S"))]
        return [(st, tm.app("substr", tuple([v, pos] + [ex.coerce(a, "I") for a in args[1:]]), "S"))]

    def op_append(self, ex, st, n, name, arg_nodes):
        out = []
        for s1, lv in ex.lv(arg_nodes[0], st):
            for s2, ch in ex.ev(arg_nodes[1], s1):
                old = ex.load(s2, lv, "S")
                if ch.sort == "S":
                    new = tm.app("s.cat", (old, ch), "S")
                else:
                    new = tm.app("s.app", (old, ex.coerce(ch, "I")), "S")
                ex.store(s2, lv, new, "S")
                s2.events.append(SX.Event("str.append", ex.address(s2, lv) if lv[0] != "local" else None, [ch, old], I0, n))
                out.append((s2, new))
        return out

    def op_assign(self, ex, st, n, name, arg_nodes):
        out = []
        for s1, v in ex.ev(arg_nodes[1], st):
            for s2, lv in ex.lv(arg_nodes[0], s1):
                if v.sort == "P":
                    v = ex.load(s2, ex.deref(s2, v), "S")
                ex.store(s2, lv, v, "S")
                s2.events.append(SX.Event("str.assign", ex.address(s2, lv) if lv[0] != "local" else None, [v], I0, n))
                out.append((s2, v))
        return out

    def op_index(self, ex, st, n, name, arg_nodes):
        out = []
        for s1, lv in ex.lv(arg_nodes[0], st):
            for s2, i in ex.ev(arg_nodes[1], s1):
                v = ex.load(s2, lv, "S")
                i = ex.coerce(i, "I")
                # named "deref" so that the executor adds the guard of a short-circuit operator to the snapshot (a && s[i] ..)
                e = SX.Event("deref", None, [tm.strc("str.index"), v, i], I0, n)
                e.snap = list(s2.pc)
                if "unsigned" in ex.qt(arg_nodes[1]) or "size_t" in ex.qt(arg_nodes[1]):
                    e.snap.append(tm.le(I0, i))
                s2.events.append(e)
                out.append((s2, tm.app("s.at", (v, i), "P")))
        return out


def index_events(s):
    return [e for e in s.events if e.name == "deref" and e.args and e.args[0] is tm.strc("str.index")]


def index_obligations(r, states, label="no_exception"):
    """s[i] needs i <= size() (i == size() reads the terminator): one obligation per source expression"""
    g = Agg(r)
    for s in states:
        for e in index_events(s):
            if B.z3_sat(list(e.snap)) == "unsat":
                continue
            v, i = e.args[1], e.args[2]
            where = (e.node.get("range", {}).get("begin", {}) or {})
            g.valid("%s.std::string::operator[](%s)_inside_the_string" % (label, repr(i)[:30]), list(e.snap) + len_axioms(list(e.snap) + [slen(v)]), tm.and_(tm.le(I0, i), tm.le(i, slen(v))), kind="safety")
    g.flush()


def getc_handler(names):
    """one character from the stream: an arbitrary value of int getc(): EOF (-1) or an unsigned char"""
    def h(ex, st, n, name, recv, args):
        j = SX.fresh("getc", "I")
        st.assume(tm.le(tm.num(-1, "I"), j)); st.assume(tm.le(j, tm.num(255, "I")))
        st.events.append(SX.Event("getc", recv, [], j, n))
        return [(st, j)]
    return h


def run_with_exit_states(rel, q, c, prepare=None, exit_inv=None, find_kw=None, ExecClass=SX.Exec):
    """whole function; loops as iteration contracts; behind a loop: (a) everything the loop writes arbitrary, the loop condition false and the
    stated exit invariant assumed (the unit proves it inductive), (b) the states in which an arbitrary iteration left by break"""
    fn = A.find_function(rel, q, **(find_kw or {}))
    info = {"iter": {}, "entry": {}, "exit": {}}
    info["params"] = [p_.get("name") for p_ in A.params_of(fn)]
    info["names"] = {}
    for x in A.walk(fn):
        if x.get("kind") in ("VarDecl", "ParmVarDecl") and "name" in x:
            info["names"].setdefault(x["name"], x["id"])
    def loop(ex, st, node, ordinal):
        info["entry"].setdefault(ordinal, []).append(st.clone())
        res = ex.iterate_loop(node, st.clone(), prepare=(lambda ex_, s_: prepare(ex_, s_, ordinal, info)) if prepare else None)
        info["iter"].setdefault(ordinal, []).extend(res)
        init, cond, inc, body = ex.loop_parts(node)
        out = []
        for h in ex.havoc_loop(node, st):
            if exit_inv:
                exit_inv(ex, h, ordinal, info)
            if h.status == "dead":
                continue
            if cond is None:
                continue
            for s2, v in ex.ev(cond, h):
                if s2.assume(tm.not_(tm.to_bool(v))):
                    out.append(s2)
        for b in res:
            if b.status == "brk" and B.z3_sat(list(b.pc)) != "unsat":
                b2 = b.clone(); b2.status = "run"
                b2.events.append(SX.Event("left_by_break", None, [tm.num(ordinal, "I")], I0))
                out.append(b2)
        info["exit"].setdefault(ordinal, []).extend([s_.clone() for s_ in out])
        return out
    c.loop = loop
    ex = ExecClass(c)
    fin = ex.run(fn, SX.State())
    return fn, ex, fin, info


def since(s, depth=None, marker="iter_begin"):
    """events since the iteration of the loop at nesting `depth` began (0 = outermost loop of the function; None = innermost)"""
    ks = [i for i, e in enumerate(s.events) if e.name == marker]
    if not ks:
        return list(s.events)
    k0 = ks[-1] if depth is None else ks[min(depth, len(ks) - 1)]
    return s.events[k0 + 1:]


def feasible(s, extra=()):
    return B.z3_sat(list(s.pc) + list(extra)) != "unsat"


# ---------------------------------------------------------------------------------------------------------------- get_logical_line
def unit_get_logical_line(rel, cls, twin=False):
    q = cls + "::get_logical_line"
    sm = StrModel()
    c = sm.install(ctx(functional=()))
    c.handlers["isspace"] = _cls([(9, 13), (32, 32)])
    gh = getc_handler(None)
    for nm in ("PHRQ_io::getc", "getc", "std::basic_istream<char>::get", "std::basic_istream<char, std::char_traits<char> >::get", "std::istream::get"):
        c.handlers[nm] = gh
    c.handlers["eof"] = lambda ex, st, n, name, recv, args: [(st, tm.num(-1, "I"))] if recv is None else None
    ev = A.enum_values_compiled("PHRQ_io.h", ["PHRQ_io::LT_EOF", "PHRQ_io::LT_OK"])
    c.enum_values.update({k.split("::")[-1]: v for k, v in ev.items()})
    LT_EOF, LT_OK = tm.num(c.enum_values["LT_EOF"], "I"), tm.num(c.enum_values["LT_OK"], "I")
    THIS_ = THIS
    def L_of(ex, s):
        return tm.select(ex.heap_arr(s, ("f", "m_line_save", "S")), THIS_)
    fn0 = A.find_function(rel, q)
    loops = [x for x in A.walk(fn0) if x.get("kind") in ("ForStmt", "WhileStmt", "DoStmt")]
    # the loops by what they are: reading loop = outermost first loop; comment loop = the do loop; continuation loop = the while nested in the `\\` branch
    def nested_in(a, b):
        return a is not b and any(y is a for y in A.walk(b))
    outer = [k for k, lp in enumerate(loops) if not any(nested_in(lp, o) for o in loops)]
    if len(outer) != 1:
        raise Undecided("expected one outermost loop in get_logical_line, found %d" % len(outer))
    READ_L = outer[0]
    dos = [k for k, lp in enumerate(loops) if lp["kind"] == "DoStmt"]
    if len(dos) != 1:
        raise Undecided("comment loop (do .. while) not found")
    COMM_L = dos[0]
    conts = [k for k, lp in enumerate(loops) if lp["kind"] == "WhileStmt" and k != READ_L and nested_in(lp, loops[READ_L])]
    if len(conts) != 1:
        raise Undecided("continuation loop not found")
    CONT_L = conts[0]
    shifts = [k for k, lp in enumerate(loops) if lp["kind"] == "ForStmt" and nested_in(lp, loops[CONT_L])]
    SHIFT_L = shifts[0] if shifts else None          # CParser removes the backslash by shifting the tail one place to the left
    def prep(ex_, s_, o, info_):
        if o == CONT_L:
            # loop invariant of the continuation loop: pos is the index of the last backslash, which is in the string
            pos = tm.sym("iter_pos", "I")
            s_.assume(tm.le(I0, pos)); s_.assume(tm.lt(pos, slen(L_of(ex_, s_))))
        for a_ in len_axioms([slen(L_of(ex_, s_))]):
            s_.assume(a_)
    def exit_inv(ex_, h, o, info_):
        for a_ in len_axioms([slen(L_of(ex_, h))]):
            h.assume(a_)
        if o == SHIFT_L:
            # exit invariant of the shifting loop (proved inductive below): characters are overwritten in place, the length stays
            e0 = info_["entry"][o][-1]
            h.assume(tm.eq(slen(L_of(ex_, h)), slen(L_of(ex_, e0))))
    fn, ex, fin, info = run_with_exit_states(rel, q, c, prepare=prep, exit_inv=exit_inv)
    r = U.new_unit("C08.%s.get_logical_line.one_logical_line_is_assembled_for_every_byte_sequence" % cls, rel, q, fn)
    HASH, SEMI, NL_, BSL = (tm.num(x, "I") for x in (35, 59, 10, 92))
    def ch_of(s, depth):
        g = [e for e in since(s, depth) if e.name == "getc"]
        return g[0].result if g else None
    def appended(s, depth):
        return [e for e in since(s, depth) if e.name == "str.append"]
    # ---- reading loop: one iteration for an arbitrary character
    n = {"plain": 0, "end": 0, "bs": 0, "hash": 0}
    for s in info["iter"].get(READ_L, []):
        if not feasible(s):
            continue
        j = ch_of(s, 0)
        if j is None:
            r.add("reading_loop.reads_one_character_per_iteration", FAILED, "trace", 0, "no getc in the loop condition"); continue
        cc = local(info, s, "c")
        L0 = tm.select(entry_array(ex, s, ("f", "m_line_save", "S")), THIS_)
        L1 = L_of(ex, s)
        hy = list(s.pc)
        is_hash = B.z3_prove(hy, tm.eq(j, HASH))[0] == "proved"
        not_hash = B.z3_prove(hy, tm.not_(tm.eq(j, HASH)))[0] == "proved"
        if not (is_hash or not_hash):
            r.add("reading_loop.path_decides_comment_or_not", FAILED, "symex", 0, "a path of the iteration does not test the character against '#'"); continue
        if is_hash:
            n["hash"] += 1
            # a comment does not swallow the newline: when the comment loop was left at the newline the logical line ends there
            lb = [e for e in since(s, 0) if e.name == "left_by_break"]
            if lb and int(lb[0].args[0].args[0]) == COMM_L:
                r.add("comment#%d.newline_behind_a_comment_ends_the_line" % n["hash"], DISCHARGED if s.status == "brk" else FAILED, "symex", 0, s.status)
            continue
        # not a comment: c is the character read
        for hy2, kind in ((hy + [tm.or_(tm.eq(j, SEMI), tm.eq(j, NL_))], "end"), (hy + [tm.eq(j, BSL)], "bs"),
                          (hy + [tm.not_(tm.eq(j, SEMI)), tm.not_(tm.eq(j, NL_)), tm.not_(tm.eq(j, BSL))], "plain")):
            if B.z3_sat(hy2) == "unsat":
                continue
            n[kind] += 1
            tag = "%s#%d" % ({"end": "semicolon_or_newline", "bs": "backslash", "plain": "ordinary_character"}[kind], n[kind])
            ap = appended(s, 0)
            if kind == "end":
                r.add(tag + ".ends_the_line(loop_left)", DISCHARGED if s.status == "brk" and not twin else FAILED, "symex", 0, s.status)
                r.add(tag + ".is_not_stored", DISCHARGED if not ap and L1 is L0 else FAILED, "trace", 0, repr(ap)[:100])
            elif kind == "plain":
                ok = len(ap) == 1 and s.status in ("run", "cont")
                r.add(tag + ".stored_exactly_once_and_reading_goes_on", DISCHARGED if ok else FAILED, "trace", 0, "%s %r" % (s.status, ap)[:120])
                if ok:
                    U.discharge_valid(r, tag + ".the_character_read_is_the_one_stored", hy2, tm.eq(ex.coerce(ap[0].args[0], "I"), j))
                    U.discharge_valid(r, tag + ".line_grows_by_one", hy2 + len_axioms([slen(L0)]), tm.eq(slen(L1), tm.add(slen(L0), I1)))
            else:
                # backslash: stored, then the continuation loop decides; what can be said here: the iteration went through that loop's entry
                r.add(tag + ".stored_before_the_continuation_is_examined", DISCHARGED if ap and B.z3_prove(hy2, tm.eq(ex.coerce(ap[0].args[0], "I"), BSL))[0] == "proved" else FAILED, "trace", 0, repr(ap)[:100])
    r.add("reach.reading_loop_cases", DISCHARGED if all(n[k] for k in n) else UNDECIDED, "symex", 0, repr(n), kind="vacuity")
    # ---- entry of the continuation loop establishes its invariant: pos == index of the backslash just stored
    ne = 0
    for s in info["entry"].get(CONT_L, []):
        if not feasible(s):
            continue
        ne += 1
        pos = local(info, s, "pos")
        U.discharge_valid(r, "continuation.entry#%d.pos_is_the_index_of_the_backslash_just_stored" % ne, list(s.pc) + len_axioms([slen(L_of(ex, s))]),
                          tm.eq(tm.add(pos, I1), slen(L_of(ex, s))) if not twin else tm.eq(pos, slen(L_of(ex, s))), kind="establishment")
    r.add("reach.continuation_entry", DISCHARGED if ne else UNDECIDED, "symex", 0, str(ne), kind="vacuity")
    # ---- continuation loop: one iteration
    nc = {"bs": 0, "nl": 0, "other": 0}
    for s in info["iter"].get(CONT_L, []):
        if not feasible(s):
            continue
        j = ch_of(s, 1)
        L0 = tm.select(entry_array(ex, s, ("f", "m_line_save", "S")), THIS_)
        L1 = L_of(ex, s)
        pos0 = tm.sym("iter_pos", "I")
        hy = list(s.pc) + len_axioms([slen(L0), slen(L1)])
        if s.status in ("run", "cont"):
            U.discharge_valid(r, "continuation.invariant_kept(pos_inside_the_line)#%d" % (sum(nc.values()) + 1), hy, tm.and_(tm.le(I0, local(info, s, "pos")), tm.lt(local(info, s, "pos"), slen(L1))), kind="inductive")
        if B.z3_prove(hy, tm.eq(j, NL_))[0] == "proved":
            nc["nl"] += 1
            r.add("continuation.newline#%d.ends_the_continuation" % nc["nl"], DISCHARGED if s.status == "brk" else FAILED, "symex", 0, s.status)
            if SHIFT_L is None:
                U.discharge_valid(r, "continuation.newline#%d.line_is_cut_back_to_the_backslash(length==pos)" % nc["nl"], hy, tm.eq(slen(L1), pos0))
            else:
                U.discharge_valid(r, "continuation.newline#%d.the_backslash_is_taken_out(length_one_less)" % nc["nl"], hy, tm.eq(tm.add(slen(L1), I1), slen(L0)))
        elif B.z3_prove(hy, tm.eq(j, BSL))[0] == "proved":
            nc["bs"] += 1
            U.discharge_valid(r, "continuation.backslash#%d.becomes_the_candidate(pos==old_length)_and_is_stored" % nc["bs"], hy,
                              tm.and_(tm.eq(local(info, s, "pos"), slen(L0)), tm.eq(slen(L1), tm.add(slen(L0), I1))))
        else:
            nc["other"] += 1
            U.discharge_valid(r, "continuation.other#%d.stored_once" % nc["other"], hy, tm.eq(slen(L1), tm.add(slen(L0), I1)))
            if s.status == "brk":
                # the continuation is given up only for a character that is not white space (the backslash was an ordinary character)
                isp = tm.or_(tm.and_(tm.le(tm.num(9, "I"), j), tm.le(j, tm.num(13, "I"))), tm.eq(j, tm.num(32, "I")))
                U.discharge_valid(r, "continuation.other#%d.given_up_only_for_a_character_that_is_not_white_space" % nc["other"], hy, tm.not_(isp))
    r.add("reach.continuation_cases", DISCHARGED if all(nc[k] for k in nc) else UNDECIDED, "symex", 0, repr(nc), kind="vacuity")
    if SHIFT_L is not None:
        nsh = 0
        for s in info["iter"].get(SHIFT_L, []):
            if not feasible(s):
                continue
            nsh += 1
            L0 = tm.select(entry_array(ex, s, ("f", "m_line_save", "S")), THIS_)
            grow = [e for e in since(s) if e.name in ("str.append", "str.assign", "str.clear", "str.erase_tail")]
            r.add("shift_loop#%d.overwrites_in_place(length_unchanged)" % nsh, DISCHARGED if not grow and L_of(ex, s) is L0 else FAILED, "trace", 0, repr(grow)[:100], kind="inductive")
        r.add("reach.shift_loop", DISCHARGED if nsh else UNDECIDED, "symex", 0, str(nsh), kind="vacuity")
    # ---- comment loop: newline is not stored and ends it; everything else is stored once
    ncm = 0
    for s in info["iter"].get(COMM_L, []):
        if not feasible(s):
            continue
        ncm += 1
        cc = local(info, s, "c")
        ap = appended(s, 1)
        if s.status == "brk":
            U.discharge_valid(r, "comment_loop#%d.left_only_at_the_newline" % ncm, list(s.pc), tm.eq(cc, NL_))
            r.add("comment_loop#%d.newline_not_stored" % ncm, DISCHARGED if not ap else FAILED, "trace", 0, "")
        else:
            r.add("comment_loop#%d.comment_text_kept_in_the_saved_line" % ncm, DISCHARGED if len(ap) == 1 else FAILED, "trace", 0, "")
    r.add("reach.comment_loop", DISCHARGED if ncm >= 2 else UNDECIDED, "symex", 0, str(ncm), kind="vacuity")
    # ---- entry: the saved line starts empty
    ne = 0
    for s in info["entry"].get(READ_L, []):
        ne += 1
        U.discharge_valid(r, "entry.saved_line_is_emptied_first#%d" % ne, list(s.pc), tm.eq(slen(L_of(ex, s)), I0), kind="establishment")
    # ---- result: LT_EOF exactly when the input is exhausted and nothing was assembled
    nr = 0
    for s in fin:
        if s.status != "ret" or not feasible(s):
            continue
        nr += 1
        jj = local(info, s, "j")
        L1 = L_of(ex, s)
        hy = list(s.pc) + len_axioms([slen(L1)])
        want_eof = tm.and_(tm.eq(jj, tm.num(-1, "I")), tm.eq(slen(L1), I0)) if not twin else tm.eq(jj, tm.num(-1, "I"))
        for hy2, eof in cases(hy, want_eof):
            U.discharge_valid(r, "result#%d.%s" % (nr, "LT_EOF_when_input_exhausted_and_line_empty" if eof else "LT_OK_otherwise"), hy2, tm.eq(ex.coerce(s.ret, "I"), LT_EOF if eof else LT_OK))
    r.add("reach.results", DISCHARGED if nr >= 2 else UNDECIDED, "symex", 0, str(nr), kind="vacuity")
    # ---- no std::out_of_range can escape
    for k, (what, pc, ob) in enumerate(sm.side):
        if B.z3_sat(pc) == "unsat":
            continue
        U.discharge_valid(r, "no_exception#%d.%s" % (k, what), list(pc) + len_axioms(pc + [ob]), ob, kind="safety")
    index_obligations(r, list(fin) + [s_ for sts_ in info["iter"].values() for s_ in sts_])
    r.assumptions += ["getc()/istream::get() yields EOF (-1) or one unsigned char; EOF is sticky", "std::string modelled by its length: \"\" 0, += 1 more, substr(0,p) p (p <= length demanded), erase(size-1,1) one less",
                      "C-locale isspace", "(char) j == j for the ASCII characters the function tests ('#', ';', newline, backslash)"]
    r.head_exempt = {}
    _core.PENDING.heads = []
    return r


def classify_returned_line(g, ex, s, evs, rv, LT, twin=False):
    """LT_KEYWORD when check_key() says so, else LT_OPTION exactly for a first token longer than one character that starts with -letter
    (token[1] read only for such a token), else LT_OK"""
    nm = lambda e: e.name.split("::")[-1]
    names = [nm(e) for e in evs]
    for _once in (0,):
        for _once2 in (0,):
            ck = [e for e in evs if nm(e) == "check_key"]
            if len(ck) != 1:
                g.add("returned_line.keyword_test_made_once", FAILED, "trace", repr(names)[:120]); return
            is_key = tm.to_bool(ck[0].result)
            for hy, key in cases(list(s.pc), is_key):
                if key:
                    g.valid("returned_line.keyword_line_is_LT_KEYWORD", hy, tm.eq(rv, LT["LT_KEYWORD"] if not twin else LT["LT_OK"]))
                    continue
                ct = [e for e in evs if nm(e) == "copy_token"]
                if not ct:
                    g.add("returned_line.first_token_examined", FAILED, "trace", repr(names)[:120]); continue
                tok = ct[0].args[-1]
                idx = [e for e in index_events(s) if e.args[1] is tok]
                c0 = next((e for e in idx if tm.isnum(e.args[2]) and e.args[2].args[0] == 0), None)
                c1 = next((e for e in idx if tm.isnum(e.args[2]) and e.args[2].args[0] == 1), None)
                long_ = tm.lt(I1, slen(tok))
                for hy2, lg in cases(hy + len_axioms([slen(tok)]), long_):
                    if not lg:
                        g.valid("returned_line.one_character_token_is_not_an_option", hy2, tm.eq(rv, LT["LT_OK"]))
                        g.add("returned_line.token[1]_not_read_for_a_token_of_one_character", DISCHARGED if c1 is None or B.z3_sat(list(c1.snap) + hy2) == "unsat" else FAILED, "trace")
                # classification by the result: LT_OPTION is returned only for a token longer than one character
                for hy2, opt in cases(hy + len_axioms([slen(tok)]), tm.eq(rv, LT["LT_OPTION"])):
                    if opt:
                        g.valid("returned_line.LT_OPTION_only_for_a_token_longer_than_one_character", hy2, long_)
                        g.add("returned_line.LT_OPTION_only_after_both_characters_were_examined", DISCHARGED if c0 is not None and c1 is not None else FAILED, "trace")
                        if c0 is not None and c1 is not None:
                            ch0 = tm.select(ex.heap_arr(s, ("m", "I")), tm.app("s.at", (tok, tm.num(0, "I")), "P"), I0)
                            ch1 = tm.select(ex.heap_arr(s, ("m", "I")), tm.app("s.at", (tok, tm.num(1, "I")), "P"), I0)
                            alpha = tm.or_(tm.and_(tm.le(tm.num(65, "I"), ch1), tm.le(ch1, tm.num(90, "I"))), tm.and_(tm.le(tm.num(97, "I"), ch1), tm.le(ch1, tm.num(122, "I"))))
                            g.valid("returned_line.LT_OPTION_only_for_-letter", hy2, tm.and_(tm.eq(ch0, tm.num(45, "I")), alpha))
                    else:
                        g.valid("returned_line.otherwise_LT_OK", hy2, tm.eq(rv, LT["LT_OK"]))


# ---------------------------------------------------------------------------------------------------------------- PHRQ_io::get_line
def havoc_string_arg(k=0, fname="copy_token"):
    """an opaque callee that fills the std::string it is given by reference (argument k): the string is arbitrary afterwards"""
    def h(ex, st, n, name, recv, args):
        out = []
        arg_nodes = n["inner"][1:]
        res = SX.fresh("ret_" + fname, "I")
        tok = SX.fresh("tok_" + fname, "S")
        for s2, lv in ex.lv(arg_nodes[k], st):
            ex.store(s2, lv, tok, "S")
            s2.events.append(SX.Event(name, recv, list(args) + [tok], res, n))
            out.append((s2, res))
        return out
    return h


def line_ctx(functional=()):
    sm = StrModel()
    c = sm.install(ctx(functional=functional))
    names = ["PHRQ_io::LT_EOF", "PHRQ_io::LT_OK", "PHRQ_io::LT_EMPTY", "PHRQ_io::LT_KEYWORD", "PHRQ_io::LT_OPTION", "PHRQ_io::OT_CONTINUE", "PHRQ_io::OT_STOP"]
    ev = A.enum_values_compiled("PHRQ_io.h", names)
    c.enum_values.update({k.split("::")[-1]: v for k, v in ev.items()})
    for nm, rg in (("isalpha", [(65, 90), (97, 122)]), ("isspace", [(9, 13), (32, 32)])):
        c.handlers[nm] = _cls(rg)
    stop_on_error_msg(c)
    c.handlers["PHRQ_io::error_msg"] = c.handlers["error_msg"]
    c.handlers["CParser::error_msg"] = c.handlers["error_msg"]
    return sm, c


def unit_io_get_line(twin=False):
    """PHRQ_io::get_line(): the next non-empty logical line of the stream stack.
    - an exhausted stream is popped (once) and reading goes on with the stream below it; LT_EOF is returned only when the stack is empty, with
      m_next_keyword = KEY_END;
    - a line is never returned as LT_EMPTY or LT_EOF from inside the loop: LT_KEYWORD when check_key() says so, else LT_OPTION exactly when the
      first token is longer than one character, begins with '-' and goes on with a letter (token[1] is read only then), else LT_OK;
    - INCLUDE$ / INCLUDE_FILE with a file name: the file that does not open is reported with error_msg(.., OT_STOP) after its stream object
      was deleted and is never pushed; the file that opens is pushed exactly once; in both cases nothing is returned for that line."""
    q = "PHRQ_io::get_line"
    sm, c = line_ctx(functional=("get_istream", "get_logical_line", "check_key"))
    c.handlers["CParser::copy_token"] = havoc_string_arg(0)
    c.handlers["copy_token"] = havoc_string_arg(0)
    E = c.enum_values
    LT = {k: tm.num(E[k], "I") for k in ("LT_EOF", "LT_OK", "LT_EMPTY", "LT_KEYWORD", "LT_OPTION")}
    fn0 = A.find_function(PIO, q)
    loops = [x for x in A.walk(fn0) if x.get("kind") in ("ForStmt", "WhileStmt", "DoStmt")]
    def nested_in(a, b):
        return a is not b and any(y is a for y in A.walk(b))
    outer = [k for k, lp in enumerate(loops) if not any(nested_in(lp, o) for o in loops)]
    if len(outer) != 1:
        raise Undecided("expected one outermost loop in PHRQ_io::get_line")
    FILES = outer[0]
    inner = [k for k, lp in enumerate(loops) if lp["kind"] == "WhileStmt" and nested_in(lp, loops[FILES]) and not any(nested_in(lp, loops[o]) for o in range(len(loops)) if o != FILES and nested_in(loops[o], loops[FILES]))]
    if len(inner) != 1:
        raise Undecided("the loop that skips empty lines was not found")
    LINES = inner[0]
    def exit_inv(ex_, h, o, info_):
        if o == LINES:
            # exit invariant of the empty-line loop (proved on its iterations below)
            rv = h.locals.get(info_["names"]["return_value"])
            cl = h.locals.get(info_["names"]["continue_loop"])
            h.assume(tm.or_(tm.eq(rv, LT["LT_EMPTY"]), tm.eq(rv, LT["LT_OK"])))
            h.assume(tm.not_(tm.to_bool(cl)))
    fn, ex, fin, info = run_with_exit_states(PIO, q, c, exit_inv=exit_inv)
    r = U.new_unit("C08.PHRQ_io.get_line.what_is_returned_for_every_line_and_every_include", PIO, q, fn)
    g = Agg(r)
    nm = lambda e: e.name.split("::")[-1]
    cnt = {"ret": 0, "pop": 0, "inc_bad": 0, "inc_ok": 0, "eof": 0, "lines": 0}
    # ---- the empty-line loop: invariant and what one iteration does
    for s in info["iter"].get(LINES, []):
        if not feasible(s):
            continue
        evs = since(s, 1)
        gl = [e for e in evs if nm(e) == "get_logical_line"]
        if len(gl) != 1:
            g.add("lines.one_logical_line_is_read_per_iteration", FAILED, "trace", repr([nm(e) for e in evs])[:120]); continue
        at_eof = tm.eq(gl[0].result, LT["LT_EOF"])
        pops = [e for e in evs if nm(e) == "pop_istream"]
        for hy, eof in cases(list(s.pc), at_eof):
            if eof:
                cnt["pop"] += 1
                ok = len(pops) == 1 and s.status == "brk" and not [e for e in evs if nm(e) in ("append", "str.assign", "str.append")]
                g.add("lines.stream_exhausted.popped_exactly_once_and_nothing_else_happens", DISCHARGED if ok and not twin else FAILED, "trace", "%s %r" % (s.status, [nm(e) for e in evs])[:140])
                if ok:
                    g.valid("lines.stream_exhausted.the_outer_loop_is_told_to_take_the_next_stream", hy, tm.to_bool(local(info, s, "continue_loop")))
            else:
                cnt["lines"] += 1
                g.add("lines.line_read.stream_not_popped", DISCHARGED if not pops else FAILED, "trace")
                if s.status in ("run", "cont"):
                    rv = local(info, s, "return_value")
                    g.valid("lines.invariant(return_value_is_EMPTY_or_OK_and_no_stream_change_pending)", hy,
                            tm.and_(tm.or_(tm.eq(rv, LT["LT_EMPTY"]), tm.eq(rv, LT["LT_OK"])), tm.not_(tm.to_bool(local(info, s, "continue_loop")))), kind="inductive")
                acc = [e for e in evs if nm(e) == "append"]
                on = tm.to_bool(tm.select(ex.heap_arr(s, ("f", "accumulate", "B")), THIS))
                for hy2, a_on in cases(hy, on):
                    g.add("lines.line_read.accumulated_exactly_when_accumulating", DISCHARGED if (len(acc) == 2) == a_on else FAILED, "trace", repr(len(acc)))
    for s in info["entry"].get(LINES, []):
        g.valid("lines.entry(the_loop_body_runs_at_least_once)", list(s.pc), tm.eq(local(info, s, "return_value"), LT["LT_EMPTY"]), kind="establishment")
    # ---- one pass of the outer loop
    for s in info["iter"].get(FILES, []):
        if not feasible(s):
            continue
        evs = since(s, 0)
        names = [nm(e) for e in evs]
        news = [e for e in evs if e.name.startswith("new ")]
        if s.status == "ret":
            cnt["ret"] += 1
            rv = ex.coerce(s.ret, "I")
            g.valid("returned_line.is_never_EMPTY_or_EOF", list(s.pc), tm.or_(tm.eq(rv, LT["LT_OK"]), tm.eq(rv, LT["LT_KEYWORD"]), tm.eq(rv, LT["LT_OPTION"])))
            classify_returned_line(g, ex, s, evs, rv, LT, twin)
            g.add("returned_line.no_stream_pushed_or_deleted", DISCHARGED if not news and "push_istream" not in names and "delete" not in names else FAILED, "trace")
        elif s.status in ("cont", "run", "throw"):
            if news:
                opened = [e for e in evs if nm(e) == "is_open"]
                if len(news) != 1 or len(opened) != 1:
                    g.add("include.one_stream_object_tested_once", FAILED, "trace", repr(names)[:140]); continue
                p = news[0].result
                pushes = [e for e in evs if nm(e) == "push_istream"]
                dels = [e for e in evs if e.name == "delete"]
                for hy, op in cases(list(s.pc), tm.to_bool(opened[0].result)):
                    if op:
                        cnt["inc_ok"] += 1
                        ok = len(pushes) == 1 and pushes[0].args[0] is p and not dels and s.status != "throw"
                        g.add("include.file_opened.pushed_exactly_once_and_kept", DISCHARGED if ok else FAILED, "trace", repr(names)[-140:])
                    else:
                        cnt["inc_bad"] += 1
                        errs = [e for e in evs if nm(e) == "error_msg"]
                        ok = not pushes and len(dels) == 1 and dels[0].args[0] is p and len(errs) == 1 and s.status == "throw" and not twin
                        g.add("include.file_not_opened.object_deleted_never_pushed_and_reported_with_STOP", DISCHARGED if ok else FAILED, "trace", "%s %r" % (s.status, names[-8:]))
            elif "pop_istream" in names:
                cnt["eof"] += 1
                g.add("stream_exhausted.outer_loop_goes_on_without_returning", DISCHARGED if s.status == "cont" else FAILED, "trace", s.status)
    # ---- end of input
    ne = 0
    for s in fin:
        if s.status != "ret" or not feasible(s):
            continue
        ne += 1
        gi = [e for e in s.events if nm(e) == "get_istream"]
        g.valid("end_of_input.LT_EOF", list(s.pc), tm.eq(ex.coerce(s.ret, "I"), LT["LT_EOF"]))
        g.add("end_of_input.only_when_the_stream_stack_is_empty", DISCHARGED if gi and B.z3_prove(list(s.pc), tm.eq(gi[-1].result, tm.NULL))[0] == "proved" else FAILED, "z3")
        kw = tm.select(ex.heap_arr(s, ("f", "m_next_keyword", "I")), THIS)
        g.add("end_of_input.next_keyword_is_KEY_END", DISCHARGED if "KEY_END" in repr(kw) else FAILED, "symex", repr(kw))
    g.flush()
    for k, (what, pc, ob) in enumerate(sm.side):
        if B.z3_sat(pc) == "unsat":
            continue
        U.discharge_valid(r, "no_exception#%d.%s" % (k, what), list(pc) + len_axioms(pc + [ob]), ob, kind="safety")
    index_obligations(r, list(fin) + [s_ for sts_ in info["iter"].values() for s_ in sts_])
    r.add("reach.cases", DISCHARGED if cnt["ret"] >= 3 and cnt["pop"] and cnt["inc_bad"] and cnt["inc_ok"] and cnt["eof"] and ne else UNDECIDED, "symex", 0, repr(cnt) + " end=%d" % ne, kind="vacuity")
    r.assumptions += ["get_istream(), get_logical_line(), check_key() as functions of the state they are called in (their own contracts: C08.PHRQ_io.get_logical_line.*, C08.PHRQ_io.check_key.*)",
                      "CParser::copy_token fills the string it is given with an arbitrary token", "std::string modelled by its length; operator[](i) demands i <= size()",
                      "error_msg(.., OT_STOP) does not return (C08.errors.PHRQ_io_error_msg_counts_once)", "new std::ifstream does not fail"]
    _core.PENDING.heads = []
    return r


# ---------------------------------------------------------------------------------------------------------------- check_key
def unit_check_key(rel, cls, twin=False):
    """check_key(begin, end): the first token of the line, lower-cased, is looked up in the keyword table; m_next_keyword is the answer and the
    result is true exactly when the answer is not KEY_NONE"""
    q = cls + "::check_key"
    sm, c = line_ctx(functional=("Keyword_search",))
    c.handlers["CParser::copy_token"] = havoc_string_arg(0)
    c.handlers["copy_token"] = havoc_string_arg(0)
    fn, ex, fin, info = run_with_exit_states(rel, q, c)
    r = U.new_unit("C08.%s.check_key.keyword_of_the_first_token" % cls, rel, q, fn)
    g = Agg(r)
    n = 0
    NONE = tm.sym("E.KEY_NONE", "I")
    for s in fin:
        if s.status != "ret" or not feasible(s):
            continue
        n += 1
        ks = [e for e in s.events if e.name.split("::")[-1] == "Keyword_search"]
        ct = [e for e in s.events if e.name.split("::")[-1] == "copy_token"]
        if len(ks) != 1 or len(ct) != 1:
            g.add("one_token_one_lookup", FAILED, "trace", repr([e.name for e in s.events])[:120]); continue
        g.add("one_token_one_lookup", DISCHARGED, "trace")
        g.add("the_token_looked_up_is_the_first_token_of_the_line", DISCHARGED if ks[0].args[0] is ct[0].args[-1] else FAILED, "trace", repr(ks[0].args[0])[:60])
        kw = tm.select(ex.heap_arr(s, ("f", "m_next_keyword", "I")), THIS)
        g.add("m_next_keyword_is_the_answer", DISCHARGED if kw is ex.coerce(ks[0].result, "I") else FAILED, "symex", repr(kw)[:80])
        found = tm.not_(tm.eq(ex.coerce(ks[0].result, "I"), NONE))
        for hy, f in cases(list(s.pc), found if not twin else tm.not_(found)):
            g.valid("true_exactly_for_a_keyword", hy, tm.to_bool(s.ret) if f else tm.not_(tm.to_bool(s.ret)))
        tr = [e for e in s.events if e.name.split("::")[-1] == "transform"]
        g.add("token_lower_cased_before_the_lookup", DISCHARGED if tr and s.events.index(tr[0]) < s.events.index(ks[0]) and "tolower" in repr(tr[0].args) else FAILED, "trace")
    g.flush()
    r.add("reach.paths", DISCHARGED if n >= 1 else UNDECIDED, "symex", 0, str(n), kind="vacuity")
    r.assumptions += ["copy_token yields the first blank-delimited token; std::transform(.., tolower) lower-cases it in place; Keywords::Keyword_search is a table look-up"]
    _core.PENDING.heads = []
    return r


# ---------------------------------------------------------------------------------------------------------------- stream stack
def unit_stream_stack(twin=False):
    """push_istream / pop_istream keep the two lists (stream, delete-it-flag) in step: push adds one entry to the front of each; pop on a
    non-empty stack deletes the front stream exactly when its flag says so and removes the front of each list once; pop on an empty stack does nothing."""
    r = U.new_unit("C08.PHRQ_io.stream_stack.stream_and_flag_lists_move_together", PIO, "PHRQ_io::pop_istream", A.find_function(PIO, "PHRQ_io::pop_istream"))
    g = Agg(r)
    A_S, A_D = tm.app("fld:istream_list", (THIS,), "P"), tm.app("fld:delete_istream_list", (THIS,), "P")
    nm = lambda e: e.name.split("::")[-1]
    # push
    c = ctx(functional=("size", "front"))
    fn, ex, fin, info = U.run_function(PIO, "PHRQ_io::push_istream", ctx=c)
    n1 = 0
    for s in fin:
        n1 += 1
        pf = [e for e in s.events if nm(e) == "push_front"]
        ok = len(pf) == 2 and {id(e.recv) for e in pf} == {id(A_S), id(A_D)} and all((e.args[0] is tm.sym("P0_cookie", "P")) == (e.recv is A_S) for e in pf) \
            and all((e.args[0] is tm.sym("P1_auto_delete", "B")) == (e.recv is A_D) for e in pf)
        g.add("push.one_entry_in_front_of_each_list(the_stream,its_flag)", DISCHARGED if ok and not twin else FAILED, "trace", repr(pf)[:160])
        g.add("push.nothing_else", DISCHARGED if len(s.events) == 2 else FAILED, "trace", repr([nm(e) for e in s.events]))
    # pop
    c = ctx(functional=("size", "front"))
    fn, ex, fin, info = U.run_function(PIO, "PHRQ_io::pop_istream", ctx=c)
    n2 = {"empty": 0, "del": 0, "keep": 0}
    size = tm.app("call:size", (A_S,), "I")
    for s in fin:
        if not feasible(s):
            continue
        pops = [e for e in s.events if nm(e) == "pop_front"]
        dels = [e for e in s.events if e.name == "delete"]
        for hy, nonempty in cases(list(s.pc), tm.lt(I0, size)):
            if not nonempty:
                n2["empty"] += 1
                g.add("pop.empty_stack.nothing_happens", DISCHARGED if not pops and not dels else FAILED, "trace")
                continue
            ok = len(pops) == 2 and {id(e.recv) for e in pops} == {id(A_S), id(A_D)}
            g.add("pop.front_of_each_list_removed_once", DISCHARGED if ok else FAILED, "trace", repr(pops)[:120])
            fr = [e for e in s.events if nm(e) == "front"]
            fl = [e for e in fr if e.recv is A_D]
            if not fl:
                g.add("pop.delete_flag_consulted", FAILED, "trace"); continue
            if dels:
                n2["del"] += 1
                g.add("pop.deleted_object_is_the_front_stream", DISCHARGED if len(dels) == 1 and any(e.recv is A_S for e in fr) and "front" in repr(dels[0].args[0]) and "istream_list" in repr(dels[0].args[0]) and "delete_istream_list" not in repr(dels[0].args[0]) else FAILED, "trace", repr(dels[0].args)[:120])
                g.add("pop.deleted_before_it_is_removed_from_the_list", DISCHARGED if pops and s.events.index(dels[0]) < s.events.index(pops[0]) else FAILED, "trace")
            else:
                n2["keep"] += 1
    # the flag decides: a path with delete and a path without exist, and they differ in the truth of the flag read
    g.flush()
    r.add("pop.the_flag_decides_whether_the_stream_is_deleted", DISCHARGED if n2["del"] and n2["keep"] else FAILED, "symex", 0, repr(n2))
    r.add("reach.paths", DISCHARGED if n1 and all(n2.values()) else UNDECIDED, "symex", 0, "%d %r" % (n1, n2), kind="vacuity")
    r.assumptions += ["std::list push_front / pop_front / front / size as events (their own semantics assumed)", "clear_istream pops until the stack is empty: C08.entry_points.no_input_stream_left_behind"]
    return r


# ---------------------------------------------------------------------------------------------------------------- Phreeqc::check_line_impl, get_line
def unit_check_line_impl(twin=False):
    """check_line_impl(string, allow_empty, allow_eof, allow_keyword, print): lines are read until one is acceptable;
    EOF where it is not allowed stops the run with an error message (never returns); a keyword where data were expected is reported as an input
    error (counted once) and returned; EMPTY is returned only when allowed; the value returned is the type of the last line read, also left in
    check_line_return."""
    q = "Phreeqc::check_line_impl"
    c = ctx(functional=())
    stop_on_error_msg(c)
    fn, ex, fin, info = run_with_exit_states(INP, q, c)
    r = U.new_unit("C08.check_line_impl.what_is_returned_and_what_is_reported", INP, q, fn)
    g = Agg(r)
    nm = lambda e: e.name.split("::")[-1]
    EOF_, EMPTY, KEYWORD = tm.num(-1, "I"), tm.num(2, "I"), tm.num(3, "I")
    AE, AEOF, AK, PR = (tm.sym(x, "I") for x in ("P1_allow_empty", "P2_allow_eof", "P3_allow_keyword", "P4_print"))
    n = {"it": 0, "thr": 0, "ret": 0}
    for s in info["iter"].get(0, []):
        if not feasible(s):
            continue
        n["it"] += 1
        gl = [e for e in since(s, 0) if nm(e) == "get_line"]
        g.add("loop.one_line_read_per_iteration", DISCHARGED if len(gl) == 1 else FAILED, "trace", str(len(gl)))
        if len(gl) != 1:
            continue
        i = ex.coerce(gl[0].result, "I")
        echo = [e for e in since(s, 0) if nm(e) == "echo_msg"]
        want = tm.or_(tm.and_(tm.eq(PR, I1), tm.not_(tm.eq(i, EOF_))), tm.eq(i, KEYWORD))
        for hy, w in cases(list(s.pc), want):
            g.add("loop.line_echoed_exactly_when(print_and_not_EOF)_or_keyword", DISCHARGED if (len(echo) == 1) == w else FAILED, "trace", "%d echo, want %s" % (len(echo), w))
        g.add("loop.local_i_is_the_type_of_the_line_read", DISCHARGED if local(info, s, "i") is i else FAILED, "symex")
    for s in fin:
        if not feasible(s):
            continue
        i = local(info, s, "i")
        errs = [e for e in s.events if nm(e) == "error_msg"]
        ie1 = fld(ex, s, "input_error", "I")
        bad_eof = tm.and_(tm.eq(i, EOF_), tm.eq(AEOF, I0))
        if s.status == "throw":
            n["thr"] += 1
            g.valid("stops_only_for_EOF_where_it_is_not_allowed", list(s.pc), bad_eof if not twin else tm.eq(i, KEYWORD))
            continue
        if s.status != "ret":
            continue
        n["ret"] += 1
        g.valid("returns_only_when_not(EOF_where_it_is_not_allowed)", list(s.pc), tm.not_(bad_eof))
        g.valid("returns_the_type_of_the_last_line", list(s.pc), tm.eq(ex.coerce(s.ret, "I"), i))
        g.valid("check_line_return_is_that_type", list(s.pc), tm.eq(fld(ex, s, "check_line_return", "I"), i))
        g.valid("EMPTY_returned_only_when_allowed", list(s.pc), tm.implies(tm.eq(i, EMPTY), tm.not_(tm.eq(AE, I0))))
        bad_kw = tm.and_(tm.eq(i, KEYWORD), tm.eq(AK, I0))
        wr = writes(s, ("f", "input_error", "I"))
        for hy, b in cases(list(s.pc), bad_kw):
            if b:
                ok = len(errs) == 1 and len(wr) == 1
                g.add("keyword_where_data_were_expected.reported_once_and_counted_once", DISCHARGED if ok else FAILED, "trace", "%d messages, %d counts" % (len(errs), len(wr)))
                if ok:
                    g.valid("keyword_where_data_were_expected.input_error+1", hy, tm.eq(wr[0][1], tm.add(tm.select(ex.heap_arr(s, ("f", "input_error", "I")).args[0] if ex.heap_arr(s, ("f", "input_error", "I")).op == "store" else ex.heap_arr(s, ("f", "input_error", "I")), THIS), I1)))
            else:
                g.add("otherwise.no_error_reported_or_counted", DISCHARGED if not errs and not wr else FAILED, "trace", "%d messages, %d counts" % (len(errs), len(wr)))
    g.flush()
    r.add("reach.iterations_stop_return", DISCHARGED if n["it"] >= 2 and n["thr"] and n["ret"] >= 2 else UNDECIDED, "symex", 0, repr(n), kind="vacuity")
    r.assumptions += ["behind the loop i is arbitrary except that the loop condition (i == EMPTY && allow_empty == FALSE) is false", "error_msg(.., STOP) does not return",
                      "EOF == -1, EMPTY == 2, KEYWORD == 3, TRUE == 1, FALSE == 0 (global_structures.h / stdio.h)"]
    _core.PENDING.heads = []
    return r


def unit_phreeqc_get_line(twin=False):
    """Phreeqc::get_line(): the type of the line is the one the I/O layer returned; next_keyword is the I/O layer's; line and line_save are the
    copies of the I/O layer's two strings (capacity: C08.sites.heap_dest.get_line)"""
    q = "Phreeqc::get_line"
    c = ctx(functional=("Get_m_line", "Get_m_line_save", "c_str", "strlen", "Get_m_next_keyword"))
    c.pure = AllPure()
    fn, ex, fin, info = U.run_function(INP, q, ctx=c)
    r = U.new_unit("C08.Phreeqc_get_line.type_keyword_and_both_texts_come_from_the_io_layer", INP, q, fn)
    g = Agg(r)
    nm = lambda e: e.name.split("::")[-1]
    n = 0
    for s in fin:
        if s.status != "ret" or not feasible(s):
            continue
        n += 1
        gl = [e for e in s.events if nm(e) == "get_line"]
        g.add("one_line_taken_from_the_io_layer", DISCHARGED if len(gl) == 1 else FAILED, "trace")
        if len(gl) != 1:
            continue
        g.add("returns_the_io_layer's_line_type", DISCHARGED if ex.coerce(s.ret, "I") is ex.coerce(gl[0].result, "I") and not twin else FAILED, "symex", repr(s.ret)[:60])
        kw = [e for e in s.events if nm(e) == "Get_m_next_keyword"]
        nk = fld(ex, s, "next_keyword", "I")
        g.add("next_keyword_is_the_io_layer's", DISCHARGED if kw and nk is ex.coerce(kw[-1].result, "I") and s.events.index(kw[-1]) > s.events.index(gl[0]) else FAILED, "symex", repr(nk)[:80])
        cps = [e for e in s.events if nm(e) == "strcpy_safe"]
        ok = len(cps) == 2
        if ok:
            d0, d1 = cps[0].args[0], cps[1].args[0]
            ok = "Get_m_line(" in repr(cps[0].args[2]) and "Get_m_line_save(" in repr(cps[1].args[2]) and d0 is fld(ex, s, "line", "P") and d1 is fld(ex, s, "line_save", "P")
        g.add("line_gets_the_stripped_text_and_line_save_the_text_as_typed", DISCHARGED if ok else FAILED, "trace", repr([e.args for e in cps])[:200])
        g.add("copies_made_after_the_line_was_read", DISCHARGED if cps and all(s.events.index(e) > s.events.index(gl[0]) for e in cps) else FAILED, "trace")
    g.flush()
    r.add("reach.paths", DISCHARGED if n >= 2 else UNDECIDED, "symex", 0, str(n), kind="vacuity")
    r.assumptions += ["Get_m_line / Get_m_line_save / Get_m_next_keyword are plain getters"]
    return r


# ---------------------------------------------------------------------------------------------------------------- Phreeqc::get_option / find_option
def copy_token_moves(fname="copy_token"):
    """Phreeqc::copy_token(std::string &token, const char **cptr): the token is arbitrary, *cptr is moved to an arbitrary place behind it"""
    def h(ex, st, n, name, recv, args):
        arg_nodes = n["inner"][1:]
        if len(arg_nodes) != 2:
            return None
        res = SX.fresh("ret_" + fname, "I")
        tok = SX.fresh("tok_" + fname, "S")
        nxt = SX.fresh("behind_token", "P")
        out = []
        for s2, lv in ex.lv(arg_nodes[0], st):
            ex.store(s2, lv, tok, "S")
            ex.store(s2, ex.deref(s2, args[1]), nxt, "P")
            s2.events.append(SX.Event(name, recv, [tok, args[1], nxt], res, n))
            out.append((s2, res))
        return out
    return h


def unit_get_option(twin=False):
    """Phreeqc::get_option(opt_list, count, &next_char): one acceptable line is read (empty lines skipped, EOF and keyword allowed);
       EOF -> OPTION_EOF, keyword -> OPTION_KEYWORD (next_char untouched);
       a line that starts with -letter: the text behind '-' is matched by prefix (find_option .., FALSE): found -> the option's index, the
       abbreviation is written out in line and line_save and next_char points behind the option; not found -> 'Unknown option.' and the line
       are reported, input_error + 1, OPTION_ERROR, next_char = start of the line;
       any other line: the first token is matched exactly: found -> its index, next_char behind it; else OPTION_DEFAULT, next_char = start."""
    q = "Phreeqc::get_option"
    c = ctx(functional=("reading_database",))
    c.log_stores = True
    stop_on_error_msg(c)
    c.handlers["Phreeqc::copy_token"] = copy_token_moves()
    c.handlers["copy_token"] = copy_token_moves()
    fn, ex, fin, info = U.run_function(READ, q, ctx=c)
    r = U.new_unit("C08.get_option.every_kind_of_line_has_its_documented_result", READ, q, fn)
    g = Agg(r)
    nm = lambda e: e.name.split("::")[-1]
    EOF_, KEYWORD, OPTION = tm.num(-1, "I"), tm.num(3, "I"), tm.num(8, "I")
    O_EOF, O_KEY, O_ERR, O_DEF = (tm.num(x, "I") for x in (-1, -2, -3, -4))
    NEXT = tm.sym("P2_next_char", "P")
    n = {"eof": 0, "key": 0, "opt_ok": 0, "opt_bad": 0, "tok_ok": 0, "tok_def": 0}
    for s in fin:
        if s.status != "ret" or not feasible(s):
            continue
        cl = [e for e in s.events if nm(e) == "check_line"]
        if len(cl) != 1:
            g.add("one_line_is_read", FAILED, "trace", str(len(cl))); continue
        a = cl[0].args
        okargs = len(a) == 5 and all(tm.isnum(ex.coerce(x, "I")) for x in a[1:]) and [int(ex.coerce(x, "I").args[0]) for x in a[1:]] == [0, 1, 1, 0]
        g.add("line_read_with(empty_skipped,EOF_allowed,keyword_allowed,not_echoed)", DISCHARGED if okargs else FAILED, "trace", repr(a[1:]))
        j0 = ex.coerce(cl[0].result, "I")
        rv = ex.coerce(s.ret, "I")
        st_next = [e for e in s.events if e.name == "store" and e.recv is NEXT]
        fo = [e for e in s.events if nm(e) == "find_option"]
        errs = [e for e in s.events if nm(e) == "error_msg"]
        reps = [e for e in s.events if nm(e) == "replace"]
        cts = [e for e in s.events if nm(e) == "copy_token"]
        line_now = fld(ex, s, "line", "P")
        wr_ie = writes(s, ("f", "input_error", "I"))
        kinds = [("eof", tm.eq(j0, EOF_)), ("key", tm.eq(j0, KEYWORD)), ("opt", tm.eq(j0, OPTION)),
                 ("tok", tm.and_(tm.not_(tm.eq(j0, EOF_)), tm.not_(tm.eq(j0, KEYWORD)), tm.not_(tm.eq(j0, OPTION))))]
        for kind, cond in kinds:
            hy = list(s.pc) + [cond]
            if B.z3_sat(hy) == "unsat":
                continue
            if kind in ("eof", "key"):
                n[kind] += 1
                g.valid("%s.result" % {"eof": "end_of_input.OPTION_EOF", "key": "keyword.OPTION_KEYWORD"}[kind], hy, tm.eq(rv, O_EOF if kind == "eof" else (O_KEY if not twin else O_DEF)))
                g.add("%s.next_char_untouched_nothing_reported" % kind, DISCHARGED if not st_next and not errs and not wr_ie and not reps else FAILED, "trace")
                continue
            if len(fo) != 1:
                g.add("%s.one_look-up_in_the_option_list" % kind, FAILED, "trace", str(len(fo))); continue
            exact = ex.coerce(fo[0].args[-1], "I")
            g.add("%s.matched_%s" % (kind, "by_prefix_without_the_dash" if kind == "opt" else "exactly"),
                  DISCHARGED if tm.isnum(exact) and int(exact.args[0]) == (0 if kind == "opt" else 1) else FAILED, "trace", repr(exact))
            g.add("%s.searched_in_the_callers_list" % kind, DISCHARGED if fo[0].args[2] is tm.sym("P0_opt_list", "P") and ex.coerce(fo[0].args[3], "I") is tm.sym("P1_count_opt_list", "I") else FAILED, "trace")
            found = tm.eq(ex.coerce(fo[0].result, "I"), I1)
            for hy2, f in cases(hy, found):
                if len(st_next) != 1:
                    g.add("%s.next_char_set_once" % kind, FAILED, "trace", str(len(st_next))); continue
                nxt = st_next[0].args[1]
                if f:
                    n["opt_ok" if kind == "opt" else "tok_ok"] += 1
                    optv = tm.select(ex.heap_arr(s, ("m", "I")), [e for e in s.events if nm(e) == "find_option"][0].args[1], I0)
                    g.valid("%s.found.result_is_the_index_found" % kind, hy2, tm.eq(rv, optv))
                    g.add("%s.found.next_char_is_behind_the_%s" % (kind, "option" if kind == "opt" else "token"), DISCHARGED if cts and nxt is cts[-1].args[2] else FAILED, "symex", repr(nxt)[:60])
                    g.add("%s.found.nothing_reported" % kind, DISCHARGED if not errs and not wr_ie else FAILED, "trace")
                    if kind == "opt":
                        dests = [e.args[2] for e in reps]
                        ok = len(reps) == 2 and {id(d) for d in dests} == {id(fld(ex, s, "line", "P")), id(fld(ex, s, "line_save", "P"))} and all("opt_list" in repr(e.args[1]) for e in reps)
                        g.add("opt.found.abbreviation_written_out_in_line_and_line_save", DISCHARGED if ok else FAILED, "trace", repr(dests)[:120])
                        g.add("opt.found.token_taken_again_after_the_rewrite", DISCHARGED if len(cts) == 2 and reps and s.events.index(cts[-1]) > s.events.index(reps[-1]) else FAILED, "trace")
                    else:
                        g.add("tok.found.line_not_rewritten", DISCHARGED if not reps else FAILED, "trace")
                else:
                    n["opt_bad" if kind == "opt" else "tok_def"] += 1
                    g.valid("%s.not_found.result" % kind, hy2, tm.eq(rv, O_ERR if kind == "opt" else O_DEF))
                    g.add("%s.not_found.next_char_is_the_start_of_the_line" % kind, DISCHARGED if nxt is line_now else FAILED, "symex", repr(nxt)[:60])
                    if kind == "opt":
                        okr = len(errs) == 2 and len(wr_ie) == 1 and s.status == "ret"
                        g.add("opt.not_found.reported_(message_and_line)_and_counted_once", DISCHARGED if okr else FAILED, "trace", "%d messages %d counts" % (len(errs), len(wr_ie)))
                    else:
                        g.add("tok.not_found.nothing_reported", DISCHARGED if not errs and not wr_ie else FAILED, "trace")
    g.flush()
    r.add("reach.all_kinds_of_line", DISCHARGED if all(n.values()) else UNDECIDED, "symex", 0, repr(n), kind="vacuity")
    r.assumptions += ["check_line returns the type of the line it left in line / line_save (C08.check_line_impl.*)", "copy_token leaves its pointer behind the token it copied", "find_option: C08.find_option.*",
                      "room for the longer text written by replace(): C08.sites.replace (fails for these two sites - heap overflow, see the demo)",
                      "EOF -1, KEYWORD 3, OPTION 8, OK 1, OPTION_EOF -1, OPTION_KEYWORD -2, OPTION_ERROR -3, OPTION_DEFAULT -4 (global_structures.h)"]
    return r


def unit_find_option(twin=False):
    """Phreeqc::find_option(item, &n, list, count, exact): the options are tried in list order from the first to the last; the first one that
    equals the lower-cased item (exact) or begins with it (not exact) is the answer: *n = its index, OK; none: *n = -1, ERROR."""
    q = "Phreeqc::find_option"
    c = ctx(functional=("strcmp", "strstr", "c_str"))
    fn, ex, fin, info = run_with_exit_states(READ, q, c)
    r = U.new_unit("C08.find_option.first_option_that_matches_or_ERROR", READ, q, fn)
    g = Agg(r)
    N_, LIST, CNT, EX_ = tm.sym("P1_n", "P"), tm.sym("P2_list", "P"), tm.sym("P3_count_list", "I"), tm.sym("P4_exact", "I")
    n = {"hit": 0, "go": 0, "miss": 0}
    its = info["iter"].get(0, [])
    for s in its:
        if not feasible(s):
            continue
        i = tm.sym("iter_i", "I")
        st_n = [e for e in since(s) if e.name == "store" and e.recv is N_] if c.log_stores else None
        wr = [w for w in writes(s, ("m", "I")) if w[0][0] is N_]
        item = tm.select(ex.heap_arr(s, ("m", "P")), LIST, i)
        cmp_ = [e for e in since(s) if e.name.split("::")[-1] in ("strcmp", "strstr")]
        if s.status == "ret":
            n["hit"] += 1
            g.valid("match.returns_OK", list(s.pc), tm.eq(ex.coerce(s.ret, "I"), I1))
            g.add("match.*n_is_the_index_of_the_option_compared", DISCHARGED if len(wr) == 1 and wr[0][1] is i and not twin else FAILED, "symex", repr(wr)[:80])
            ok = len(cmp_) == 1 and cmp_[0].args[0] is item
            g.add("match.the_option_compared_is_list[i]", DISCHARGED if ok else FAILED, "trace", repr(cmp_)[:120])
            if ok:
                e = cmp_[0]
                for hy, ex_ in cases(list(s.pc), tm.eq(EX_, I1)):
                    if ex_:
                        g.add("match.exact.by_strcmp_equal", DISCHARGED if e.name.endswith("strcmp") and B.z3_prove(hy, tm.eq(ex.coerce(e.result, "I"), I0))[0] == "proved" else FAILED, "z3")
                    else:
                        g.add("match.prefix.item_found_at_the_very_start_of_the_option", DISCHARGED if e.name.endswith("strstr") and B.z3_prove(hy, tm.eq(e.result, item))[0] == "proved" else FAILED, "z3")
        elif s.status in ("run", "cont"):
            n["go"] += 1
            g.add("no_match.*n_untouched_and_the_next_option_is_tried", DISCHARGED if not wr else FAILED, "symex")
    check_loop_range(r, "options", ex, c, info.get("loopinfo", {"node": [x for x in A.walk(fn) if x.get("kind") == "ForStmt"][0], "entry_state": (info["entry"].get(0) or [None])[0], "names": info["names"]}), its, "i", I0,
                     lambda v: tm.lt(v, CNT))
    for s in fin:
        if s.status != "ret" or not feasible(s):
            continue
        wr = [w for w in writes(s, ("m", "I")) if w[0][0] is N_]
        if [e for e in s.events if e.name == "left_by_break"]:
            continue
        n["miss"] += 1
        g.valid("none_matches.returns_ERROR", list(s.pc), tm.eq(ex.coerce(s.ret, "I"), I0))
        g.add("none_matches.*n_is_-1", DISCHARGED if wr and tm.isnum(wr[-1][1]) and int(wr[-1][1].args[0]) == -1 else FAILED, "symex", repr(wr)[:60])
    g.flush()
    r.add("reach.match_no_match_none", DISCHARGED if all(n.values()) else UNDECIDED, "symex", 0, repr(n), kind="vacuity")
    r.assumptions += ["the item is lower-cased before the loop (Utilities::str_tolower; not under this contract)", "strcmp / strstr of the C library", "list has count_list entries (callers pass the array and its size)"]
    r.head_exempt = {}
    return r


# ---------------------------------------------------------------------------------------------------------------- CParser
def unit_cparser_check_line(twin=False):
    """CParser::check_line(str, allow_empty, allow_eof, allow_keyword, print): the C++ parser's twin of check_line_impl - same contract."""
    q = "CParser::check_line"
    sm, c = line_ctx(functional=())
    fn, ex, fin, info = run_with_exit_states(PAR, q, c)
    r = U.new_unit("C08.CParser.check_line.what_is_returned_and_what_is_reported", PAR, q, fn)
    g = Agg(r)
    nm = lambda e: e.name.split("::")[-1]
    E = c.enum_values
    EOF_, EMPTY, KEYWORD = tm.num(E["LT_EOF"], "I"), tm.num(E["LT_EMPTY"], "I"), tm.num(E["LT_KEYWORD"], "I")
    AE, AEOF, AK = (tm.sym(x, "B") for x in ("P1_allow_empty", "P2_allow_eof", "P3_allow_keyword"))
    n = {"it": 0, "thr": 0, "ret": 0}
    for s in info["iter"].get(0, []):
        if not feasible(s):
            continue
        n["it"] += 1
        gl = [e for e in since(s, 0) if nm(e) == "get_line"]
        g.add("loop.one_line_read_per_iteration", DISCHARGED if len(gl) == 1 else FAILED, "trace", str(len(gl)))
        if len(gl) == 1:
            g.add("loop.local_i_is_the_type_of_the_line_read", DISCHARGED if local(info, s, "i") is ex.coerce(gl[0].result, "I") else FAILED, "symex")
            rs = [e for e in since(s, 0) if nm(e) in ("str", "seekg", "clear") and "m_line_iss" in repr(e.recv)]
            g.add("loop.token_stream_reset_to_the_new_line", DISCHARGED if len(rs) >= 3 and all(since(s, 0).index(e) > since(s, 0).index(gl[0]) for e in rs) else FAILED, "trace", repr([nm(e) for e in rs]))
    for s in fin:
        if not feasible(s):
            continue
        i = local(info, s, "i")
        errs = [e for e in s.events if nm(e) == "error_msg"]
        incs = [e for e in s.events if nm(e) == "incr_input_error"]
        bad_eof = tm.and_(tm.eq(i, EOF_), tm.not_(AEOF))
        if s.status == "throw":
            n["thr"] += 1
            g.valid("stops_only_for_EOF_where_it_is_not_allowed", list(s.pc), bad_eof if not twin else tm.eq(i, KEYWORD))
            continue
        if s.status != "ret":
            continue
        n["ret"] += 1
        g.valid("returns_only_when_not(EOF_where_it_is_not_allowed)", list(s.pc), tm.not_(bad_eof))
        g.valid("returns_the_type_of_the_last_line", list(s.pc), tm.eq(ex.coerce(s.ret, "I"), i))
        g.valid("m_line_type_is_that_type", list(s.pc), tm.eq(fld(ex, s, "m_line_type", "I"), i))
        g.valid("EMPTY_returned_only_when_allowed", list(s.pc), tm.implies(tm.eq(i, EMPTY), AE))
        bad_kw = tm.and_(tm.eq(i, KEYWORD), tm.not_(AK))
        for hy, b in cases(list(s.pc), bad_kw):
            if b:
                g.add("keyword_where_data_were_expected.reported_once_and_counted_once", DISCHARGED if len(errs) == 1 and len(incs) == 1 else FAILED, "trace", "%d messages, %d counts" % (len(errs), len(incs)))
            else:
                g.add("otherwise.no_error_reported_or_counted", DISCHARGED if not errs and not incs else FAILED, "trace", "%d messages, %d counts" % (len(errs), len(incs)))
    g.flush()
    r.add("reach.iterations_stop_return", DISCHARGED if n["it"] >= 2 and n["thr"] and n["ret"] >= 2 else UNDECIDED, "symex", 0, repr(n), kind="vacuity")
    r.assumptions += ["behind the loop i is arbitrary except that the loop condition is false", "error_msg(.., OT_STOP) does not return", "echo of the line (echo_stream / echo_file switches) is not under this contract"]
    _core.PENDING.heads = []
    return r


GO_KW = {"param_types": ["const std::vector<std::string> &", "std::istream::pos_type &"]}


def unit_cparser_get_option(twin=False):
    """CParser::get_option(opt_list, next_pos) (the form every *_raw reader uses): EOF -> OPT_EOF, keyword -> OPT_KEYWORD; a -letter line:
    the text behind the dash matched by prefix: found -> its index, the abbreviation written out in both line texts, next_pos behind the option;
    not found -> OPT_ERROR; any other line: first token matched exactly: found -> index, next_pos behind it; else OPT_DEFAULT with the token
    stream put back to where it was."""
    q = "CParser::get_option"
    sm, c = line_ctx(functional=("tellg",))
    c.log_stores = True
    ev2 = A.enum_values_compiled("Parser.h", ["CParser::OPT_DEFAULT", "CParser::OPT_ERROR", "CParser::OPT_KEYWORD", "CParser::OPT_EOF", "CParser::FT_OK", "CParser::FT_ERROR"])
    c.enum_values.update({k.split("::")[-1]: v for k, v in ev2.items()})
    fn, ex, fin, info = U.run_function(PAR, q, ctx=c, find_kw=GO_KW)
    r = U.new_unit("C08.CParser.get_option.every_kind_of_line_has_its_documented_result", PAR, q, fn)
    g = Agg(r)
    nm = lambda e: e.name.split("::")[-1]
    E = c.enum_values
    EOF_, KEYWORD, OPTION = tm.num(E["LT_EOF"], "I"), tm.num(E["LT_KEYWORD"], "I"), tm.num(E["LT_OPTION"], "I")
    O = {k.split("::")[-1]: v for k, v in ev2.items()}
    def val(t):
        t = ex.coerce(t, "I")
        if t.op == "sym" and str(t.args[0]).startswith("E.") and t.args[0][2:] in O:
            return tm.num(O[t.args[0][2:]], "I")
        return t
    n = {"eof": 0, "key": 0, "opt_ok": 0, "opt_bad": 0, "tok_ok": 0, "tok_def": 0}
    for s in fin:
        if s.status != "ret" or not feasible(s):
            continue
        cl = [e for e in s.events if nm(e) == "check_line"]
        if len(cl) != 1:
            g.add("one_line_is_read", FAILED, "trace", str(len(cl))); continue
        a = cl[0].args
        okargs = len(a) == 5 and [x for x in a[1:]] == [tm.FALSE, tm.TRUE, tm.TRUE, tm.TRUE]
        g.add("line_read_with(empty_skipped,EOF_allowed,keyword_allowed)", DISCHARGED if okargs else FAILED, "trace", repr(a[1:]))
        j0 = ex.coerce(cl[0].result, "I")
        rv = val(s.ret)
        fo = [e for e in s.events if nm(e) == "find_option"]
        reps = [e for e in s.events if nm(e) == "replace"]
        kinds = [("eof", tm.eq(j0, EOF_)), ("key", tm.eq(j0, KEYWORD)), ("opt", tm.eq(j0, OPTION)),
                 ("tok", tm.and_(tm.not_(tm.eq(j0, EOF_)), tm.not_(tm.eq(j0, KEYWORD)), tm.not_(tm.eq(j0, OPTION))))]
        for kind, cond in kinds:
            hy = list(s.pc) + [cond]
            if B.z3_sat(hy) == "unsat":
                continue
            if kind in ("eof", "key"):
                n[kind] += 1
                want = O["OPT_EOF"] if kind == "eof" else (O["OPT_KEYWORD"] if not twin else O["OPT_DEFAULT"])
                g.valid("%s.result" % {"eof": "end_of_input.OPT_EOF", "key": "keyword.OPT_KEYWORD"}[kind], hy, tm.eq(rv, tm.num(want, "I")))
                g.add("%s.line_texts_untouched" % kind, DISCHARGED if not reps and not fo else FAILED, "trace")
                continue
            if len(fo) != 1:
                g.add("%s.one_look-up_in_the_option_list" % kind, FAILED, "trace", str(len(fo))); continue
            exact = fo[0].args[-1]
            g.add("%s.matched_%s" % (kind, "by_prefix" if kind == "opt" else "exactly"), DISCHARGED if exact is (tm.FALSE if kind == "opt" else tm.TRUE) else FAILED, "trace", repr(exact))
            g.add("%s.searched_in_the_callers_list" % kind, DISCHARGED if fo[0].args[2] is tm.sym("P0_opt_list", "P") else FAILED, "trace")
            if kind == "opt":
                g.add("opt.the_text_behind_the_dash_is_matched", DISCHARGED if "substr" in repr(fo[0].args[0]) and ", 1" in repr(fo[0].args[0]) else FAILED, "trace", repr(fo[0].args[0])[:80])
            found = tm.eq(val(fo[0].result), tm.num(O["FT_OK"], "I"))
            for hy2, f in cases(hy, found):
                if f:
                    n["opt_ok" if kind == "opt" else "tok_ok"] += 1
                    optv = tm.select(ex.heap_arr(s, ("m", "I")), fo[0].args[1], I0)
                    g.valid("%s.found.result_is_the_index_found" % kind, hy2, tm.eq(rv, optv))
                    if kind == "opt":
                        dests = [repr(e.recv) for e in reps]
                        ok = len(reps) == 2 and any("m_line_save" in d for d in dests) and any("m_line(" in d or d.endswith("m_line(this)") for d in dests)
                        g.add("opt.found.abbreviation_written_out_in_both_line_texts", DISCHARGED if ok else FAILED, "trace", repr(dests)[:120])
                        rs = [e for e in s.events if nm(e) in ("str", "seekg") and "m_line_iss" in repr(e.recv)]
                        g.add("opt.found.token_stream_restarted_on_the_rewritten_line", DISCHARGED if rs and reps and s.events.index(rs[0]) > s.events.index(reps[-1]) else FAILED, "trace")
                    else:
                        g.add("tok.found.line_not_rewritten", DISCHARGED if not reps else FAILED, "trace")
                else:
                    n["opt_bad" if kind == "opt" else "tok_def"] += 1
                    g.valid("%s.not_found.result" % kind, hy2, tm.eq(rv, tm.num(O["OPT_ERROR"] if kind == "opt" else O["OPT_DEFAULT"], "I")))
                    g.add("%s.not_found.line_not_rewritten" % kind, DISCHARGED if not reps else FAILED, "trace")
                    if kind == "tok":
                        sk = [e for e in s.events if nm(e) == "seekg" and "m_line_iss" in repr(e.recv)]
                        g.add("tok.not_found.token_stream_put_back", DISCHARGED if sk else FAILED, "trace")
    g.flush()
    r.add("reach.all_kinds_of_line", DISCHARGED if all(n.values()) else UNDECIDED, "symex", 0, repr(n), kind="vacuity")
    r.assumptions += ["an LT_OPTION line has a first token longer than one character (C08.PHRQ_io.get_line.*: LT_OPTION_only_for_a_token_longer_than_one_character), so option.substr(1) and the find()/replace() of the token in both line texts cannot throw - not re-proved here",
                      "find_option(const std::string&, ..) as the C form (C08.find_option.*)"]
    return r


def unit_get_rest_of_line(twin=False):
    """CParser::get_rest_of_line(token): every character the token stream still holds is appended once, in order, until the stream is
    exhausted; the result is trimmed and classified by token_type"""
    q = "CParser::get_rest_of_line"
    sm, c = line_ctx(functional=("token_type",))
    gh = getc_handler(None)
    for nm_ in ("std::basic_istream<char>::get", "std::basic_istringstream<char>::get", "get"):
        c.handlers[nm_] = gh
    c.handlers["eof"] = lambda ex, st, n, name, recv, args: [(st, tm.num(-1, "I"))] if recv is None else None
    fn, ex, fin, info = run_with_exit_states(PAR, q, c)
    r = U.new_unit("C08.CParser.get_rest_of_line.rest_of_the_line_character_by_character", PAR, q, fn)
    g = Agg(r)
    nm = lambda e: e.name.split("::")[-1]
    n = {"it": 0, "ret": 0}
    for s in info["iter"].get(0, []):
        if not feasible(s):
            continue
        n["it"] += 1
        gt = [e for e in since(s, 0) if e.name == "getc"]
        ap = [e for e in since(s, 0) if e.name == "str.append"]
        ok = len(gt) == 1 and len(ap) == 1 and s.status in ("run", "cont")
        g.add("loop.one_character_read_and_appended_once", DISCHARGED if ok else FAILED, "trace", "%d/%d %s" % (len(gt), len(ap), s.status))
        if ok:
            g.valid("loop.the_character_appended_is_the_one_read", list(s.pc), tm.eq(ex.coerce(ap[0].args[0], "I"), gt[0].result) if not twin else tm.eq(ex.coerce(ap[0].args[0], "I"), I0))
            g.valid("loop.runs_only_while_the_stream_has_characters", list(s.pc), tm.not_(tm.eq(gt[0].result, tm.num(-1, "I"))))
    for s in info["entry"].get(0, []):
        cl = [e for e in s.events if e.name == "str.clear"]
        g.add("entry.token_emptied_first", DISCHARGED if cl else FAILED, "trace")
    for s in fin:
        if s.status != "ret" or not feasible(s):
            continue
        n["ret"] += 1
        tt = [e for e in s.events if nm(e) == "token_type"]
        tr = [e for e in s.events if nm(e) == "trim"]
        g.add("result.trimmed_then_classified", DISCHARGED if tt and tr and s.events.index(tr[-1]) < s.events.index(tt[-1]) and s.ret is tt[-1].result else FAILED, "trace")
        gt = [e for e in s.events if e.name == "getc"]
        g.add("result.only_after_the_stream_is_exhausted", DISCHARGED if gt and B.z3_prove(list(s.pc), tm.eq(gt[-1].result, tm.num(-1, "I")))[0] == "proved" else FAILED, "z3")
    g.flush()
    r.add("reach.iteration_and_return", DISCHARGED if all(n.values()) else UNDECIDED, "symex", 0, repr(n), kind="vacuity")
    r.assumptions += ["istringstream::get() yields EOF or one character", "trim() and token_type() not under this contract"]
    _core.PENDING.heads = []
    return r


def unit_cparser_get_line(twin=False):
    """CParser::get_line() (stream-owning form): the sibling of PHRQ_io::get_line without include files.  Never returns LT_EMPTY; at the end of
    the stream: an I/O failure (not eof()) is reported with OT_STOP, a true end returns LT_EOF with m_line emptied and m_next_keyword = KEY_END;
    a line is classified exactly as PHRQ_io::get_line does."""
    q = "CParser::get_line"
    sm, c = line_ctx(functional=("get_logical_line", "check_key", "eof", "get_line_phrq_io"))
    c.handlers["CParser::copy_token"] = havoc_string_arg(0)
    c.handlers["copy_token"] = havoc_string_arg(0)
    E = c.enum_values
    LT = {k: tm.num(E[k], "I") for k in ("LT_EOF", "LT_OK", "LT_EMPTY", "LT_KEYWORD", "LT_OPTION")}
    fn0 = A.find_function(PAR, q)
    loops = [x for x in A.walk(fn0) if x.get("kind") in ("ForStmt", "WhileStmt", "DoStmt")]
    def nested_in(a, b):
        return a is not b and any(y is a for y in A.walk(b))
    outer = [k for k, lp in enumerate(loops) if not any(nested_in(lp, o) for o in loops)]
    if len(outer) != 1:
        raise Undecided("expected one outermost loop in CParser::get_line")
    LINES = outer[0]
    def exit_inv(ex_, h, o, info_):
        if o == LINES:
            rv = h.locals.get(info_["names"]["return_value"])
            h.assume(tm.or_(tm.eq(rv, LT["LT_EMPTY"]), tm.eq(rv, LT["LT_OK"])))
    fn, ex, fin, info = run_with_exit_states(PAR, q, c, exit_inv=exit_inv)
    r = U.new_unit("C08.CParser.get_line.what_is_returned_for_every_line", PAR, q, fn)
    g = Agg(r)
    nm = lambda e: e.name.split("::")[-1]
    n = {"it": 0, "eof": 0, "ioerr": 0, "ret": 0, "io": 0}
    for s in info["iter"].get(LINES, []):
        if not feasible(s):
            continue
        evs = since(s, 0)
        gl = [e for e in evs if nm(e) == "get_logical_line"]
        if len(gl) != 1:
            g.add("lines.one_logical_line_is_read_per_iteration", FAILED, "trace", repr([nm(e) for e in evs])[:120]); continue
        for hy, eof in cases(list(s.pc), tm.eq(ex.coerce(gl[0].result, "I"), LT["LT_EOF"])):
            if eof:
                ef = [e for e in evs if nm(e) == "eof"]
                if not ef:
                    g.add("end_of_stream.stream_state_consulted", FAILED, "trace"); continue
                for hy2, true_end in cases(hy, tm.to_bool(ef[0].result)):
                    if true_end:
                        n["eof"] += 1
                        g.add("end_of_stream.returns_LT_EOF", DISCHARGED if s.status == "ret" and B.z3_prove(hy2, tm.eq(ex.coerce(s.ret, "I"), LT["LT_EOF"]))[0] == "proved" and not twin else FAILED, "z3", s.status)
                        kw = tm.select(ex.heap_arr(s, ("f", "m_next_keyword", "I")), THIS)
                        g.add("end_of_stream.next_keyword_is_KEY_END", DISCHARGED if "KEY_END" in repr(kw) else FAILED, "symex", repr(kw)[:60])
                        g.valid("end_of_stream.m_line_emptied", hy2 + len_axioms([slen(tm.select(ex.heap_arr(s, ("f", "m_line", "S")), THIS))]), tm.eq(slen(tm.select(ex.heap_arr(s, ("f", "m_line", "S")), THIS)), I0))
                    else:
                        n["ioerr"] += 1
                        g.add("read_failure.reported_with_STOP", DISCHARGED if s.status == "throw" and [e for e in evs if nm(e) == "error_msg"] else FAILED, "trace", s.status)
            else:
                n["it"] += 1
                if s.status in ("run", "cont"):
                    rv = local(info, s, "return_value")
                    g.valid("lines.invariant(return_value_is_EMPTY_or_OK)", hy, tm.or_(tm.eq(rv, LT["LT_EMPTY"]), tm.eq(rv, LT["LT_OK"])), kind="inductive")
                else:
                    g.add("lines.a_line_that_was_read_does_not_end_the_loop_by_itself", FAILED, "trace", s.status)
    for s in fin:
        if s.status != "ret" or not feasible(s):
            continue
        pio = [e for e in s.events if nm(e) == "get_line_phrq_io"]
        if pio:
            n["io"] += 1
            g.add("phrq_io_only.delegates_to_the_io_layer", DISCHARGED if s.ret is pio[0].result or ex.coerce(s.ret, "I") is ex.coerce(pio[0].result, "I") else FAILED, "symex")
            continue
        n["ret"] += 1
        rv = ex.coerce(s.ret, "I")
        g.valid("returned_line.is_never_EMPTY_or_EOF", list(s.pc), tm.or_(tm.eq(rv, LT["LT_OK"]), tm.eq(rv, LT["LT_KEYWORD"]), tm.eq(rv, LT["LT_OPTION"])))
        evs = [e for e in s.events]
        k0 = max([i for i, e in enumerate(evs) if e.name == "left_by_break"] or [-1])
        classify_returned_line(g, ex, s, evs[k0 + 1:] if k0 >= 0 else evs, rv, LT, twin)
    g.flush()
    index_obligations(r, list(fin) + [s_ for sts_ in info["iter"].values() for s_ in sts_])
    r.add("reach.cases", DISCHARGED if n["it"] and n["eof"] and n["ioerr"] and n["ret"] >= 2 and n["io"] else UNDECIDED, "symex", 0, repr(n), kind="vacuity")
    r.assumptions += ["get_logical_line(), check_key(), istream::eof() as functions of the state they are called in", "CParser::copy_token fills the string it is given with an arbitrary token",
                      "error_msg(.., OT_STOP) does not return"]
    _core.PENDING.heads = []
    return r


# ---------------------------------------------------------------------------------------------------------------- CParser::copy_token (iterators)
class IterExec(SX.Exec):
    """std::string::iterator values as character addresses: ++ moves by one, < and != compare addresses, * designates the character;
    every character read is an event (named "deref" so that the guard of a short-circuit && is added to its snapshot)"""
    def ev_CXXOperatorCallExpr(self, n, st):
        c = n["inner"][0]
        op = self.callee_name(c)
        args = n["inner"][1:]
        objt = SX.strip_type(self.qt(args[0])) if args else ""
        if "__normal_iterator" not in objt and "::iterator" not in objt:
            return SX.Exec.ev_CXXOperatorCallExpr(self, n, st)
        def val(node, s):
            out = []
            if node.get("valueCategory") == "lvalue":
                for s1, lv in self.lv(node, s):
                    out.append((s1, self.load(s1, lv, "P")))
            else:
                out = self.ev(node, s)
            return out
        if op in ("operator<", "operator!=", "operator==", "operator<=", "operator>", "operator>="):
            out = []
            for s1, a in val(args[0], st):
                for s2, b in val(args[1], s1):
                    r_ = {"operator<": tm.lt(a, b), "operator<=": tm.le(a, b), "operator>": tm.lt(b, a), "operator>=": tm.le(b, a),
                          "operator==": tm.eq(a, b), "operator!=": tm.not_(tm.eq(a, b))}[op]
                    out.append((s2, r_))
            return out
        if op == "operator*":
            out = []
            for s1, a in val(args[0], st):
                ch = tm.select(self.heap_arr(s1, ("m", "I")), a, tm.num(0, "I"))
                e = SX.Event("deref", None, [tm.strc("char"), a, ch, self.heap_arr(s1, ("m", "P"))], tm.num(0, "I"), n)
                e.snap = list(s1.pc)
                s1.events.append(e)
                out.append((s1, a))
            return out
        if op == "operator++" and len(args) == 1:
            out = []
            for s1, lv in self.lv(args[0], st):
                old = self.load(s1, lv, "P")
                new = tm.T("+", (old, tm.num(1, "I")), "P")
                self.store(s1, lv, new, "P")
                out.append((s1, new))
            return out
        if op == "operator=":
            out = []
            for s1, v in val(args[1], st):
                for s2, lv in self.lv(args[0], s1):
                    self.store(s2, lv, v, "P")
                    out.append((s2, v))
            return out
        raise Undecided("iterator operator %s not modelled" % op)


CT_KW = {"param_types": ["std::string &", "std::string::iterator &", "std::string::iterator &"]}


def unit_cparser_copy_token(twin=False):
    """CParser::copy_token(token, begin, end): white space is skipped, then the characters up to the next white space are the token;
    no character at or behind `end` is ever looked at; the token is exactly [first non-space, begin) and begin is left behind it; an empty
    range gives an empty token without any read"""
    q = "CParser::copy_token"
    sm, c = line_ctx(functional=("token_type",))
    c.log_stores = True
    fn, ex, fin, info = run_with_exit_states(PAR, q, c, find_kw=CT_KW, ExecClass=IterExec)
    r = U.new_unit("C08.CParser.copy_token.nothing_at_or_behind_end_is_read", PAR, q, fn)
    g = Agg(r)
    nm = lambda e: e.name.split("::")[-1]
    END = tm.sym("P2_end_ref", "P")
    BEG = tm.sym("P1_begin_ref", "P")
    def end_of(s):
        return tm.select(ex.heap_arr(s, ("m", "P")), END, I0)
    nrd = 0
    allst = list(fin) + [s_ for sts_ in info["iter"].values() for s_ in sts_]
    for s in allst:
        for e in s.events:
            if e.name == "deref" and e.args and e.args[0] is tm.strc("char"):
                if B.z3_sat(list(e.snap)) == "unsat":
                    continue
                nrd += 1
                end_then = tm.select(e.args[3], END, I0)          # the value of `end` when the character was read
                g.valid("every_character_read_lies_in_front_of_end", list(e.snap), tm.lt(e.args[1], end_then) if not twin else tm.lt(tm.T("+", (e.args[1], I1), "P"), end_then), kind="safety")
    n = {"skip": 0, "tok": 0, "empty": 0, "ret": 0}
    for o, sts in sorted(info["iter"].items()):
        for s in sts:
            if not feasible(s) or s.status not in ("run", "cont"):
                continue
            rd = [e for e in since(s) if e.name == "deref" and e.args[0] is tm.strc("char")]
            if not rd:
                g.add("loops.the_character_stepped_over_was_looked_at", FAILED, "trace"); continue
            ch = rd[-1].args[2]
            isp = tm.or_(tm.and_(tm.le(tm.num(9, "I"), ch), tm.le(ch, tm.num(13, "I"))), tm.eq(ch, tm.num(32, "I")))
            # which loop: the one that moves the caller's `begin` collects the token, the one that moves the local skips white space
            moves_begin = "P1_begin_ref" in repr(rd[-1].args[1])          # the character looked at is the one the caller's `begin` designates
            if moves_begin:
                n["tok"] += 1
                g.valid("token_loop.steps_over_characters_that_are_not_white_space", list(s.pc), tm.not_(isp))
            else:
                n["skip"] += 1
                g.valid("skip_loop.steps_over_white_space_only", list(s.pc), isp)
    for s in fin:
        if s.status != "ret" or not feasible(s):
            continue
        n["ret"] += 1
        tt = [e for e in s.events if nm(e) == "token_type"]
        g.add("result_is_the_class_of_the_token", DISCHARGED if tt and s.ret is tt[-1].result else FAILED, "trace")
        asg = [e for e in s.events if nm(e) == "assign"]
        rsz = [e for e in s.events if nm(e) == "resize"]
        rd = [e for e in s.events if e.name == "deref" and e.args[0] is tm.strc("char")]
        if asg:
            bnow = tm.select(ex.heap_arr(s, ("m", "P")), BEG, I0)
            ok = len(asg) == 1 and asg[0].args[1] is bnow and asg[0].args[0] is local(info, s, "b")
            g.add("token_is_[first_character_that_is_not_white_space, begin)", DISCHARGED if ok else FAILED, "trace", repr(asg[0].args)[:120])
        elif rsz:
            n["empty"] += 1
            g.add("empty_range.empty_token_and_nothing_read", DISCHARGED if not rd and tm.isnum(ex.coerce(rsz[0].args[0], "I")) and int(ex.coerce(rsz[0].args[0], "I").args[0]) == 0 else FAILED, "trace")
        else:
            g.add("token_is_set_on_every_path", FAILED, "trace")
    g.flush()
    r.add("reach.reads_steps_returns", DISCHARGED if nrd >= 2 and n["skip"] and n["tok"] and n["empty"] and n["ret"] >= 2 else UNDECIDED, "symex", 0, "%d reads %r" % (nrd, n), kind="vacuity")
    r.assumptions += ["std::string::iterator is a character address (libstdc++ __normal_iterator<char*>)", "C-locale isspace", "token.assign(first, last) copies [first, last)",
                      "begin <= end on entry (callers pass begin() / a position inside the line and end())"]
    _core.PENDING.heads = []
    return r
