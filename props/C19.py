"""C19 — gas equation of state (partial).  Iteration / statement contracts on both calc_PR functions
(gases.cpp and prep.cpp): per-gas Peng-Robinson parameters a, b, alpha(T); mole fractions; P(V_m);
partial pressure = x*P; ln(phi) formula with its clamp; pr_si_f.  Root selection, fixed-pressure
existence and solver coupling are NOT decided."""
import time
from fractions import Fraction as F
from vf import core
from vf.core import Undecided, FAILED, DISCHARGED, UNDECIDED
from vf.astvc import ast as A, terms as tm, unit as U, backends as B, hdr
from vf.astvc import symex as SX

PID = "C19"
THIS = tm.sym("this", "P")
VARIANTS = {"gases": ("src/phreeqcpp/gases.cpp", {"nparams": 0}, {0: "iter", 1: "iter", 4: "iter", 6: "iter"}, (0, 1, 4, 6)),
            "prep": ("src/phreeqcpp/prep.cpp", {"nparams": 4}, None, None)}
OMEGA_A, OMEGA_B = F("0.45723553"), F("0.07779607")        # Peng-Robinson constants (literature)
SQRT2 = 1.4142135623730951


def error_stop(ex_, st, n, name, recv, args):
    if len(args) >= 2 and (args[1] is tm.TRUE or (tm.isnum(args[1]) and args[1].args[0] != 0)):
        st.events.append(SX.Event(name, recv, args, tm.num(0, "I"), n))
        st.status = "throw"
        return [(st, tm.num(0, "I"))]
    return None


def base_array(st, key, ex):
    a = st.heap.get(key)
    if a is None:
        return ex.heap_arr(st, key)
    stop = getattr(st, "iter_entry_arrays", {}).get(key, ())
    while a.op == "store" and a not in stop:
        a = a.args[0]
    return a


def mk_ctx():
    from vf.astvc import stl as STLM
    ctx = SX.Ctx(); ctx.stl = STLM.STL(SX); ctx.stl.check_bounds = False
    ctx.enum_values.update(A.enum_values_compiled("Phreeqc.h", ["TRUE", "FALSE", "OK", "STOP", "REACTION"]))
    ctx.handlers["Phreeqc::error_msg"] = error_stop
    ctx.pure.update({"Get_volume", "Get_type", "Get_total_p", "Get_gas_phase_ptr", "calc_gas_binary_parameter", "acos", "cos", "f_Vm", "halve"})
    return ctx


def top_level_loop(rel, find_kw, k):
    fnp = A.find_function(rel, "Phreeqc::calc_PR", **find_kw)
    loops = [x for x in A.walk(fnp) if x.get("kind") in ("ForStmt", "WhileStmt", "DoStmt")]
    top = [c for c in A.body_of(fnp)["inner"] if c.get("kind") == "ForStmt"]
    ids = {x.get("id"): i for i, x in enumerate(loops)}
    return ids[top[k]["id"]]


def last_top_level_loop(rel, find_kw):
    fnp = A.find_function(rel, "Phreeqc::calc_PR", **find_kw)
    loops = [x for x in A.walk(fnp) if x.get("kind") in ("ForStmt", "WhileStmt", "DoStmt")]
    top = [c for c in A.body_of(fnp)["inner"] if c.get("kind") == "ForStmt"]
    ids = {x.get("id"): i for i, x in enumerate(loops)}
    return ids[top[-1]["id"]]


def run_variant(which):
    rel, find_kw, modes, _ = VARIANTS[which]
    ctx = mk_ctx()
    fnp = A.find_function(rel, "Phreeqc::calc_PR", **find_kw)
    loops = [x for x in A.walk(fnp) if x.get("kind") in ("ForStmt", "WhileStmt", "DoStmt")]
    if modes is None:
        # prep.cpp variant: the per-gas loops are the top-level for statements of the body
        modes = {}
        top = [c for c in A.body_of(fnp)["inner"] if c.get("kind") == "ForStmt"]
        ids = {x.get("id"): i for i, x in enumerate(loops)}
        for c in top:
            modes[ids[c["id"]]] = "iter"
        for i, x in enumerate(loops):
            if x.get("kind") == "WhileStmt" and "P" in str(x["inner"][0])[:400] and i not in modes:
                pass
    fn, ex, finals, info = U.run_function(rel, "Phreeqc::calc_PR", modes=modes, ctx=ctx, find_kw=find_kw)
    info["modes"] = modes
    return fn, ex, finals, info


def alpha_spec(T, tc, om, twin=False):
    kk = tm.Q("0.37464") + tm.Q("1.54226") * om - tm.Q("0.26992") * om * om
    one = tm.num(1)
    x = one + kk * (one - tm.app("sqrt", (T / tc,), "R"))
    return x * x if not twin else x * x * x


def unit_params(which, twin=False):
    """first per-gas loop: representation invariant INV(g): pr_a != 0 => pr_a = Oa R^2 Tc^2/Pc, pr_b = Ob R Tc/Pc,
    pr_alpha = alpha(pr_tk).  Post of one iteration (INV assumed before): INV holds and pr_tk = TK, i.e. alpha is
    the alpha of the *current* temperature."""
    rel, find_kw = VARIANTS[which][0], VARIANTS[which][1]
    fn, ex, iters, info = U.run_loop_isolated(rel, "Phreeqc::calc_PR", top_level_loop(rel, find_kw, 0), ctx=mk_ctx(), find_kw=find_kw)
    r = U.new_unit("C19.calc_PR[%s].per_gas_parameters" % which, rel, "Phreeqc::calc_PR", fn)
    R = U.local_of(info, iters[0], "R") if iters else None
    Rv = hdr.define_value("src/phreeqcpp/global_structures.h", "R_LITER_ATM")
    r.add("const.R_LITER_ATM~0.082057(rel 1e-4)", DISCHARGED if abs(Rv - F("0.0820574")) / F("0.0820574") < F(1, 10000) else FAILED, "exact-rational", 0, str(float(Rv)), kind="const")
    n = 0
    for s in iters:
        if s.status not in ("run", "cont", "brk"):
            continue
        try:
            ph = U.local_of(info, s, "phase_ptr")
        except Exception:
            continue
        writes = U.iter_writes(s)
        if not writes and s.status == "cont":
            continue       # gas skipped (zero moles)
        TK = U.local_of(info, s, "TK")
        pre = lambda f: tm.select(base_array(s, ("f", f, "R"), ex), ph)
        post = lambda f: tm.select(s.heap[("f", f, "R")], ph) if ("f", f, "R") in s.heap else pre(f)
        tc, pc, om = pre("t_c"), pre("p_c"), pre("omega")
        R = U.local_of(info, s, "R")
        a_spec = tm.num(F("0.457235")) * R * R * tc * tc / pc
        b_spec = tm.num(F("0.077796")) * R * tc / pc
        inv = [tm.implies(tm.not_(tm.eq(pre("pr_a"), tm.num(0))), tm.and_(tm.eq(pre("pr_a"), a_spec), tm.eq(pre("pr_b"), b_spec),
                                                                          tm.eq(pre("pr_alpha"), alpha_spec(pre("pr_tk"), tc, om))))]
        fresh = B.z3_prove(list(s.pc), tm.eq(pre("pr_a"), tm.num(0)))[0] == "proved"
        stale = (not fresh) and B.z3_prove(list(s.pc), tm.not_(tm.eq(pre("pr_tk"), TK)))[0] == "proved"
        same = (not fresh) and B.z3_prove(list(s.pc), tm.eq(pre("pr_tk"), TK))[0] == "proved"
        tag = "new_gas" if fresh else ("temperature_changed" if stale else ("temperature_unchanged" if same else "path%d" % n))
        n += 1
        U.discharge_valid(r, tag + ".pr_tk'==TK", list(s.pc), tm.eq(post("pr_tk"), TK))
        if fresh:
            U.discharge_eq_real(r, tag + ".pr_a'==0.457235*R^2*Tc^2/Pc", list(s.pc), post("pr_a"), a_spec)
            U.discharge_eq_real(r, tag + ".pr_b'==0.077796*R*Tc/Pc", list(s.pc), post("pr_b"), b_spec)
            U.discharge_eq_real(r, tag + ".pr_alpha'==alpha(TK)", list(s.pc), post("pr_alpha"), alpha_spec(TK, tc, om, twin))
        elif stale:
            ok = post("pr_a") is pre("pr_a") and post("pr_b") is pre("pr_b")
            r.add(tag + ".pr_a,pr_b_unchanged(INV_carries_them)", DISCHARGED if ok else FAILED, "term-inspection", 0, "")
            U.discharge_eq_real(r, tag + ".pr_alpha'==alpha(TK)", list(s.pc), post("pr_alpha"), alpha_spec(TK, tc, om, twin))
        elif same:
            ok = post("pr_a") is pre("pr_a") and post("pr_b") is pre("pr_b") and post("pr_alpha") is pre("pr_alpha")
            r.add(tag + ".nothing_rewritten(INV_and_pr_tk==TK_give_alpha(TK))", DISCHARGED if ok else FAILED, "term-inspection", 0, "")
        else:
            r.add(tag + ".case_of_contract", UNDECIDED, "z3-5.1", 0, "path decides neither new gas / changed / unchanged temperature")
        bad = [(k, i) for (k, i, v) in writes if i[0] is not ph or k[1] not in ("pr_a", "pr_b", "pr_alpha", "pr_tk", "pr_in")]
        r.add(tag + ".frame_only_PR_parameters_of_this_gas", DISCHARGED if not bad else FAILED, "term-inspection", 0, repr(bad)[:200], kind="frame")
    # constants against the literature values at the property's EOS tolerance
    for nm, lit, ideal in (("0.457235", F("0.457235"), OMEGA_A), ("0.077796", F("0.077796"), OMEGA_B)):
        ok = abs(lit - ideal) / ideal < F(1, 10000)
        r.add("const.%s~PengRobinson(rel 1e-4)" % nm, DISCHARGED if ok else FAILED, "exact-rational", 0, "", kind="const")
    r.add("reach.three_cases", DISCHARGED if n >= 3 else UNDECIDED, "symex", 0, "%d iteration paths" % n, kind="vacuity")
    r.assumptions += ["representation invariant INV(g) assumed at loop entry for every gas (established by this same loop on first use; pr_a is zeroed when a phase is created)",
                      "doubles as reals; sqrt uninterpreted; pow(x,2) = x*x"]
    return r


def nearest_literal(term, ideal):
    best = None
    for t in tm.subterms(term):
        if t.op == "num" and t.sort == "R":
            v = float(t.args[0])
            if best is None or abs(v - ideal) < abs(float(best.args[0]) - ideal):
                best = t
    return best


def unit_fugacity(which, twin=False):
    rel, find_kw = VARIANTS[which][0], VARIANTS[which][1]
    fn, ex, iters, info = U.run_loop_isolated(rel, "Phreeqc::calc_PR", last_top_level_loop(rel, find_kw), ctx=mk_ctx(), find_kw=find_kw)
    r = U.new_unit("C19.calc_PR[%s].fugacity_loop" % which, rel, "Phreeqc::calc_PR", fn)
    n0 = n1 = 0
    for s in iters:
        if s.status not in ("run", "cont", "brk"):
            continue
        ph = U.local_of(info, s, "phase_ptr")
        pre = lambda f: tm.select(base_array(s, ("f", f, "R"), ex), ph)
        post = lambda f: tm.select(s.heap[("f", f, "R")], ph) if ("f", f, "R") in s.heap else pre(f)
        x = pre("fraction_x")
        zero = B.z3_prove(list(s.pc), tm.eq(x, tm.num(0)))[0] == "proved"
        if zero:
            n0 += 1
            ok = post("pr_p") is tm.num(0) and post("pr_phi") is tm.num(1) and post("pr_si_f") is tm.num(0)
            r.add("absent_gas.p=0,phi=1,si_f=0", DISCHARGED if ok else FAILED, "term-inspection", 0, "%r %r %r" % (post("pr_p"), post("pr_phi"), post("pr_si_f")))
            continue
        if ("f", "pr_phi", "R") not in s.heap or s.heap[("f", "pr_phi", "R")].op != "store":
            continue
        P, Vm = U.local_of(info, s, "P"), U.local_of(info, s, "V_m")
        RT = tm.select(ex.heap_arr(s, ("f", "R_TK", "R")), THIS)
        b_sum = tm.select(ex.heap_arr(s, ("f", "b_sum", "R")), THIS)
        a_sum = tm.select(ex.heap_arr(s, ("f", "a_aa_sum", "R")), THIS)
        ln10 = tm.select(ex.heap_arr(s, ("f", "LOG_10", "R")), THIS)
        z = P * Vm / RT
        Aa = a_sum * P / (RT * RT)
        Bb = b_sum * P / RT
        Br = pre("pr_b") / b_sum
        above = B.z3_prove(list(s.pc), tm.lt(Bb, z))[0] == "proved"
        tag = ("z>B" if above else "z<=B") + ("#%d" % n1 if n1 > 1 else "")
        n1 += 1
        U.discharge_eq_real(r, tag + ".pr_p==x*P", list(s.pc), post("pr_p"), x * P if not twin else x * P * P)
        phi_t = post("pr_phi")
        if not (phi_t.op == "app" and phi_t.args[0] == "exp"):
            r.add(tag + ".pr_phi==exp(ln_phi)", FAILED, "term-inspection", 0, repr(phi_t)[:120]); continue
        lnphi = phi_t.args[1]
        r.add(tag + ".pr_phi==exp(ln_phi)", DISCHARGED, "term-inspection", 0, "")
        U.discharge_eq_real(r, tag + ".pr_si_f==ln_phi/ln10", list(s.pc), post("pr_si_f"), lnphi / ln10)
        if not above:
            r.add(tag + ".ln_phi==-4.6", DISCHARGED if lnphi is tm.Q("-4.6") else FAILED, "term-inspection", 0, repr(lnphi)[:80]); continue
        # clamp shape: ite(4.44 < raw, 4.44, ite(raw < -4.6, -4.6, raw))
        raw = None
        if lnphi.op == "ite" and lnphi.args[2].op == "ite":
            raw = lnphi.args[2].args[2]
        if raw is None:
            r.add(tag + ".ln_phi_is_clamped_raw", UNDECIDED, "term-inspection", 0, "clamp shape not recognised"); continue
        rs = tm.sym("raw_ln_phi", "R")
        clamp = tm.ite(tm.lt(tm.Q("4.44"), rs), tm.Q("4.44"), tm.ite(tm.lt(rs, tm.Q("-4.6")), tm.Q("-4.6"), rs))
        U.discharge_valid(r, tag + ".ln_phi==clamp(raw,-4.6,4.44)", [], tm.eq(tm.substitute(lnphi, {raw: rs}), clamp))
        # literals approximate 2*sqrt2, 1+sqrt2, sqrt2-1 (1e-6) and the identity with them
        lits = {}
        for nm, ideal in (("2*sqrt2", 2 * SQRT2), ("1+sqrt2", 1 + SQRT2), ("sqrt2-1", SQRT2 - 1)):
            t = nearest_literal(raw, ideal)
            ok = t is not None and abs(float(t.args[0]) - ideal) / ideal < 1e-6
            r.add(tag + ".literal~%s(rel 1e-6)" % nm, DISCHARGED if ok else FAILED, "interval", 0, "literal %s" % (float(t.args[0]) if t is not None else None), kind="const")
            lits[nm] = t if t is not None else tm.num(F(repr(ideal)))
        log = lambda u: tm.app("log", (u,), "R")
        aij = pre("pr_aa_sum2")
        spec = (Br * (z - tm.num(1)) - log(z - Bb)
                + Aa / (lits["2*sqrt2"] * Bb) * (Br - tm.num(2) * aij / a_sum) * log((z + lits["1+sqrt2"] * Bb) / (z - lits["sqrt2-1"] * Bb)))
        U.discharge_eq_real(r, tag + ".raw_ln_phi==PengRobinson_fugacity_equation", list(s.pc), raw, spec)
        writes = U.iter_writes(s)
        bad = [(k, i) for (k, i, v) in writes if i[0] is not ph or k[1] not in ("pr_p", "pr_phi", "pr_si_f", "pr_in", "lk", "logk") and k[0] == "f"]
        bad = [b for b in bad if b[0][0] == "f"]
        r.add(tag + ".frame_only_results_of_this_gas", DISCHARGED if not bad else FAILED, "term-inspection", 0, repr(bad)[:200], kind="frame")
    r.add("reach.absent_and_present_gas_paths", DISCHARGED if n0 >= 1 and n1 >= 2 else UNDECIDED, "symex", 0, "absent=%d present=%d" % (n0, n1), kind="vacuity")
    r.assumptions += ["b_sum, a_aa_sum, pr_aa_sum2, P, V_m are whatever the preceding code left (their own contracts: mixing sums not under contract)",
                      "log/exp uninterpreted; doubles as reals"]
    return r


def unit_fraction(which, twin=False):
    rel, find_kw = VARIANTS[which][0], VARIANTS[which][1]
    fn, ex, iters, info = U.run_loop_isolated(rel, "Phreeqc::calc_PR", top_level_loop(rel, find_kw, 1), ctx=mk_ctx(), find_kw=find_kw)
    r = U.new_unit("C19.calc_PR[%s].mole_fractions" % which, rel, "Phreeqc::calc_PR", fn)
    n = 0
    for s in iters:
        if s.status not in ("run", "cont", "brk"):
            continue
        key = ("f", "fraction_x", "R")
        if key not in s.heap or s.heap[key].op != "store":
            continue
        ph = U.local_of(info, s, "phase_ptr")
        m_sum = U.local_of(info, s, "m_sum")
        val = tm.select(s.heap[key], ph)
        n += 1
        if which == "gases":
            un = None
            # moles of gas i: gas_unknowns[i]->moles
            for t in tm.subterms(val):
                if t.op == "select" and t.args[0].op == "sym" and ".moles:" in t.args[0].args[0]:
                    un = t
            spec = (un / m_sum) if un is not None else None
        else:
            single = B.z3_prove(list(s.pc), tm.eq(U.local_of(info, s, "n_g"), tm.num(1, "I")))[0] == "proved"
            mol = tm.select(ex.heap_arr(s, ("f", "moles_x", "R")), ph)
            spec = tm.num(1) if single else mol / m_sum
        if twin and spec is not None:
            spec = spec * spec
        if spec is None:
            r.add("fraction_x==moles/m_sum#%d" % n, FAILED, "term-inspection", 0, repr(val)[:100]); continue
        U.discharge_eq_real(r, "fraction_x==moles_i/sum_moles#%d" % n, list(s.pc), val, spec)
    r.add("reach.paths", DISCHARGED if n >= 1 else UNDECIDED, "symex", 0, "%d" % n, kind="vacuity")
    return r


def unit_pressure(twin=False):
    """gases.cpp: statement contract on the assignment inside `while (P <= 0)`: P = RT/(Vm-b) - a_alpha/(Vm^2 + 2 b Vm - b^2)"""
    rel, find_kw = VARIANTS["gases"][0], VARIANTS["gases"][1]
    fnp = A.find_function(rel, "Phreeqc::calc_PR", **find_kw)
    loops = [x for x in A.walk(fnp) if x.get("kind") in ("ForStmt", "WhileStmt", "DoStmt")]
    wl = [i for i, x in enumerate(loops) if x.get("kind") == "WhileStmt"]
    if not wl:
        raise Undecided("no while loop in calc_PR")
    fn, ex, iters, info = U.run_loop_isolated(rel, "Phreeqc::calc_PR", wl[0], ctx=mk_ctx(), find_kw=find_kw)
    r = U.new_unit("C19.calc_PR[gases].P_of_Vm", rel, "Phreeqc::calc_PR", fn)
    n = 0
    for s in iters:
        if s.status not in ("run", "cont", "brk"):
            continue
        # value of P after the first statement of the body: recover from the path condition / local P
        P = U.local_of(info, s, "P")
        Vm0 = None
        n += 1
        RT = tm.select(ex.heap_arr(s, ("f", "R_TK", "R")), THIS)
        b = tm.select(ex.heap_arr(s, ("f", "b_sum", "R")), THIS)
        a = tm.select(ex.heap_arr(s, ("f", "a_aa_sum", "R")), THIS)
        b2 = tm.select(ex.heap_arr(s, ("f", "b2", "R")), THIS)
        V = tm.sym("iter_V_m", "R")
        spec = RT / (V - b) - a / (V * V + tm.num(2) * b * V - (b2 if not twin else b))
        U.discharge_eq_real(r, "P==RT/(Vm-b)-a_alpha/(Vm^2+2bVm-b^2)#%d" % n, list(s.pc), P, spec)
    r.add("reach.paths", DISCHARGED if n >= 1 else UNDECIDED, "symex", 0, "%d" % n, kind="vacuity")
    r.assumptions.append("b2 = b_sum^2 is the member assigned just before the loop (b2 = b_sum * b_sum)")
    return r


def units(tier):
    us = []
    def wrap(uid, f, *a):
        def g():
            r = f(*a)
            if not any(o.status == FAILED for o in r.obligations):
                U.must_fail_twin(r, "vacuity.must_fail_twin", lambda: f(*a, twin=True))
            return r
        us.append((uid, g))
    for w in ("gases", "prep"):
        wrap("C19.calc_PR[%s].per_gas_parameters" % w, unit_params, w)
        wrap("C19.calc_PR[%s].mole_fractions" % w, unit_fraction, w)
        wrap("C19.calc_PR[%s].fugacity_loop" % w, unit_fugacity, w)
    wrap("C19.calc_PR[gases].P_of_Vm", unit_pressure)
    from props import c19_more as MM
    wrap("C19.gas_binary_parameters.k_ij==k_ji", MM.unit_binary_symmetric)
    for w in ("gases", "prep"):
        wrap("C19.calc_PR[%s].mixing_rule" % w, MM.unit_mixing_rule, w)
    wrap("C19.tidy_gas_phase.partial_pressure_sum_is_per_gas_phase", MM.unit_tidy_gas_phase_pressure_sum)
    from props import c01_init as _IN
    PRM = {"pr_a", "pr_b", "pr_alpha", "pr_tk", "pr_p", "pr_phi", "pr_aa_sum2", "pr_si_f", "pr_in", "t_c", "p_c", "omega", "moles_x", "p_soln_x", "fraction_x"}
    wrap("C19.phase_init.redefined_gas_starts_without_cached_EOS_parameters", lambda twin=False: _IN.unit_record_init("phase_init", "phase", "phase_ptr", twin=twin, relevant=PRM,
         uid="C19.phase_init.redefined_gas_starts_without_cached_EOS_parameters"))
    wrap("C19.calc_gas_pressures.EOS_at_gas_phase_pressure", MM.unit_fixed_pressure_call)
    wrap("C19.calc_gas_binary_parameter.built_in_table_symmetric", MM.unit_builtin_kij_table_symmetric)
    wrap("C19.calc_gas_pressures.fixed_volume_molar_volume_not_clamped_inside_the_pressure_range", MM.unit_fixed_volume_molar_volume)
    wrap("C19.adjust_setup_pure_phases.gas_target_is_logP_plus_log_phi_on_every_path", MM.unit_pp_gas_si)
    return us


def run(tier, seed, only, jobs):
    t0 = time.time()
    U.TIER.update(tier=tier, seed=seed)
    us = units(tier)
    from props.common import ext_units as _ext
    us += _ext("C19")
    if only:
        us = [x for x in us if only in x[0]]
    res = core.run_units(us, jobs=jobs)
    return core.finish(PID, tier, seed, "proof", res, t0,
        checker_cmd="astvc: clang AST of gases.cpp / prep.cpp -> iteration and statement contracts on the loops of both calc_PR functions -> sympy.cancel / z3 5.1",
        trusted_base=["clang 14 AST", "astvc (vf/astvc)", "sympy 1.14", "z3 5.1", "std::vector model"],
        assumptions=["machine doubles treated as mathematical reals", "log/exp/sqrt uninterpreted"],
        explanation="Function-level Peng-Robinson formulas; root selection in the three-root region, fixed-pressure existence and the solver coupling are not decided.")
