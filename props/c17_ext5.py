"""C17 (fifth wave): the typed operand readers of the expression evaluator and the branch conditions of numtostr.

* intexpr / intfactor: the integer value of an operand is the real value rounded to nearest, floor(x + 0.5), for ALL x (closed form of the
  returned term over the one value realexpr / realfactor delivered), one operand read at the caller's position.
* realexpr / strexpr / stringexpr (and realfactor / strfactor over one factor): one expression is evaluated; a value of the other type is a BASIC type error (tmerr) and never returned;
  the value returned is the number / the string of THAT result record.
* numtostr: the notation of the rendering is decided by the integer-valued test ceil(n) == floor(n) of the number itself, for every
  magnitude (no cast to an integer type that overflows): fixed notation without decimals iff integer-valued, exponent notation otherwise; the
  high-precision switch in force (the current selected output's, else the global one) gives at least 12 decimals in exponent notation."""
from props.c17_ext_model import *
from props.c17_ext2_parse import thrower

LINK0 = tm.sym("P0_LINK", "P")
HALF = tm.Q("0.5")


def _one_operand(r, label, s, reader, link=LINK0):
    pe = [e for e in s.events if e.name.split("::")[-1] in PARSERS]
    good = len(pe) == 1 and pe[0].name.endswith("::" + reader) and pe[0].args[0] is link
    ok(r, "%s.exactly_one_operand_read_through_%s_at_the_caller's_position" % (label, reader), good, "%s" % [e.name for e in pe])
    return pe[0] if good else None


def unit_typed_readers(twin=False):
    q = "PBasic::intexpr"
    fn = A.find_function(PB, q)
    r = U.new_unit("C17.intexpr_realexpr_strexpr.integer_value_is_floor(x+0.5)_and_a_value_of_the_other_type_is_a_type_error", PB, q, fn)
    n = 0
    # ---- integer readers
    for name, reader in (("intexpr", "realexpr"), ("intfactor", "realfactor")):
        f, ex, fin, info = run_fn("PBasic::" + name, mkctx())
        lv = alive(fin)
        if not ok(r, "%s.returns_on_every_path" % name, len(lv) >= 1 and all(s.status == "ret" for s in lv), "%s" % [s.status for s in lv]):
            continue
        for s in lv:
            e = _one_operand(r, name, s, reader)
            if e is None:
                continue
            x = e.result
            want = tm.to_int(tm.app("floor", (x + HALF,), "R")) if not (twin and name == "intexpr") else tm.to_int(x)
            U.discharge_valid(r, "%s.value==floor(x+0.5)_for_all_x" % name, hyp(s), tm.eq(s.ret, want))
            ok(r, "%s.no_condition_on_the_value(rounding_applies_to_every_x)" % name, not any(x in set(tm.subterms(c_)) for c_ in s.pc), "%s" % (s.pc,))
            n += 1
    # ---- typed expression readers
    for name, want_string, fieldname, sort in (("realexpr", False, "val", "R"), ("strexpr", True, "sval", "P"), ("stringexpr", True, None, None),
                                               ("realfactor", False, "val", "R"), ("strfactor", True, "sval", "P")):
        c = mkctx(); c.functional.update({"strlen"})
        f, ex, fin, info = run_fn("PBasic::" + name, c)
        lv = alive(fin)
        seen = {True: 0, False: 0}
        for s in lv:
            e = _one_operand(r, name, s, "factor" if name.endswith("factor") else "expr", LINK0 if fieldname else tm.sym("P2_LINK", "P"))
            if e is None:
                continue
            rec = e.result
            isstr = F0("stringval", "B", rec)
            for hy, strcase in cases(hyp(s), isstr):
                right = (strcase == want_string) if not (twin and name == "strexpr") else (strcase != want_string)
                if not right:
                    bad = s.status == "throw" and any(ev.name.split("::")[-1] in ("tmerr", "snerr", "errormsg") for ev in s.events)
                    ok(r, "%s.%s_result_is_a_type_error_not_a_value" % (name, "string" if strcase else "numeric"), bad, "status %s" % s.status)
                    seen[False] += 1
                elif s.status == "ret":
                    seen[True] += 1
                    if fieldname:
                        cur = F(ex, s, fieldname, sort, UUo(rec))
                        U.discharge_valid(r, "%s.returns_the_%s_of_the_result_record" % (name, fieldname), hy, tm.eq(s.ret, cur))
                    else:
                        cp = evs(s, "strcpy")
                        okc = len(cp) == 1 and cp[0].args[0] is tm.sym("P0_Result", "P") and s.ret is tm.sym("P0_Result", "P")
                        ok(r, "stringexpr.copies_the_string_into_Result_and_returns_it", okc, "%s" % cp)
                        if okc:
                            U.discharge_valid(r, "stringexpr.copies_only_a_string_that_fits(strlen+1<=ResultSize)", hy,
                                              tm.le(tm.app("call:strlen", (tm.NULL, cp[0].args[1]), "I") + tm.num(1, "I"), tm.sym("P1_ResultSize", "I")))
        reach(r, "reach.%s(value_path_and_error_path)" % name, min(seen[True], seen[False]), 1)
        n += seen[True]
    reach(r, "reach.readers", n, 7)
    r.assumptions += ["realexpr / realfactor / expr evaluate one operand and return its value (their own contracts: units C17.expr.*, C17.factor.*)", "tmerr / snerr / errormsg do not return (they throw)",
                      "floor is the C library's; the conversion to long of the (integral) floor value is exact within the range of long; doubles as reals", "strlen is a function of its argument"]
    return r


def _fmts(t, hy):
    """formats a rendering can use under the hypotheses: leaves of the ite-tree of the format argument whose guards are not refuted"""
    if t.op == "str":
        return [t.args[0].strip('"')]
    if t.op == "ite":
        out = []
        if not prove(hy, tm.not_(t.args[0])):
            out += _fmts(t.args[1], list(hy) + [t.args[0]])
        if not prove(hy, t.args[0]):
            out += _fmts(t.args[2], list(hy) + [tm.not_(t.args[0])])
        return out
    return [None]


def unit_numtostr_branches(twin=False):
    q = "PBasic::numtostr"
    fn = A.find_function(PB, q)
    r = U.new_unit("C17.numtostr.notation_decided_by_ceil(n)==floor(n)_for_every_magnitude", PB, q, fn)
    c = mkctx(); c.handlers["Phreeqc::malloc_error"] = thrower; c.handlers["exit"] = thrower
    c.functional.add("strlen")
    f, ex, fin, info = run_fn(q, c)
    nv = tm.sym("P1_n", "R")
    isint = tm.eq(tm.app("ceil", (nv,), "R"), tm.app("floor", (nv,), "R"))
    PP = F0("PhreeqcPtr", "P", THIS)
    cso = F0("current_selected_output", "P", PP)
    seen = set()
    for s in alive(fin, ("ret", "run")):
        sp = evs(s, "snprintf")
        if not ok(r, "numtostr.renders_the_number_given", len(sp) >= 1 and all(e.args[3] is nv for e in sp), "%s" % sp):
            continue
        first = sp[0]
        g = [e for e in evs(s, "Get_high_precision") if s.events.index(e) < s.events.index(first)]
        hp_glob = F0("high_precision", "B", PP)
        hp = tm.ite(tm.not_(tm.eq(cso, NULLP)), g[0].result, hp_glob) if g else hp_glob
        if g:
            ok(r, "numtostr.precision_switch_asked_of_the_current_selected_output", g[0].recv is cso or prove(hyp(s), tm.eq(g[0].recv, cso)), "%r" % (g[0].recv,))
        for hy, integer in cases(hyp(s), isint):
            for hy2, high in cases(hy, hp):
                fm = _fmts(first.args[2], hy2)
                pm = [re.match(r"^%(\d*)\.(\d+)([efg])$", x or "") for x in fm]
                if not ok(r, "numtostr.conversion_understood", all(pm) and len(pm) >= 1, "%s" % fm, kind="trace"):
                    continue
                want_kind = "f" if integer else "e"
                if twin:
                    want_kind = "e" if integer else "f"
                lab = "integer_valued" if integer else "fractional"
                ok(r, "numtostr.%s=>%s_notation" % (lab, "fixed" if integer else "exponent"), all(m.group(3) == want_kind for m in pm), "%s" % fm)
                if integer:
                    ok(r, "numtostr.integer_valued=>no_decimals", all(int(m.group(2)) == 0 for m in pm), "%s" % fm)
                elif high:
                    ok(r, "numtostr.fractional_and_high_precision=>at_least_12_decimals", all(int(m.group(2)) >= 12 for m in pm), "%s" % fm)
                else:
                    ok(r, "numtostr.fractional_low_precision=>at_least_4_decimals", all(int(m.group(2)) >= 4 for m in pm), "%s" % fm)
                seen.add((integer, high))
    reach(r, "reach.numtostr(integer/fractional_x_low/high_precision)", len(seen), 4)
    r.assumptions += ["ceil / floor are the C library's (uninterpreted real functions of the number): the test has to be THIS comparison of the number itself, whatever its magnitude; a test through a conversion to an integer type is not equivalent and fails",
                      "the high-precision switch in force is current_selected_output->Get_high_precision() when a selected output is current, else Phreeqc::high_precision",
                      "the re-rendering of a text longer than 255 characters and the buffer capacities: unit C17.numtostr.every_destination_holds...", "allocation failure ends the run (malloc_error)"]
    return r


UNITS = [
    ("C17.intexpr_realexpr_strexpr.integer_value_is_floor(x+0.5)_and_a_value_of_the_other_type_is_a_type_error", unit_typed_readers),
    ("C17.numtostr.notation_decided_by_ceil(n)==floor(n)_for_every_magnitude", unit_numtostr_branches),
]
