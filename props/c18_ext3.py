"""C18 (extension 3): the sign restrictions inside the L1 solver cl1() (cl1.cpp).

INVERSE_MODELING declares `mixing fraction >= 0`, `dissolve only`, `precipitate only`, and every inequality row `E x <= f`, as SIGN RESTRICTIONS of the
simplex variables: variable number v (1..n the unknowns, n+1..n+k+l+m the residuals of the rows) is split into a positive part u_v and a negative part
v_v; the work arrays cu / iu have two rows of cu_dim entries, row 0 for the positive parts and row 1 for the negative parts, entry v-1 for variable v;
iu[part][v-1] == 1 forbids that part (so iu[0][v-1] == 1 means variable v <= 0, iu[1][v-1] == 1 means variable v >= 0).  The tableau carries signed
LABELS: +v when the positive part of v is meant, -v for the negative part.

cl1() is 800 lines of goto-structured code over a union array; it is not proved correct here.  What is under contract (regions / single loop passes
executed from an arbitrary state):
  * set_up: every declared restriction forbids the matching part of ITS OWN variable (x[j] < 0 -> positive part of variable j+1, x[j] > 0 -> negative part,
    the same for the residual restrictions at variable n+j+1, equality rows both parts, inequality rows the negative part), cost and flag at the same index;
  * look_ups: every site that looks up the cost or the flag for a label reads entry |label|-1 of the row that the site's role demands: the label's OWN part
    (marginal costs, phase-2 set-up), BOTH parts (entering variable, Gauss-Jordan column drop, bypass cost), or the OPPOSITE part (the leaving-variable
    test: in phase 2 a basic variable may change sign - its label is negated - only when the part it turns into is not forbidden);
  * final checks: with check == 1 an `optimal` result is downgraded to kode 1 when an equality is off by more than 10 toler or an inequality negative
    beyond it, and the solution is scattered to x / res by label."""
from props.common import *
from props.c01_ext_util import put, valid, proved, I, lives, sat
from vf.core import FAILED, DISCHARGED, UNDECIDED
from vf.astvc import symex as SX

CL1 = "src/phreeqcpp/cl1.cpp"
Q = "Phreeqc::cl1"
ZERO, ONE = tm.num(0, "I"), tm.num(1, "I")


def abs_handler(ex, st, n, name, recv, args):
    x = args[0]
    return [(st, tm.ite(tm.lt(x, tm.num(0, x.sort)), tm.neg(x), x))]


def mkctx(functional=()):
    c = ctx(functional=tuple(functional), pure_all=True)
    c.handlers["abs"] = abs_handler
    c.loop = lambda ex_, st, nd, o: ex_.havoc_loop(nd, st)
    return c


def fn_parts():
    fn = A.find_function(CL1, Q)
    ps = A.params_of(fn)
    if len(ps) != 17:
        raise Undecided("cl1 has %d parameters" % len(ps))
    names = {"x": ps[10]["name"], "res": ps[11]["name"], "cu": ps[13]["name"], "iu": ps[14]["name"], "kode": ps[7]["name"], "toler": ps[8]["name"], "check": ps[16]["name"],
             "k": ps[0]["name"], "l": ps[1]["name"], "m": ps[2]["name"], "n": ps[3]["name"], "nklmd": ps[4]["name"], "n2d": ps[5]["name"]}
    return fn, A.body_of(fn)["inner"], names


def subs_of(node, arr):
    """ArraySubscriptExpr nodes inside `node` whose base is the parameter `arr`"""
    out = []
    for x in A.walk(node):
        if x.get("kind") == "ArraySubscriptExpr":
            b = strip(x["inner"][0])
            if b.get("kind") == "DeclRefExpr" and b.get("referencedDecl", {}).get("name") == arr:
                out.append(x)
    return out


def assigns_elem(node, arr):
    """does `node` contain an assignment whose left side is an element of `arr`?"""
    for x in A.walk(node):
        if x.get("kind") in ("BinaryOperator", "CompoundAssignOperator") and x.get("opcode", "").endswith("=") and x.get("opcode") not in ("==", "!=", "<=", ">="):
            if subs_of(x["inner"][0], arr):
                return True
    return False


def reads_ival(node):
    return any(y.get("kind") == "MemberExpr" and y.get("name") == "ival" for y in A.walk(node))


def has_goto(node):
    return any(y.get("kind") == "GotoStmt" for y in A.walk(node))


def loops_of(fn):
    return [x for x in A.walk(fn) if x.get("kind") in ("ForStmt", "WhileStmt", "DoStmt")]


def ordinal(fn, node):
    for k, lp in enumerate(loops_of(fn)):
        if lp is node:
            return k
    raise Undecided("loop not found")


def elem_reads(s, base, extra_terms=()):
    """index terms of every element of array `base` that the path read: select(mem, (base, idx)) sub-terms of its path condition, its locals and the values it wrote"""
    tops = list(s.pc) + [v for v in s.locals.values() if isinstance(v, tm.T)] + list(extra_terms)
    for key, arr in s.heap.items():
        for ix, v in writes(s, key):
            tops.append(v)
            tops.extend(t for t in ix if isinstance(t, tm.T))
    out = []
    seen = set()
    for t in tops:
        for x in tm.subterms(t):
            if x.op == "select" and len(x.args) == 2 and isinstance(x.args[1], tuple) and len(x.args[1]) == 2 and x.args[1][0] is base and x not in seen:
                seen.add(x); out.append(x)
    return out


def elem_writes(s, base, sort):
    return [(ix[1], v) for ix, v in writes(s, ("m", sort)) if ix[0] is base]


def part(cu_dim, lab, p):
    """index of part p (0 positive, 1 negative) of the variable a label names"""
    a = tm.ite(tm.lt(lab, ZERO), tm.neg(lab), lab)
    return tm.add(tm.mul(tm.num(p, "I"), cu_dim), tm.sub(a, ONE)) if p else tm.sub(a, ONE)


def sign_cases(hy, lab):
    """the two cases of a label (labels are never 0)"""
    out = []
    for c_, neg in ((tm.lt(lab, ZERO), True), (tm.lt(ZERO, lab), False)):
        if sat(list(hy) + [c_]):
            out.append((list(hy) + [c_], neg))
    return out


def all_in(hy, idxs, allowed):
    return all(proved(hy, tm.or_(*[tm.eq(i_, a_) for a_ in allowed])) for i_ in idxs)


def some_is(hy, idxs, want):
    return any(proved(hy, tm.eq(i_, want)) for i_ in idxs)


def label_terms(s):
    """the label(s) a path read from the tableau: select(<ival>, (cell,)) terms"""
    out = []
    for t in list(s.pc) + [v for v in s.locals.values() if isinstance(v, tm.T)]:
        for x in tm.subterms(t):
            if x.op == "select" and x.args[0].op == "sym" and ".ival:" in x.args[0].args[0] and x not in out:
                out.append(x)
    return out


# ------------------------------------------------------------------------------------------------ look-ups
def find_sites(fn, body, nm):
    CU, IU = nm["cu"], nm["iu"]
    loops = loops_of(fn)
    inner = lambda lp: not any(y is not lp and y.get("kind") in ("ForStmt", "WhileStmt", "DoStmt") for y in A.walk(lp))
    sites = {}
    sites["own_cost"] = [lp for lp in loops if inner(lp) and reads_ival(lp) and subs_of(lp, CU) and not subs_of(lp, IU) and not assigns_elem(lp, CU)]
    sites["entering"] = [lp for lp in loops if inner(lp) and subs_of(lp, IU) and not assigns_elem(lp, CU) and not assigns_elem(lp, IU)]
    sites["phase2"] = [lp for lp in loops if inner(lp) and subs_of(lp, IU) and assigns_elem(lp, CU) and reads_ival(lp) and not assigns_elem(lp, IU)]
    sites["setup"] = [lp for lp in loops if inner(lp) and assigns_elem(lp, IU)]
    top_if_iu = [k for k, x in enumerate(body) if x.get("kind") == "IfStmt" and subs_of(x, IU) and not any(y.get("kind") in ("ForStmt",) for y in A.walk(x))]
    leaving = [k for k in top_if_iu if not subs_of(body[k]["inner"][0], IU) and has_goto(body[k])]
    dropcol = [k for k in top_if_iu if subs_of(body[k]["inner"][0], IU) and has_goto(body[k])]
    def back_to_label_read(k):
        j = k - 1
        while j >= 0 and not (body[j].get("kind") == "BinaryOperator" and reads_ival(body[j]["inner"][1]) and strip(body[j]["inner"][0]).get("kind") == "DeclRefExpr"):
            j -= 1
        if j < 0 or k - j > 6:
            raise Undecided("the statement that reads the label was not found before statement %d" % k)
        return j
    sites["leaving"] = []
    for k in leaving:
        j = back_to_label_read(k)
        e = k + 1
        while e < len(body) and e - k <= 4 and not (body[e].get("kind") == "IfStmt" and any(y.get("kind") == "MemberExpr" and y.get("name") == "ival" for y in A.walk(body[e]))):
            e += 1
        if e >= len(body) or e - k > 4:
            raise Undecided("the bypass statement was not found behind the leaving-variable test")
        sites["leaving"].append((j, k, e))
    sites["dropcol"] = [(back_to_label_read(k), k) for k in dropcol]
    return sites


def unit_lookups(twin=False):
    fn, body, nm = fn_parts()
    r = U.new_unit("C18.cl1.restrictions.every_look_up_reads_the_part_and_variable_its_label_names(own,both,opposite_part_by_site)", CL1, Q, fn)
    sites = find_sites(fn, body, nm)
    CU, IU = tm.sym("L_" + nm["cu"], "P"), tm.sym("L_" + nm["iu"], "P")
    cud = tm.sym("L_cu_dim", "I")
    counts = {k: len(v) for k, v in sites.items()}
    put(r, "sites.found(2_own_cost_loops,entering_loop,phase2_loop,leaving_test,column_drop)", counts.get("own_cost") == 2 and counts.get("entering") == 1 and counts.get("phase2") == 1
        and counts.get("leaving") == 1 and counts.get("dropcol") == 1, repr(counts), kind="vacuity", undecided=True)
    # every use of the flag array lies in a site under contract (set-up sites: unit ...set_up...)
    covered = set()
    for lp in sites["entering"] + sites["phase2"] + sites["setup"]:
        covered |= {id(x) for x in subs_of(lp, nm["iu"])}
    for (j, k, e) in sites["leaving"]:
        for st_ in body[j:e + 1]:
            covered |= {id(x) for x in subs_of(st_, nm["iu"])}
    for (j, k) in sites["dropcol"]:
        for st_ in body[j:k + 1]:
            covered |= {id(x) for x in subs_of(st_, nm["iu"])}
    stray = [text_of(CL1, x) for x in subs_of(fn, nm["iu"]) if id(x) not in covered and not _in_call_arg(fn, x)]
    put(r, "sites.every_use_of_the_flag_array_is_inside_a_site_under_contract", not stray, repr(stray)[:300], kind="structural")
    n = 0
    # ---- own part: marginal costs
    for lp in sites["own_cost"]:
        o = ordinal(fn, lp)
        f, ex, its, info = U.run_loop_isolated(CL1, Q, o, ctx=mkctx())
        for s in lives(its, ("run", "cont")):
            labs = label_terms(s)
            reads = [x.args[1][1] for x in elem_reads(s, CU)]
            if len(labs) != 1 or not reads:
                put(r, "marginal_cost.loop%d.one_label_one_cost#%d" % (o, n), False, "%d labels %d reads" % (len(labs), len(reads))); n += 1; continue
            for hy, neg in sign_cases(list(s.pc), labs[0]):
                want = part(cud, labs[0], 1 if neg else 0)
                if twin and neg:
                    want = part(cud, labs[0], 0)
                put(r, "marginal_cost.loop%d.%s_label_takes_the_cost_of_its_own_part_of_its_own_variable#%d" % (o, "negative" if neg else "positive", n), all_in(hy, reads, [want]), repr(reads)[:200]); n += 1
            put(r, "marginal_cost.loop%d.flags_not_consulted#%d" % (o, n), not elem_reads(s, IU), "", kind="frame"); n += 1
    # ---- both parts: entering variable
    for lp in sites["entering"]:
        o = ordinal(fn, lp)
        f, ex, its, info = U.run_loop_isolated(CL1, Q, o, ctx=mkctx())
        memR, memI = entry_arr(ex, its[0], ("m", "R")), entry_arr(ex, its[0], ("m", "I"))
        # the running maximum: the real local the loop assigns AND reads before assigning (its value at the start of the pass occurs in a path condition)
        ids_, _wm = ex.assigned_locals(lp)
        xm = [did for did, (nm_, qq) in ids_.items() if SX.sort_of(qq) == "R" and any(tm.sym("iter_" + str(nm_), "R") in tm.subterms(p_) for s_ in its for p_ in s_.pc)]
        x0 = tm.sym("iter_" + str(ids_[xm[0]][0]), "R") if len(xm) == 1 else None
        for s in lives(its, ("run", "cont")):
            labs = label_terms(s)
            if len(labs) != 1:
                put(r, "entering.one_label_per_column#%d" % n, False, repr(labs)[:200]); n += 1; continue
            lab = labs[0]
            qv = [x for t in list(s.pc) + [v for v in s.locals.values() if isinstance(v, tm.T)] for x in tm.subterms(t) if x.op == "select" and x.args[0].op == "sym" and ".dval:" in x.args[0].args[0]]
            qv = list(dict.fromkeys(qv))
            cur = [x.args[1][1] for x in elem_reads(s, CU)]
            iur = [x.args[1][1] for x in elem_reads(s, IU)]
            for hy, neg in sign_cases(list(s.pc), lab):
                p0, p1 = part(cud, lab, 0), part(cud, lab, 1)
                tag = "negative" if neg else "positive"
                put(r, "entering.%s_label.costs_of_both_parts_of_the_label's_variable#%d" % (tag, n), all_in(hy, cur, [p0, p1]) and some_is(hy, cur, p0) and some_is(hy, cur, p1), repr(cur)[:200]); n += 1
                put(r, "entering.%s_label.flags_of_the_label's_variable_only#%d" % (tag, n), all_in(hy, iur, [p0, p1]), repr(iur)[:200]); n += 1
                if s.status == "cont" or len(qv) != 1 or len(xm) != 1:
                    continue
                c0, c1 = tm.select(memR, CU, p0), tm.select(memR, CU, p1)
                other = tm.sub(tm.sub(tm.neg(qv[0]), c0), c1)
                cand = {0: other if neg else qv[0], 1: qv[0] if neg else other}
                if twin and not neg:
                    cand = {0: cand[1], 1: cand[0]}
                ok0 = tm.not_(tm.eq(tm.select(memI, IU, p0), ONE)); ok1 = tm.not_(tm.eq(tm.select(memI, IU, p1), ONE))
                x1 = tm.ite(tm.and_(ok0, tm.lt(x0, cand[0])), cand[0], x0)
                x2 = tm.ite(tm.and_(ok1, tm.lt(x1, cand[1])), cand[1], x1)
                valid(r, "entering.%s_label.best_gain_is_taken_over_the_parts_that_are_not_forbidden(positive_part_gated_by_flag_row_0,negative_by_row_1)#%d" % (tag, n), hy, tm.eq(s.locals[xm[0]], x2)); n += 1
    # ---- own part: phase-2 set-up
    for lp in sites["phase2"]:
        o = ordinal(fn, lp)
        f, ex, its, info = U.run_loop_isolated(CL1, Q, o, ctx=mkctx())
        memI = entry_arr(ex, its[0], ("m", "I"))
        for s in lives(its, ("run", "cont")):
            labs = label_terms(s)
            if len(labs) != 1:
                put(r, "phase2.one_label_per_row#%d" % n, False, repr(labs)[:200]); n += 1; continue
            lab = labs[0]
            iur = [x.args[1][1] for x in elem_reads(s, IU)]
            cuw = elem_writes(s, CU, "R")
            for hy, neg in sign_cases(list(s.pc), lab):
                own = part(cud, lab, 1 if neg else 0)
                tag = "negative" if neg else "positive"
                put(r, "phase2.%s_label.flag_of_its_own_part#%d" % (tag, n), bool(iur) and all_in(hy, iur, [own]), repr(iur)[:200]); n += 1
                free = tm.eq(tm.select(memI, IU, own), ZERO)
                for hy2, isfree in cases(hy, free):
                    if isfree:
                        put(r, "phase2.%s_label.unrestricted_basic_variable_keeps_its_cost#%d" % (tag, n), not cuw, repr(cuw)[:100], kind="frame"); n += 1
                    else:
                        ok = len(cuw) == 1 and proved(hy2, tm.eq(cuw[0][0], own)) and tm.isnum(cuw[0][1]) and cuw[0][1].args[0] == 0
                        put(r, "phase2.%s_label.restricted_basic_variable_gets_cost_0_at_the_same_entry#%d" % (tag, n), ok, repr(cuw)[:200]); n += 1
    # ---- opposite part: leaving variable / bypass
    for (j, k, e) in sites["leaving"]:
        f, ex, fin, info = region(CL1, Q, body[j:e + 1], mkctx())
        memI = entry_arr(ex, fin[0], ("m", "I"))
        iph = tm.sym("L_iphase", "I")
        nb = nd = 0
        for s in [s_ for s_ in fin if sat(list(s_.pc))]:
            labs = label_terms(s)
            if len(labs) != 1:
                put(r, "leaving.one_label#%d" % n, False, repr(labs)[:200]); n += 1; continue
            lab = labs[0]
            iur = [x.args[1][1] for x in elem_reads(s, IU)]
            cur = [x.args[1][1] for x in elem_reads(s, CU)]
            flips = [(ix, v) for ix, v in writes(s, ("f", "ival", "I"))]
            for hy, neg in sign_cases(list(s.pc), lab):
                opp = part(cud, lab, 0 if neg else 1)
                if twin and neg:
                    opp = part(cud, lab, 1)
                tag = "negative" if neg else "positive"
                put(r, "leaving.%s_label.only_the_flag_of_the_OPPOSITE_part_of_its_variable_is_consulted#%d" % (tag, n), all_in(hy, iur, [opp]), repr(iur)[:200]); n += 1
                forb = tm.eq(tm.select(memI, IU, opp), ONE)
                phase2 = tm.not_(tm.eq(iph, ONE))
                if not cur:
                    nd += 1
                    valid(r, "leaving.%s_label.pivot_without_sign_change_only_in_phase_2_with_the_opposite_part_forbidden#%d" % (tag, n), hy, tm.and_(phase2, forb)); n += 1
                    put(r, "leaving.%s_label.label_kept#%d" % (tag, n), not flips, repr(flips)[:100], kind="frame"); n += 1
                else:
                    valid(r, "leaving.%s_label.sign_change_considered_only_in_phase_1_or_with_the_opposite_part_allowed#%d" % (tag, n), hy, tm.or_(tm.not_(phase2), tm.not_(forb))); n += 1
                    p0, p1 = part(cud, lab, 0), part(cud, lab, 1)
                    put(r, "leaving.%s_label.bypass_cost_is_the_sum_over_both_parts_of_its_variable#%d" % (tag, n), all_in(hy, cur, [p0, p1]) and some_is(hy, cur, p0) and some_is(hy, cur, p1), repr(cur)[:200]); n += 1
                    if flips:
                        nb += 1
                        v_ = flips[0][1]
                        same_cell = v_.op == "neg" and v_.args[0].op == "select" and ".ival:" in repr(v_.args[0].args[0]) and v_.args[0].args[1] == lab.args[1]
                        ok = len(flips) == 1 and flips[0][0][0] is lab.args[1][0] and (same_cell or proved(hy, tm.eq(v_, tm.neg(lab))))
                        put(r, "leaving.%s_label.bypass_negates_the_label_of_the_same_row#%d" % (tag, n), ok, repr(flips)[:200]); n += 1
        put(r, "reach.leaving", nb >= 2 and nd >= 2, "bypass %d direct %d" % (nb, nd), kind="vacuity", undecided=True)
    # ---- both parts: column drop after the pivot
    for (j, k) in sites["dropcol"]:
        f, ex, fin, info = region(CL1, Q, body[j:k + 1], mkctx())
        memI = entry_arr(ex, fin[0], ("m", "I"))
        ng = nf = 0
        for s in [s_ for s_ in fin if sat(list(s_.pc))]:
            labs = [x for x in label_terms(s)]
            lab = s.locals.get(info["names"].get(strip(body[j]["inner"][0])["referencedDecl"]["name"]))
            src = [x for x in tm.subterms(lab) if x.op == "select" and x.args[0].op == "sym" and ".ival:" in x.args[0].args[0]] if isinstance(lab, tm.T) else []
            if len(src) != 1:
                put(r, "column_drop.label_of_the_variable_that_left#%d" % n, False, repr(lab)[:200]); n += 1; continue
            lab = src[0]
            iur = [x.args[1][1] for x in elem_reads(s, IU)]
            for hy, neg in sign_cases(list(s.pc), lab):
                p0, p1 = part(cud, lab, 0), part(cud, lab, 1)
                tag = "negative" if neg else "positive"
                put(r, "column_drop.%s_label.flags_of_both_parts_of_the_variable_that_left#%d" % (tag, n), bool(iur) and all_in(hy, iur, [p0, p1]), repr(iur)[:200]); n += 1
                free = tm.or_(tm.eq(tm.select(memI, IU, p0), ZERO), tm.eq(tm.select(memI, IU, p1), ZERO))
                if str(s.status).startswith("goto"):
                    ng += 1
                    valid(r, "column_drop.%s_label.column_kept_when_a_part_is_free#%d" % (tag, n), hy, free); n += 1
                else:
                    nf += 1
                    valid(r, "column_drop.%s_label.column_dropped_only_when_both_parts_are_forbidden#%d" % (tag, n), hy, tm.not_(free)); n += 1
        put(r, "reach.column_drop", ng >= 2 and nf >= 2, "kept %d dropped %d" % (ng, nf), kind="vacuity", undecided=True)
    r.assumptions += ["labels are never 0 (they are +-(1..n+k+l+m), set by the label loops at the top of cl1 and only negated or swapped afterwards)",
                      "statement / iteration contracts: each site is executed once from an arbitrary state; the simplex algorithm as a whole (pivot choice, termination, optimality) is NOT under contract",
                      "the union cells of q are read as separate int (.ival, labels) and double (.dval, values) components: the code never reads a cell through the other member",
                      "abs(i) = |i|; cu_dim is the row length of cu / iu",
                      "sites are located by what they do (which array they read / write, whether they read a label, whether they jump), not by label names or ordinals"]
    return r


def _in_call_arg(fn, node):
    """is the subscript inside the argument list of a call (memset / memcpy of whole rows)?"""
    for x in A.walk(fn):
        if x.get("kind") == "CallExpr" and any(y is node for y in A.walk(x)):
            return True
    return False



# ------------------------------------------------------------------------------------------------ set-up of the restrictions
def dims(fn, body, nm):
    """the derived dimensions (n1, nk, nkl, klm, klm1, nklm, cu_dim, q_dim ...) in terms of the parameters: the straight-line assignments at the top of cl1,
    each local assigned exactly once in the whole function"""
    first_loop = next(k for k, x in enumerate(body) if x.get("kind") in ("ForStmt", "WhileStmt", "DoStmt"))
    pre = [x for x in body[:first_loop] if x.get("kind") == "BinaryOperator" and x.get("opcode") == "=" and strip(x["inner"][0]).get("kind") == "DeclRefExpr"]
    f, ex, fin, info = region(CL1, Q, pre, mkctx())
    s = fin[0]
    count = {}
    for x in A.walk(fn):
        if x.get("kind") in ("BinaryOperator", "CompoundAssignOperator") and x.get("opcode", "").endswith("=") and x.get("opcode") not in ("==", "!=", "<=", ">="):
            t = strip(x["inner"][0])
            if t.get("kind") == "DeclRefExpr":
                count[t["referencedDecl"]["name"]] = count.get(t["referencedDecl"]["name"], 0) + 1
        if x.get("kind") == "UnaryOperator" and x.get("opcode") in ("++", "--"):
            t = strip(x["inner"][0])
            if t.get("kind") == "DeclRefExpr":
                count[t["referencedDecl"]["name"]] = count.get(t["referencedDecl"]["name"], 0) + 1
    facts = []
    for st_ in pre:
        name = strip(st_["inner"][0])["referencedDecl"]["name"]
        v = s.locals.get(info["names"][name])
        if count.get(name) == 1 and isinstance(v, tm.T) and v.sort == "I" and not any(t.op == "select" for t in tm.subterms(v)):     # pure sums of the parameters only (memory read here is not the memory of a later region)
            facts.append(tm.eq(tm.sym("L_" + name, "I"), v))
    return facts


def iter_in_context(rel, q, stmts, c):
    """run top-level statements from an arbitrary state; every innermost loop met is put under an iteration contract in the context reached"""
    rec = []
    def loop(ex_, st, nd, o):
        if not any(y is not nd and y.get("kind") in ("ForStmt", "WhileStmt", "DoStmt") for y in A.walk(nd)):
            rec.append((nd, st.clone(), ex_.iterate_loop(nd, st.clone())))
        return ex_.havoc_loop(nd, st)
    c.loop = loop
    f, ex, fin, info = region(rel, q, stmts, c)
    return f, ex, fin, info, rec


def induction(lp):
    for x in A.walk(lp["inner"][3]):
        if x.get("kind") == "DeclRefExpr" and x.get("referencedDecl", {}).get("kind") == "VarDecl":
            return x["referencedDecl"]["name"]
    raise Undecided("induction variable not found")


def loop_range(r, label, ex, info_names, entry, its, lp, first, bound, facts):
    """the loop runs over [first, bound): initial value and condition, semantically"""
    var = induction(lp)
    v = tm.sym("iter_" + var, "I")
    conds = [s_.pc[len(entry.pc)] for s_ in its if len(s_.pc) > len(entry.pc)]
    okc = bool(conds) and proved(list(facts) + [tm.lt(v, bound)], conds[0]) and proved(list(facts) + [conds[0]], tm.lt(v, bound))
    put(r, label + ".runs_up_to_its_last_element", okc, repr(conds[:1])[:200])
    init = lp["inner"][0]
    v0 = None
    for s0 in ex.exec(init, [entry.clone()]) if init.get("kind") else []:
        v0 = s0.locals.get(info_names[var])
    put(r, label + ".starts_at_its_first_element", v0 is not None and proved(list(facts) + list(entry.pc), tm.eq(v0, first)), repr(v0)[:100])
    t = text_of(CL1, lp["inner"][3])
    put(r, label + ".advances_by_one", t in (var + "++", "++" + var, var + "+=1", var + "=" + var + "+1"), t, kind="establishment")


def unit_setup(twin=False):
    fn, body, nm = fn_parts()
    r = U.new_unit("C18.cl1.restrictions.set_up:each_declared_restriction_forbids_the_matching_part_of_its_own_variable", CL1, Q, fn)
    CU, IU, X, RES, KODE = (tm.sym("L_" + nm[k_], "P") for k_ in ("cu", "iu", "x", "res", "kode"))
    cud = tm.sym("L_cu_dim", "I")
    P = {k_: tm.sym("L_" + nm[k_], "I") for k_ in ("k", "l", "m", "n")}
    facts = dims(fn, body, nm)
    put(r, "dimensions.nk_nkl_nklm_cu_dim_are_fixed_sums_of_the_parameters", len(facts) >= 8, "%d facts" % len(facts), kind="vacuity", undecided=True)
    # the statements that set the flags up, in order: clear row 0, equality rows (row 0), copy row 0 to row 1, inequality rows (row 1), declared restrictions
    tops = [k for k, x in enumerate(body) if subs_of(x, nm["iu"]) and (assigns_elem(x, nm["iu"]) or x.get("kind") == "CallExpr")]
    first_read = min([k for k, x in enumerate(body) if subs_of(x, nm["iu"]) and not assigns_elem(x, nm["iu"]) and x.get("kind") != "CallExpr"] or [len(body)])
    tops = [k for k in tops if k < first_read]
    kinds = []
    for k in tops:
        x = body[k]
        if x.get("kind") == "CallExpr":
            cal = strip(x["inner"][0]).get("referencedDecl", {}).get("name")
            kinds.append(cal)
        else:
            kinds.append("if")
    put(r, "order.clear_row_0,equality_rows,copy_to_row_1,inequality_rows,declared_restrictions", kinds == ["memset", "if", "memcpy", "if", "if"], repr(kinds), kind="structural")
    if kinds != ["memset", "if", "memcpy", "if", "if"]:
        return r
    c = mkctx()
    stmts = body[tops[0]:tops[-1] + 1]
    f, ex, fin, info, rec = iter_in_context(CL1, Q, stmts, c)
    # clear and copy: whole rows of nklm entries
    nklm = tm.add(P["n"], tm.add(P["k"], tm.add(P["l"], P["m"])))
    evs = [e for e in fin[0].events if e.name in ("memset", "memcpy")]
    def whole_row(e, dst_row, src_row=None):
        a = e.args
        okd = proved(facts, tm.eq(a[0], tm.add(IU, tm.mul(tm.num(dst_row, "I"), cud)))) if a[0].sort == "P" else False
        oks = True if src_row is None else proved(facts, tm.eq(a[1], tm.add(IU, tm.mul(tm.num(src_row, "I"), cud))))
        size = a[2]
        okn = any(proved(facts, tm.eq(size, tm.mul(nklm, tm.num(w, "I")))) for w in (4,)) or ("sizeof" in repr(size) and repr(nklm)[:6] in repr(size))
        return okd and oks, okn
    ms = [e for e in evs if e.name == "memset" and IU in tm.subterms(e.args[0])]
    mc = [e for e in evs if e.name == "memcpy" and IU in tm.subterms(e.args[0])]
    if len(ms) == 1 and len(mc) == 1:
        d, n_ = whole_row(ms[0], 0)
        put(r, "clear.row_0_of_the_flags_is_zeroed_from_its_first_entry", d and tm.isnum(ms[0].args[1]) and ms[0].args[1].args[0] == 0, repr(ms[0].args)[:200])
        sz = ms[0].args[2]
        put(r, "clear.over_all_n+k+l+m_variables", proved(facts, tm.eq(sz, tm.mul(tm.sym("L_nklm", "I"), tm.num(4, "I")))) or proved(facts, tm.eq(sz, tm.mul(nklm, tm.num(4, "I")))), repr(sz)[:100])
        d, n_ = whole_row(mc[0], 1, 0)
        put(r, "copy.row_0_is_copied_to_row_1(equality_rows_forbid_both_parts)", d, repr(mc[0].args)[:200])
        sz = mc[0].args[2]
        put(r, "copy.over_all_n+k+l+m_variables", proved(facts, tm.eq(sz, tm.mul(tm.sym("L_nklm", "I"), tm.num(4, "I")))) or proved(facts, tm.eq(sz, tm.mul(nklm, tm.num(4, "I")))), repr(sz)[:100])
    else:
        put(r, "clear_and_copy.one_memset_and_one_memcpy_of_the_flag_rows", False, "%d/%d" % (len(ms), len(mc)))
    # the loops
    uniq = []
    for t in rec:
        if not any(u[0] is t[0] for u in uniq):
            uniq.append(t)
    rec = uniq
    plain = [t for t in rec if not subs_of(t[0], nm["x"]) and not subs_of(t[0], nm["res"]) and assigns_elem(t[0], nm["iu"])]
    xs = [t for t in rec if subs_of(t[0], nm["x"]) and assigns_elem(t[0], nm["iu"])]
    rs = [t for t in rec if subs_of(t[0], nm["res"]) and assigns_elem(t[0], nm["iu"])]
    put(r, "reach.loops(equality,inequality,x,res)", len(plain) == 2 and len(xs) == 1 and len(rs) == 1, "%d/%d/%d" % (len(plain), len(xs), len(rs)), kind="vacuity", undecided=True)
    if not (len(plain) == 2 and len(xs) == 1 and len(rs) == 1):
        return r
    kode_now = lambda st: tm.select(ex.heap_arr(st, ("m", "I")), KODE, ZERO)
    def check(label, lp, entry, its, first, bound, spec):
        var = induction(lp)
        j = tm.sym("iter_" + var, "I")
        loop_range(r, label, ex, info["names"], entry, its, lp, first, bound, facts)
        memR = entry_arr(ex, its[0], ("m", "R"))
        nn = 0
        for s in lives(its, ("run", "cont")):
            iw = elem_writes(s, IU, "I"); cw = elem_writes(s, CU, "R")
            hy = list(s.pc) + facts
            for hy2, want in spec(hy, j, memR):
                # want: list of (part, column) to forbid in this case
                ok = len(iw) == len(want) and len(cw) == len(want)
                for (p_, col) in want:
                    idx = tm.add(tm.mul(tm.num(p_, "I"), cud), col) if p_ else col
                    ok = ok and any(proved(hy2, tm.eq(ix, idx)) and tm.isnum(v) and v.args[0] == 1 for ix, v in iw) and any(proved(hy2, tm.eq(ix, idx)) and tm.isnum(v) and v.args[0] == 1 for ix, v in cw)
                put(r, "%s.%s#%d" % (label, "forbids_%s_with_cost_1_at_the_same_entry" % "+".join("%s_part_of_variable_%s" % ("negative" if p_ else "positive", "col") for p_, col in want) if want else "nothing_forbidden", nn),
                    ok, "flags %r costs %r" % (iw, cw)); nn += 1
    nk = tm.add(P["n"], P["k"]); nkl = tm.add(nk, P["l"])
    (lpA, eA, iA), (lpB, eB, iB) = plain
    check("equality_rows", lpA, eA, iA, nk, nkl, lambda hy, j, memR: [(hy, [(0, j)])])
    check("inequality_rows", lpB, eB, iB, nkl, nklm, lambda hy, j, memR: [(hy, [(1 if not twin else 0, j)])])
    def by_sign(arr, off):
        def spec(hy, j, memR):
            v = tm.select(memR, arr, j)
            out = []
            for c_, want in ((tm.lt(v, tm.num(0)), [(0, tm.add(j, off) if off is not None else j)]), (tm.lt(tm.num(0), v), [(1, tm.add(j, off) if off is not None else j)]), (tm.eq(v, tm.num(0)), [])):
                if sat(list(hy) + [c_]):
                    out.append((list(hy) + [c_], want))
            return out
        return spec
    (lpX, eX, iX), = xs
    (lpR, eR, iR), = rs
    check("x_restrictions(<0:not_positive,>0:not_negative)", lpX, eX, iX, ZERO, P["n"], by_sign(X, None))
    check("residual_restrictions(<0:not_positive,>0:not_negative)", lpR, eR, iR, ZERO, P["k"], by_sign(RES, P["n"]))
    # declared restrictions are applied exactly when kode != 0 on entry: both loops sit in the same branch of the last set-up statement
    guard = body[tops[-1]]
    comp = [x for x in A.walk(guard) if x.get("kind") == "CompoundStmt" and any(y is lpX for y in x.get("inner", [])) and any(y is lpR for y in x.get("inner", []))]
    put(r, "declared_restrictions.x_and_residual_loops_are_in_the_same_branch", len(comp) == 1, "%d" % len(comp), kind="structural")
    c3 = mkctx()
    ents = []
    def rec3(ex_, st, nd, o):
        if nd is lpX:
            ents.append(st.clone())
        return ex_.havoc_loop(nd, st)
    c3.loop = rec3
    f3, ex3, fin3, info3 = region(CL1, Q, [guard], c3)
    k0 = tm.select(tm.sym("H0.mem:I", ("A", "P", "I", "I")), KODE, ZERO)
    for e_ in ents:
        valid(r, "declared_restrictions.applied_only_when_kode_is_not_0#%d" % len(r.obligations), list(e_.pc), tm.not_(tm.eq(k0, ZERO)))
    put(r, "reach.declared_restrictions", bool(ents), "", kind="vacuity", undecided=True)
    for s_ in fin3:
        if not any(all(p_ in s_.pc for p_ in e_.pc) for e_ in ents):
            valid(r, "declared_restrictions.skipped_only_when_kode_is_0#%d" % len(r.obligations), list(s_.pc), tm.eq(k0, ZERO))
    r.assumptions += ["iteration contracts on the four set-up loops in the context reached from an arbitrary state; memset / memcpy clear / copy the number of bytes given (sizeof(int) = 4)",
                      "the derived dimensions are assigned once (checked on the AST) and are used as facts", "x[j] / res[j] hold -1, 0, 1 on entry as documented in the header comment of cl1",
                      "what the flags mean for the solution (a forbidden part never becomes positive) rests on the look-up sites (unit ...every_look_up...) and on the simplex steps, which are not under contract"]
    return r



# ------------------------------------------------------------------------------------------------ output and final feasibility checks
def pass_arr(ex, s, key):
    """the memory component as the pass of a loop found it (stores of the pass peeled off)"""
    a = s.heap.get(key)
    if a is None:
        return ex.heap_arr(s, key)
    stop = getattr(s, "iter_entry_arrays", {}).get(key, ())
    while a.op == "store" and a not in stop:
        a = a.args[0]
    return a


def vec_at(ex, s, field, idx, sort="R"):
    d = tm.select(pass_arr(ex, s, ("f", "#vdata", "P")), tm.app("fld:" + field, (THIS,), "P"))
    return tm.select(pass_arr(ex, s, ("m", sort)), d, idx)


def unit_final(twin=False):
    fn, body, nm = fn_parts()
    r = U.new_unit("C18.cl1.result.solution_scattered_by_label_and_optimal_result_downgraded_when_a_constraint_is_violated", CL1, Q, fn)
    X, RES, KODE = (tm.sym("L_" + nm[k_], "P") for k_ in ("x", "res", "kode"))
    P = {k_: tm.sym("L_" + nm[k_], "I") for k_ in ("k", "l", "m", "n")}
    facts = dims(fn, body, nm)
    klm = tm.add(P["k"], tm.add(P["l"], P["m"]))
    # ---- the output section: the statements behind the last label
    labels = [k for k, x in enumerate(body) if x.get("kind") == "LabelStmt"]
    if not labels:
        raise Undecided("no label in cl1")
    out0 = labels[-1]
    outs = body[out0:]
    loops = [x for st_ in outs for x in A.walk(st_) if x.get("kind") == "ForStmt" and not any(y is not x and y.get("kind") == "ForStmt" for y in A.walk(x))]
    scatter = [lp for lp in loops if reads_ival(lp) and assigns_elem(lp, nm["x"])]
    zero_x = [lp for lp in loops if not reads_ival(lp) and assigns_elem(lp, nm["x"])]
    zero_r = [lp for lp in loops if not reads_ival(lp) and assigns_elem(lp, nm["res"])]
    chk = [k for k, x in enumerate(body) if k > out0 and x.get("kind") == "IfStmt" and any(y.get("kind") == "MemberExpr" and y.get("name") in ("x_arg", "res_arg") for y in A.walk(x))]
    put(r, "reach.output_section(scatter_loop,two_zeroing_loops,check_block)", len(scatter) == 1 and len(zero_x) == 1 and len(zero_r) == 1 and len(chk) == 1,
        "%d/%d/%d/%d" % (len(scatter), len(zero_x), len(zero_r), len(chk)), kind="vacuity", undecided=True)
    if not (len(scatter) == 1 and len(zero_x) == 1 and len(zero_r) == 1 and len(chk) == 1):
        return r
    order = [k for k, x in enumerate(body) if any(y is zero_x[0] or y is zero_r[0] or y is scatter[0] for y in A.walk(x))]
    sc_k = next(k for k, x in enumerate(body) if any(y is scatter[0] for y in A.walk(x)))
    put(r, "output.x_and_res_are_cleared_before_the_basic_variables_are_scattered(non_basic_variables_are_0)", max(k for k in order if k != sc_k) < sc_k < chk[0], repr(order), kind="structural")
    # zeroing loops
    for lab_, lp, arr, bound in (("x", zero_x[0], X, P["n"]), ("res", zero_r[0], RES, klm)):
        o = ordinal(fn, lp)
        f, ex, its, info = U.run_loop_isolated(CL1, Q, o, ctx=mkctx())
        var = induction(lp); v = tm.sym("iter_" + var, "I")
        check_loop_range(r, "clear_%s" % lab_, ex, None, info, its, var, ZERO, lambda jv: tm.lt(jv, bound), hyp=facts)
        for s in lives(its, ("run", "cont")):
            w = elem_writes(s, arr, "R")
            put(r, "clear_%s.entry_of_this_pass_set_to_0" % lab_, len(w) == 1 and w[0][0] is v and tm.isnum(w[0][1]) and w[0][1].args[0] == 0, repr(w)[:100])
    # scatter loop
    lp = scatter[0]
    o = ordinal(fn, lp)
    f, ex, its, info = U.run_loop_isolated(CL1, Q, o, ctx=mkctx())
    var = induction(lp); iv = tm.sym("iter_" + var, "I")
    check_loop_range(r, "scatter", ex, None, info, its, var, ZERO, lambda jv: tm.lt(jv, klm), hyp=facts)
    ns = 0
    for s in lives(its, ("run", "cont")):
        labs = label_terms(s)
        if len(labs) != 1:
            put(r, "scatter.one_label_per_row#%d" % ns, False, repr(labs)[:100]); ns += 1; continue
        lab = labs[0]
        dv = [x for t in [v_ for ix, v_ in elem_writes(s, X, "R") + elem_writes(s, RES, "R")] for x in tm.subterms(t) if x.op == "select" and x.args[0].op == "sym" and ".dval:" in x.args[0].args[0]]
        xw, rw = elem_writes(s, X, "R"), elem_writes(s, RES, "R")
        for hy, neg in sign_cases(list(s.pc) + facts, lab):
            a = tm.neg(lab) if neg else lab
            for hy2, isx in cases(hy, tm.le(a, P["n"])):
                w = xw if isx else rw
                other = rw if isx else xw
                idx = tm.sub(a, ONE) if isx else tm.sub(tm.sub(a, P["n"]), ONE)
                if twin and not isx:
                    idx = tm.sub(a, P["n"])
                ok = len(w) == 1 and not other and proved(hy2, tm.eq(w[0][0], idx)) and len(set(dv)) == 1
                if ok:
                    val = tm.neg(dv[0]) if neg else dv[0]
                    ok = proved(hy2, tm.eq(w[0][1], val))
                    # the value is the right-hand-side column (column n) of the SAME row whose label (column n + 1) was read
                    qd = tm.sym("L_q_dim", "I")
                    vc, lc = dv[0].args[1][0], lab.args[1][0]
                    ok = ok and vc.op == "+" and lc.op == "+" and vc.args[0] is lc.args[0] and proved(hy2, tm.eq(vc.args[1], tm.add(tm.mul(iv, qd), P["n"]))) \
                        and proved(hy2, tm.eq(lc.args[1], tm.add(tm.mul(iv, qd), tm.add(P["n"], ONE))))
                put(r, "scatter.%s_label_of_%s.value_%s_goes_to_%s#%d" % ("negative" if neg else "positive", "an_unknown" if isx else "a_row", "-q[i][n]" if neg else "q[i][n]", "x[|label|-1]" if isx else "res[|label|-n-1]", ns),
                    ok, "x %r res %r" % (xw, rw)); ns += 1
    # ---- the check block
    c = mkctx()
    f, ex, fin, info, rec = iter_in_context(CL1, Q, [body[chk[0]]], c)
    uniq = []
    for t in rec:
        if not any(u[0] is t[0] for u in uniq):
            uniq.append(t)
    by = {"res_arg": [t for t in uniq if any(y.get("kind") == "MemberExpr" and y.get("name") == "res_arg" for y in A.walk(t[0]))],
          "x_arg": [t for t in uniq if any(y.get("kind") == "MemberExpr" and y.get("name") == "x_arg" for y in A.walk(t[0]))]}
    plain = [t for t in uniq if t not in by["res_arg"] and t not in by["x_arg"]]
    put(r, "reach.check_loops(optimisation_rows,equalities,inequalities,unknowns)", len(plain) == 2 and len(by["res_arg"]) == 1 and len(by["x_arg"]) == 1, "%d/%d/%d" % (len(plain), len(by["res_arg"]), len(by["x_arg"])), kind="vacuity", undecided=True)
    if not (len(plain) == 2 and len(by["res_arg"]) == 1 and len(by["x_arg"]) == 1):
        return r
    tol = tm.sym("L_" + nm["toler"], "R")
    chkv = tm.sym("L_" + nm["check"], "I")
    k0 = tm.select(tm.sym("H0.mem:I", ("A", "P", "I", "I")), KODE, ZERO)
    karg = tm.sym("L_kode_arg", "I")
    def run_check(label, t, first, bound, arr, cond_of, needs_karg):
        lp, entry, its = t
        loop_range(r, label, ex, info["names"], entry, its, lp, first, bound, facts)
        valid(r, label + ".only_for_a_result_reported_optimal_with_checking_on", list(entry.pc), tm.and_(tm.eq(chkv, ONE), tm.eq(k0, ZERO)), kind="establishment")
        if needs_karg:
            valid(r, label + ".only_when_restrictions_were_declared(kode_1_on_entry)", list(entry.pc), tm.eq(karg, ONE), kind="establishment")
        ct = [v_ for did, v_ in entry.locals.items() if isinstance(v_, tm.T) and v_.sort == "R" and tol in tm.subterms(v_) and v_ is not tol]
        okt = len(set(ct)) == 1 and ct[0].op == "*" and any(tm.isnum(a_) and 1 <= a_.args[0] <= (1000 if not twin else 5) for a_ in ct[0].args) and any(a_ is tol for a_ in ct[0].args)
        put(r, label + ".threshold_is_a_fixed_small_multiple_of_toler(1..1000)", okt, repr(ct)[:100])
        if not okt:
            return
        thr = ct[0]
        var = induction(lp); iv = tm.sym("iter_" + var, "I")
        nn = 0
        for s in lives(its, ("run", "cont")):
            kw = [v_ for ix, v_ in elem_writes(s, KODE, "I")]
            val = tm.select(pass_arr(ex, s, ("m", "R")), arr, iv)
            cond = cond_of(s, val, thr, iv)
            hy = list(s.pc) + [tm.lt(tm.num(0), tol)]
            if kw:
                ok = all(tm.isnum(v_) and v_.args[0] == 1 for v_ in kw)
                put(r, label + ".flags_infeasible_as_kode_1#%d" % nn, ok, repr(kw)); nn += 1
                valid(r, label + ".flagged_only_when_violated_beyond_the_threshold#%d" % nn, hy, cond); nn += 1
            else:
                valid(r, label + ".not_flagged_only_when_within_the_threshold#%d" % nn, hy, tm.not_(cond)); nn += 1
    kk_, ll_, mm_, nn_ = P["k"], P["l"], P["m"], P["n"]
    fabs_ = lambda v: tm.ite(tm.lt(v, tm.num(0)), tm.neg(v), v)
    run_check("equalities", plain[0], kk_, tm.add(kk_, ll_), RES, lambda s, v, thr, iv: tm.lt(thr, fabs_(v)), False)
    run_check("inequalities", plain[1], tm.add(kk_, ll_), klm, RES, lambda s, v, thr, iv: tm.lt(v, tm.neg(thr)), False)
    def restr(field):
        def cond(s, v, thr, iv):
            rr = vec_at(ex, s, field, iv)
            return tm.or_(tm.and_(tm.lt(rr, tm.num(0)), tm.lt(thr, v)), tm.and_(tm.lt(tm.num(0), rr), tm.lt(v, tm.neg(thr))))
        return cond
    run_check("restricted_residuals", by["res_arg"][0], ZERO, kk_, RES, restr("res_arg"), True)
    run_check("restricted_unknowns", by["x_arg"][0], ZERO, nn_, X, restr("x_arg"), True)
    r.assumptions += ["statement / iteration contracts on the output section of cl1 (behind its last label), executed from an arbitrary state",
                      "the restrictions the check compares with are the members res_arg / x_arg; OBSERVATION (not an obligation): cl1_space() zero-fills both vectors and nothing in /repo copies the "
                      "caller's restrictions into them, so the two restriction checks can never fire in this tree - the equality and inequality checks are live",
                      "toler > 0; fabs by cases; doubles as reals", "the long-double accumulation of the error sum is not part of this unit"]
    r.notes.append("cl1.cpp: x_arg / res_arg are cleared by cl1_space and never filled: `Check optimization constraints` and `Check dissolution/precipitation constraints` are dead code in this tree")
    return r


UNITS = [
    ("C18.cl1.restrictions.every_look_up_reads_the_part_and_variable_its_label_names(own,both,opposite_part_by_site)", unit_lookups),
    ("C18.cl1.restrictions.set_up:each_declared_restriction_forbids_the_matching_part_of_its_own_variable", unit_setup),
    ("C18.cl1.result.solution_scattered_by_label_and_optimal_result_downgraded_when_a_constraint_is_violated", unit_final),
]
