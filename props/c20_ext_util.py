"""Helpers shared by the C20 extension units (props/c20_ext*.py).

* `inline_accessors`: the one-line accessors of a /repo class (cxxSurfaceCharge::Get_sigma0 ...) are not given a model: the REAL inline
  definition is located in the translation unit and executed on the caller's state with `this` bound to the receiver, so a setter
  followed by a getter behaves as the class says (and a change to the accessor is seen by every unit that goes through it).
* `vector_push_back_values`: std::vector<double>::push_back stores the pushed value at index size() (the engine's STL model only
  counts); used for `cd_psi`.
* `main_loop`: the per-unknown loop of a large function = the loop statement with the largest source extent.
* `concrete_type_iteration`: iteration contract of that loop for an unknown whose type code is a given constant (the type field of
  x[i] is set before the body runs, so the if/else-if chain folds to the one row under contract, wherever and however it is spelled)."""
from props.common import *
from vf.core import FAILED, DISCHARGED, UNDECIDED
from vf.astvc import hdr
from vf.astvc import symex as SX

GS = "src/phreeqcpp/global_structures.h"
SURFCHARGE_TU = "src/phreeqcpp/SurfaceCharge.cxx"
SURFACE_TU = "src/phreeqcpp/Surface.cxx"


def K(name):
    """a #define'd numeric constant of global_structures.h"""
    return hdr.define_value(GS, name)


def KI(name):
    return tm.num(int(K(name)), "I")


def KR(name):
    return tm.num(K(name))


def inline_accessors(c, tu, cls, names):
    for nm in names:
        f = A.find_function(tu, cls + "::" + nm)
        if sum(1 for x in A.walk(A.body_of(f)) if x.get("kind") in ("ForStmt", "WhileStmt", "DoStmt", "CallExpr", "CXXMemberCallExpr")) != 0:
            raise Undecided("%s::%s is no longer a plain accessor (it loops or calls)" % (cls, nm))
        def h(ex, st, n, name, recv, args, f=f):
            sub = SX.Exec(ex.ctx)
            old = ex.ctx.this
            ex.ctx.this = recv
            try:
                fin = sub.run(f, st, params=list(args))
            finally:
                ex.ctx.this = old
            out = []
            for s in fin:
                if s.status == "ret":
                    s.status = "run"
                    v = s.ret if s.ret is not None else tm.num(0, "I")
                    s.ret = None
                    out.append((s, v))
                elif s.status == "run":
                    out.append((s, tm.num(0, "I")))
                else:
                    raise Undecided("accessor %s ends with status %s" % (name, s.status))
            return out
        c.handlers[cls + "::" + nm] = h


CHARGE_ACCESSORS = ["Get_sigma0", "Set_sigma0", "Get_sigma1", "Set_sigma1", "Get_sigma2", "Set_sigma2", "Get_sigmaddl", "Set_sigmaddl",
                    "Get_grams", "Get_specific_area", "Get_capacitance0", "Get_capacitance1", "Get_mass_water", "Set_mass_water"]


def vector_push_back_values(c, elem_prefix="std::vector<double", sort="R"):
    prev = c.handlers.get("push_back")
    def push_back(ex, st, n, name, recv, args):
        if not name.startswith(elem_prefix):
            return prev(ex, st, n, name, recv, args) if prev else None
        old = ex.ctx.stl.vsize(ex, st, recv)
        d = ex.ctx.stl.vdata(ex, st, recv)
        ex.store(st, ("elem", d, old), args[0], sort)
        key = ("f", "#vsize", "I")
        st.heap[key] = tm.store(ex.heap_arr(st, key), (recv,), tm.add(old, tm.num(1, "I")))
        st.events.append(SX.Event("vector.push_back", recv, [old] + list(args), tm.num(0, "I"), n))
        return [(st, tm.num(0, "I"))]
    c.handlers["push_back"] = push_back


def loops_of(fn):
    return [x for x in A.walk(fn) if x.get("kind") in ("ForStmt", "WhileStmt", "DoStmt")]


def main_loop(fn):
    """ordinal of the loop statement with the largest source extent"""
    best, size = None, -1
    for k, lp in enumerate(loops_of(fn)):
        b, e = A.src_range_text(lp)
        if b is not None and e and e - b > size:
            best, size = k, e - b
    if best is None:
        raise Undecided("function has no loop")
    return best


def surface_enums(c):
    ev = A.enum_values_compiled("Phreeqc.h", ["cxxSurface::DDL", "cxxSurface::CCM", "cxxSurface::NO_DL", "cxxSurface::CD_MUSIC", "cxxSurface::NO_EDL",
                                              "cxxSurface::BORKOVEK_DL", "cxxSurface::DONNAN_DL"])
    c.enum_values.update({k.split("::")[-1]: v for k, v in ev.items()})
    return c.enum_values


def x_elem(ex, s, i, entry=True):
    return vec_elem(ex, s, "x", i, entry=entry)


def induction_name(lp):
    """name of the variable stepped by the increment of a for loop"""
    if lp.get("kind") != "ForStmt":
        raise Undecided("loop is not a for loop")
    for y in A.walk(lp["inner"][3]):
        if y.get("kind") == "DeclRefExpr" and y.get("referencedDecl", {}).get("kind") in ("VarDecl", "ParmVarDecl"):
            return y["referencedDecl"]["name"]
    raise Undecided("induction variable of the loop not found")


def returned_local(fn):
    """name of the local variable the function returns (last return statement)"""
    rets = [x for x in A.walk(fn) if x.get("kind") == "ReturnStmt"]
    if not rets:
        raise Undecided("function has no return statement")
    for y in A.walk(rets[-1]):
        if y.get("kind") == "DeclRefExpr" and y.get("referencedDecl", {}).get("kind") == "VarDecl":
            return y["referencedDecl"]["name"]
    raise Undecided("the function does not return a local variable")


def convergence_flag(info, code_name="CONVERGED"):
    """the local on which the function's CONVERGED answer depends: the function (its per-unknown loop summarised by arbitrary values
    of everything the loop assigns) returns CONVERGED only on paths that require <flag> == TRUE.  Returns the local's name."""
    conv = tm.num(int(K(code_name)), "I")
    names = set()
    n = 0
    for s in info["finals"]:
        if s.status != "ret" or s.ret is None or s.ret is not conv and not (tm.isnum(s.ret) and s.ret.args[0] == conv.args[0]):
            continue
        n += 1
        hs = {str(t.args[0])[6:].split("!")[0]: t for p in s.pc for t in tm.subterms(p) if t.op == "sym" and str(t.args[0]).startswith("havoc_")}
        ok = [a for a, t in hs.items() if B.z3_prove(list(s.pc), tm.eq(t, tm.num(int(K("TRUE")), t.sort)))[0] == "proved"]
        names |= set(ok)
    if n == 0 or len(names) != 1:
        raise Undecided("cannot identify the convergence flag of the function (paths returning %s: %d, candidates %r)" % (code_name, n, sorted(names)))
    return names.pop()


def accumulators(lp):
    """names of the locals updated by a compound assignment (+=, -=, *=) directly in the loop (any nesting)"""
    out = []
    for y in A.walk(lp):
        if y.get("kind") == "CompoundAssignOperator":
            t = strip(y["inner"][0])
            if t.get("kind") == "DeclRefExpr" and t["referencedDecl"].get("kind") == "VarDecl" and t["referencedDecl"]["name"] not in out:
                out.append(t["referencedDecl"]["name"])
    return out


def loc(info, s, name):
    if name not in info["names"]:
        raise Undecided("local %s not found" % name)
    return local(info, s, name)


def concrete_type_iteration(rel, q, type_code, c, loop=None, surface_type=None, extra_prepare=None, inner_iter=()):
    """iteration contract of the per-unknown loop of q for an unknown x[i] whose ->type is `type_code`.  The function is executed
    from its entry to the loop (so locals set before the loop and never changed in it, such as the tolerance, keep their meaning);
    the body is then run once for an arbitrary i on a state in which everything the loop writes is arbitrary."""
    fn = A.find_function(rel, q)
    k = main_loop(fn) if loop is None else loop
    lp = loops_of(fn)[k]
    ind = induction_name(lp)
    if surface_type is not None:
        c.handlers["cxxSurface::Get_type"] = lambda ex, st, n, name, recv, args: [(st, tm.num(surface_type, "I"))]
    names = {}
    for x in A.walk(fn):
        if x.get("kind") in ("VarDecl", "ParmVarDecl") and "name" in x:
            names.setdefault(x["name"], x["id"])
    info = {"names": names, "ordinal": k, "induction": ind, "inner_entries": {}, "iter": [], "node": lp, "inner_iters": {}}
    in_main = [False]
    def prepare(ex, s):
        i = local(info, s, ind)
        xi = tm.select(ex.heap_arr(s, ("m", "P")), tm.select(ex.heap_arr(s, ("f", "#vdata", "P")), tm.app("fld:x", (THIS,), "P")), i)
        key = ("f", "type", "I")
        s.heap[key] = tm.store(ex.heap_arr(s, key), (xi,), tm.num(type_code, "I"))
        if extra_prepare:
            extra_prepare(ex, s, info)
    def loop_cb(ex, st, node, o):
        if o == k:
            in_main[0] = True
            res = ex.iterate_loop(node, st.clone(), prepare=prepare)
            in_main[0] = False
            info["iter"].extend(res)
            info["main_written"], info["main_entry_arrays"] = ex.iter_written, ex.iter_entry_arrays
            for s_ in res:
                s_.iter_entry_arrays = ex.iter_entry_arrays
            return ex.havoc_loop(node, st)
        info["inner_entries"].setdefault(o, []).append(st.clone())
        if o in inner_iter and in_main[0]:
            # iteration contract of an inner loop in the context reached (facts established by the enclosing iteration are kept)
            saved = (getattr(ex, "iter_written", None), getattr(ex, "iter_entry_arrays", None))
            res = ex.iterate_loop(node, st.clone())
            info["inner_iters"].setdefault(o, []).append((res, ex.iter_written, ex.iter_entry_arrays))
            ex.iter_written, ex.iter_entry_arrays = saved
        return ex.havoc_loop(node, st)
    c.loop = loop_cb
    ex = SX.Exec(c)
    info["finals"] = ex.run(fn, SX.State())
    if not info["iter"]:
        raise Undecided("the per-unknown loop of %s was not reached" % q)
    return fn, ex, info["iter"], info


def ev_named(s, short, only_iter=True):
    evs = U.iter_events(s) if only_iter else s.events
    return [e for e in evs if e.name.split("::")[-1] == short]


def proves(hy, goal):
    return B.z3_prove(list(hy), goal)[0] == "proved"


def sat(hy):
    return B.z3_sat(list(hy)) != "unsat"


def havoc_sym(term, name):
    """the symbol a havocked inner loop left in local `name` (occurring in `term`)"""
    hs = sorted({t for t in tm.subterms(term) if t.op == "sym" and str(t.args[0]).startswith("havoc_%s!" % name)}, key=repr)
    return hs


def _is_stack(x):
    return x.op == "sym" and str(x.args[0]).startswith("&")


def _root(x):
    for _ in range(12):
        if x.op == "app" and str(x.args[0]).startswith("fld:"):
            x = x.args[1]
        elif x.op == "+" and x.sort == "P":
            x = x.args[0]
        else:
            break
    return x


def unstack(t, cache=None):
    """reads of heap objects do not see writes to address-taken LOCALS of the function (their stack slots are separate from every
    object reachable from the entry state): select(store(a, (&local, k), v), (p, j)) = select(a, (p, j)) when p is not a stack address"""
    if cache is None:
        cache = {}
    if t in cache:
        return cache[t]
    if not t.args or t.op in ("num", "sym", "bool", "str"):
        return t
    new = []
    for a in t.args:
        if isinstance(a, tm.T):
            new.append(unstack(a, cache))
        elif isinstance(a, tuple):
            new.append(tuple(unstack(x, cache) if isinstance(x, tm.T) else x for x in a))
        else:
            new.append(a)
    if t.op == "select":
        arr, idx = new[0], new[1]
        if not _is_stack(_root(idx[0])):
            while arr.op == "store" and _is_stack(_root(arr.args[1][0])):
                arr = arr.args[0]
        r = tm.select(arr, *idx)
    else:
        r = tm.rebuild(t.op, tuple(new), t.sort)
    cache[t] = r
    return r


def vector_assign_single(c, vec_type, sort="P"):
    """v = w for std::vector<T> with a one-element w (size known to be 1): v has size 1 and v[0] == w[0]"""
    def assign(ex, st, n, name, argn):
        out = []
        for s1, lsrc in ex.lv(argn[1], st):
            src = ex.address(s1, lsrc)
            for s2, ldst in ex.lv(argn[0], s1):
                dst = ex.address(s2, ldst)
                sz = ex.ctx.stl.vsize(ex, s2, src)
                if not (tm.isnum(sz) and sz.args[0] == 1):
                    raise Undecided("vector assignment from a vector whose size is not known to be 1")
                v0 = ex.load(s2, ("elem", ex.ctx.stl.vdata(ex, s2, src), tm.num(0, "I")), sort)
                key = ("f", "#vsize", "I")
                s2.heap[key] = tm.store(ex.heap_arr(s2, key), (dst,), sz)
                ex.store(s2, ("elem", ex.ctx.stl.vdata(ex, s2, dst), tm.num(0, "I")), v0, sort)
                s2.events.append(SX.Event("vector.assign", dst, [src, v0], tm.num(0, "I"), n))
                out.append((s2, dst))
        return out
    c.handlers[vec_type + "::operator="] = assign
