"""C20 extension, prep.cpp: the electrostatic terms a surface species receives when the model is built.

* add_cd_music_factors: the mass-action equation of a CD-MUSIC surface species receives, for each of the three planes k, the potential
  master species of plane k OF THE SPECIES' OWN SURFACE with exponent trxn.dz[k] (the charge the reaction places in plane k);
  nothing is added for the other electrostatic models.
* add_cd_music_charge_balances: the species enters the charge balance of plane k (the element of that plane's potential master)
  with coefficient s[n]->dz[k].
* add_surface_charge_balance (diffuse layer / constant capacitance): the species enters the one charge balance of its surface with
  coefficient 1 (its charge z is applied when the sums are built), nothing for CD-MUSIC / no-edl.

Whole-function symbolic execution from an arbitrary state; the scan for the surface master species is an iteration contract.
find_surface_charge_unknown(name, plane) is read as a look-up by (surface the name belongs to, plane): see `_fscu`."""
from props.c20_ext_util import *

PREP = "src/phreeqcpp/prep.cpp"


def _surface_of(nm):
    """the surface a name belongs to (its first '_'-separated token).  The element of the potential master of the unknown found for
    (surface S, any plane) is named S_psi.. and belongs to S."""
    for t in tm.subterms(nm):
        if t.op == "app" and t.args[0] == "call:find_surface_charge_unknown":
            return t.args[1]
    return tm.app("surface_of", (nm,), "S")


def _fscu(ex, st, n, name, recv, args):
    nm, plane = args[0], args[1]
    res = tm.app("call:find_surface_charge_unknown", (_surface_of(nm), plane), "P")
    st.events.append(SX.Event(name, recv, [nm, plane], res, n))
    return [(st, res)]


def _gsis(ex, st, n, name, recv, args):
    """get_secondary_in_species(&cptr, coef): record the string the pointer designates at the call"""
    p = args[0]
    pointee = unstack(ex.load(st, ex.deref(st, p), "P"))
    res = SX.fresh("ret_get_secondary_in_species", "I")
    st.events.append(SX.Event(name, recv, [pointee, args[1]], res, n))
    return [(st, res)]


def _string_assign(ex, st, n, name, argn):
    out = []
    for s1, v in ex.ev(argn[1], st):
        v = ex.coerce(v, "S")
        for s2, l in ex.lv(argn[0], s1):
            ex.store(s2, l, v, "S")
            out.append((s2, v))
    return out


def _ctx():
    c = ctx(functional={"Get_surface_ptr", "Get_type"})
    surface_enums(c)
    c.handlers["find_surface_charge_unknown"] = _fscu
    c.handlers["get_secondary_in_species"] = _gsis
    for nm in ("std::basic_string<char>::operator=", "std::string::operator=", "std::__cxx11::basic_string<char>::operator="):
        c.handlers[nm] = _string_assign
    return c


def _assigned_pointer_locals(lp):
    """names of pointer locals assigned (=) inside the loop, other than the induction variable"""
    ind = induction_name(lp)
    out = []
    for y in A.walk(lp["inner"][-1]):
        if y.get("kind") == "BinaryOperator" and y.get("opcode") == "=":
            t = strip(y["inner"][0])
            if t.get("kind") == "DeclRefExpr" and t["referencedDecl"].get("kind") == "VarDecl":
                nm = t["referencedDecl"]["name"]
                if nm != ind and nm not in out:
                    out.append(nm)
    return out


def _scan_contract(r, q, tag, kind, twin=False):
    """loop 0 of q: the surface master species is the `primary` master of a surface-type entry of the scanned list.
    kind 'trxn': every reaction token i >= 1 whose species has type SURF sets master = token[i].s->primary (the last one wins);
    kind 'elts': the first element whose primary master species has type SURF sets master = elt->primary and ends the scan.
    Returns the name of the local that carries the result."""
    fn = A.find_function(PREP, q)
    lp = loops_of(fn)[0]
    outs = _assigned_pointer_locals(lp)
    if len(outs) != 1:
        raise Undecided("%s: the scan loop assigns %r (expected one pointer local)" % (q, outs))
    mp = outs[0]
    ind = induction_name(lp)
    # the head of the scan, stated here: reaction tokens 1 .. count_trxn-1 (token 0 is the species being defined) / elements 0 .. count_elts-1
    start, bound = ("1", "count_trxn") if kind == "trxn" else ("0", "count_elts")
    h = (text_of(PREP, lp["inner"][0]), text_of(PREP, lp["inner"][2]), text_of(PREP, lp["inner"][3]))
    ok = h[0].rstrip(";") == "%s=%s" % (ind, start) and h[1] in ("%s<%s" % (ind, bound), "%s>%s" % (bound, ind)) and h[2] in (ind + "++", "++" + ind)
    r.add(tag + ".scan.covers_entries_%s..%s-1" % (start, bound), DISCHARGED if ok else FAILED, "syntactic", 0, "for (%s %s; %s)" % h, kind="establishment")
    r.head_exempt = dict(getattr(r, "head_exempt", {}))
    r.head_exempt[(q, 0)] = "head stated by the unit: entries %s..%s-1" % (start, bound)
    f, ex, its, inf = U.run_loop_isolated(PREP, q, 0, ctx=_ctx())
    SURF = KI("SURF")
    n = set()
    for s in live(its, ("run", "cont", "brk")):
        i = loc(inf, s, ind)
        new, old = loc(inf, s, mp), tm.sym("iter_" + mp, "P")
        if kind == "trxn":
            tok = tm.select(entry_arr(ex, s, ("f", "#vdata", "P")), tm.app("fld:token", (tm.app("fld:trxn", (THIS,), "P"),), "P")) + i
            sp = fld0(ex, s, "s", "P", tok)
            cand = fld0(ex, s, "primary", "P", sp)
            ty = fld0(ex, s, "type", "I", sp)
        else:
            el = tm.select(entry_arr(ex, s, ("f", "#vdata", "P")), tm.app("fld:elt_list", (THIS,), "P")) + i
            cand = fld0(ex, s, "primary", "P", fld0(ex, s, "elt", "P", el))
            ty = fld0(ex, s, "type", "I", fld0(ex, s, "s", "P", cand))
        want = tm.eq(ty, SURF) if not twin else tm.not_(tm.eq(ty, SURF))
        for hy, surf in cases(list(s.pc), want):
            if surf:
                n.add("surf")
                U.discharge_valid(r, tag + ".scan.surface_entry:master=its_primary_master", hy, tm.eq(new, cand))
                if kind == "elts":
                    r.add(tag + ".scan.first_surface_entry_ends_the_scan", DISCHARGED if s.status == "brk" else FAILED, "symex", 0, s.status)
            else:
                n.add("other")
                U.discharge_valid(r, tag + ".scan.other_entry:master_unchanged", hy, tm.eq(new, old))
                if kind == "elts":
                    r.add(tag + ".scan.other_entry_continues", DISCHARGED if s.status != "brk" else FAILED, "symex", 0, s.status)
    r.add("reach.%s.scan_both_cases" % tag, DISCHARGED if n == {"surf", "other"} else UNDECIDED, "symex", 0, repr(sorted(n)), kind="vacuity")
    return mp


def _run(q, surface_type=None):
    c = _ctx()
    if surface_type is not None:
        c.handlers["cxxSurface::Get_type"] = lambda ex, st, n, name, recv, args: [(st, tm.num(surface_type, "I"))]
    return U.run_function(PREP, q, ctx=c), c


def _site_surface(ex, s, mp):
    """surface of the site master the scan left in local mp (the havocked loop result)"""
    hs = sorted({t for e in s.events for a in e.args if isinstance(a, tm.T) for t in tm.subterms(a) if t.op == "sym" and str(t.args[0]).startswith("havoc_%s!" % mp)}, key=repr)
    if len(hs) != 1:
        return None, None
    m = hs[0]
    nm = tm.select(entry_arr(ex, s, ("f", "name", "P")), tm.select(entry_arr(ex, s, ("f", "elt", "P")), m))
    return m, nm


def _psi_master_of(ex, s, unk):
    return tm.select(entry_arr(ex, s, ("m", "P")), tm.select(entry_arr(ex, s, ("f", "#vdata", "P")), tm.app("fld:master", (unk,), "P")), tm.num(0, "I"))


def _unknown_for(s, mp, plane_code):
    """the find_surface_charge_unknown event for the plane whose name argument is derived from the site master's element name"""
    return [e for e in s.events if e.name.split("::")[-1] == "find_surface_charge_unknown" and tm.isnum(e.args[1]) and int(e.args[1].args[0]) == int(K(plane_code))]


PLANES = ("SURF_PSI", "SURF_PSI1", "SURF_PSI2")


# ------------------------------------------------------------------------------------------------ add_cd_music_factors
def unit_cd_music_factors(twin=False):
    q = "Phreeqc::add_cd_music_factors"
    fn0 = A.find_function(PREP, q)
    r = U.new_unit("C20.add_cd_music_factors.three_plane_boltzmann_factors", PREP, q, fn0)
    ev = surface_enums(ctx())
    mp = _scan_contract(r, q, "cd_music_factors", "trxn")
    (fn, ex, finals, info), c = _run(q)
    OK_ = tm.num(int(K("OK")), "I")
    CD = tm.num(ev["CD_MUSIC"], "I")
    seen = set()
    trxn = tm.app("fld:trxn", (THIS,), "P")
    for s in live(finals, ("ret",)):
        hy = list(s.pc)
        H0 = lambda key: entry_arr(ex, s, key)
        ct0 = fld0(ex, s, "count_trxn", "I")
        ct1 = fld(ex, s, "count_trxn", "I")
        sp = tm.app("call:Get_surface_ptr", (tm.app("fld:use", (THIS,), "P"),), "P")
        ty = tm.app("call:Get_type", (sp,), "I")
        data0 = tm.select(H0(("f", "#vdata", "P")), tm.app("fld:token", (trxn,), "P"))
        w = writes(s, ("f", "coef", "R")) + writes(s, ("f", "s", "P"))
        if proves(hy, tm.eq(sp, tm.NULL)):
            seen.add("no_surface")          # input error path: nothing is added
            r.add("no_surface_defined.no_factor_added", DISCHARGED if not w and ct1 is ct0 else FAILED, "symex", 0, repr(w)[:120])
            continue
        for h, cd in cases(hy, tm.eq(ty, CD)):
            if not cd:
                seen.add("other_model")
                U.discharge_valid(r, "other_models.returns_OK_and_adds_nothing", h, tm.and_(tm.eq(s.ret, OK_), tm.eq(ct1, ct0)))
                r.add("other_models.no_token_written", DISCHARGED if not w else FAILED, "symex", 0, repr(w)[:160])
                continue
            if not sat(h + [tm.eq(s.ret, OK_)]):
                seen.add("error_return")         # no surface species in the reaction / potential unknown missing: an input error is raised
                n_err = [e for e in s.events if e.name.split("::")[-1] == "error_msg"]
                r.add("cd_music.error_return_reports_an_error", DISCHARGED if n_err else FAILED, "symex", 0, "")
                continue
            seen.add("cd_music")
            m, nm = _site_surface(ex, s, mp)
            if m is None:
                r.add("cd_music.potential_unknowns_looked_up_from_the_site_master", FAILED, "symex", 0, "no find_surface_charge_unknown argument derives from the scan result `%s`" % mp); continue
            SF = _surface_of(tm.app("string_of", (nm,), "S"))
            U.discharge_valid(r, "cd_music.three_terms_appended", h, tm.eq(ct1, ct0 + tm.num(3, "I")))
            for k, code in enumerate(PLANES):
                unk = tm.app("call:find_surface_charge_unknown", (SF, KI(code)), "P")
                psi = _psi_master_of(ex, s, unk)
                psi_s = tm.select(H0(("f", "s", "P")), psi)
                tok = data0 + (ct0 + tm.num(k, "I")) if k else data0 + ct0
                dzk = tm.select(H0(("m", "R")), tm.app("fld:dz", (trxn,), "P"), tm.num(k if not (twin and k == 2) else 1, "I"))
                toks = [data0 + (ct0 + tm.num(j, "I")) if j else data0 + ct0 for j in range(3)]
                sep = [tm.not_(tm.eq(tj, o)) for tj in toks for o in (psi, psi_s)]     # a reaction-token record is neither a master record nor a species record
                U.discharge_valid(r, "cd_music.plane%d.term_is_the_plane's_potential_species_of_the_site's_surface" % k, h + sep, tm.eq(fld(ex, s, "s", "P", tok), psi_s))
                U.discharge_valid(r, "cd_music.plane%d.exponent==dz[%d]_of_the_reaction" % (k, k), h, tm.eq(fld(ex, s, "coef", "R", tok), dzk))
                U.discharge_valid(r, "cd_music.plane%d.name_is_that_species'_name" % k, h + sep, tm.eq(fld(ex, s, "name", "P", tok), tm.select(H0(("f", "name", "P")), psi_s)))
            # frame: the existing terms of the reaction are not touched
            others = [ix for ix, _ in w if not any(proves(h, tm.eq(ix[0], data0 + (ct0 + tm.num(k, "I")) if k else data0 + ct0)) for k in range(3))]
            r.add("cd_music.existing_terms_untouched", DISCHARGED if not others else FAILED, "symex", 0, repr(others)[:200])
    want = {"no_surface", "other_model", "error_return", "cd_music"}
    r.add("reach.all_cases", DISCHARGED if seen == want else UNDECIDED, "symex", 0, repr(sorted(seen)), kind="vacuity")
    r.assumptions += ["find_surface_charge_unknown(name, plane) is a look-up by (surface the name belongs to = first '_' token, plane); the element of a potential master is named <surface>_psi..",
                      "vector::resize keeps the existing tokens", "a reaction token record is not a master-species record",
                      "callers (build_model) and trxn.dz (set by trxn_add from the species' -cd_music data; see C20.read_surface_species.cd_music_charge_distribution) are not under this contract"]
    return r


# ------------------------------------------------------------------------------------------------ add_cd_music_charge_balances
def unit_cd_music_charge_balances(twin=False):
    q = "Phreeqc::add_cd_music_charge_balances"
    fn0 = A.find_function(PREP, q)
    r = U.new_unit("C20.add_cd_music_charge_balances.plane_charge_contributions", PREP, q, fn0)
    ev = surface_enums(ctx())
    mp = _scan_contract(r, q, "cd_music_balances", "elts")
    (fn, ex, finals, info), c = _run(q)
    OK_ = tm.num(int(K("OK")), "I")
    CD = tm.num(ev["CD_MUSIC"], "I")
    nparam = tm.sym("P0_n", "I")
    seen = set()
    for s in live(finals, ("ret",)):
        hy = list(s.pc)
        sp = tm.app("call:Get_surface_ptr", (tm.app("fld:use", (THIS,), "P"),), "P")
        ty = tm.app("call:Get_type", (sp,), "I")
        calls = [e for e in s.events if e.name.split("::")[-1] == "get_secondary_in_species"]
        if proves(hy, tm.eq(sp, tm.NULL)):
            seen.add("no_surface")
            r.add("no_surface_defined.no_balance_added", DISCHARGED if not calls else FAILED, "symex", 0, "")
            continue
        for h, cd in cases(hy, tm.eq(ty, CD)):
            if not cd:
                seen.add("other_model")
                U.discharge_valid(r, "other_models.returns_OK", h, tm.eq(s.ret, OK_))
                r.add("other_models.no_balance_added", DISCHARGED if not calls else FAILED, "symex", 0, repr(calls)[:160])
                continue
            if not sat(h + [tm.eq(s.ret, OK_)]):
                seen.add("error_return")
                n_err = [e for e in s.events if e.name.split("::")[-1] == "error_msg"]
                r.add("cd_music.error_return_reports_an_error", DISCHARGED if n_err else FAILED, "symex", 0, "")
                continue
            seen.add("cd_music")
            m, nm = _site_surface(ex, s, mp)
            if m is None:
                r.add("cd_music.potential_unknowns_looked_up_from_the_site_master", FAILED, "symex", 0, "no find_surface_charge_unknown argument derives from the scan result `%s`" % mp); continue
            SF = _surface_of(tm.app("string_of", (nm,), "S"))
            r.add("cd_music.exactly_three_balances", DISCHARGED if len(calls) == 3 else FAILED, "symex", 0, "%d calls of get_secondary_in_species" % len(calls))
            spn = tm.select(entry_arr(ex, s, ("m", "P")), tm.select(entry_arr(ex, s, ("f", "#vdata", "P")), tm.app("fld:s", (THIS,), "P")), nparam)
            for k, code in enumerate(PLANES):
                unk = tm.app("call:find_surface_charge_unknown", (SF, KI(code)), "P")
                psi = _psi_master_of(ex, s, unk)
                el_name = tm.select(entry_arr(ex, s, ("f", "name", "P")), tm.select(entry_arr(ex, s, ("f", "elt", "P")), psi))
                mine = [e for e in calls if e.args[0] is el_name]
                if len(mine) != 1:
                    r.add("cd_music.plane%d.enters_the_charge_balance_of_its_potential_unknown" % k, FAILED, "symex", 0, "calls naming the plane's element: %d; %r" % (len(mine), [e.args[0] for e in calls])[:300]); continue
                r.add("cd_music.plane%d.enters_the_charge_balance_of_its_potential_unknown" % k, DISCHARGED, "symex", 0, "")
                dzk = tm.select(entry_arr(ex, s, ("m", "R")), tm.app("fld:dz", (spn,), "P"), tm.num(k if not (twin and k == 1) else 0, "I"))
                U.discharge_valid(r, "cd_music.plane%d.coefficient==s[n]->dz[%d]" % (k, k), h, tm.eq(unstack(mine[0].args[1]), dzk))
    want = {"no_surface", "other_model", "error_return", "cd_music"}
    r.add("reach.all_cases", DISCHARGED if seen == want else UNDECIDED, "symex", 0, repr(sorted(seen)), kind="vacuity")
    r.assumptions += ["find_surface_charge_unknown(name, plane) is a look-up by (surface the name belongs to, plane); the element of a potential master is named <surface>_psi..",
                      "get_secondary_in_species(&name, c) adds element `name` with coefficient c to the species' element list (its body is not under this contract)",
                      "first parameter n indexes the species list s[]"]
    return r


# ------------------------------------------------------------------------------------------------ add_surface_charge_balance
def unit_surface_charge_balance(twin=False):
    q = "Phreeqc::add_surface_charge_balance"
    fn0 = A.find_function(PREP, q)
    r = U.new_unit("C20.add_surface_charge_balance.species_enters_its_surface's_charge_balance", PREP, q, fn0)
    ev = surface_enums(ctx())
    mp = _scan_contract(r, q, "charge_balance", "elts")
    (fn, ex, finals, info), c = _run(q)
    DDL, CCM = tm.num(ev["DDL"], "I"), tm.num(ev["CCM"], "I")
    seen = set()
    for s in live(finals, ("ret",)):
        hy = list(s.pc)
        sp = tm.app("call:Get_surface_ptr", (tm.app("fld:use", (THIS,), "P"),), "P")
        ty = tm.app("call:Get_type", (sp,), "I")
        calls = [e for e in s.events if e.name.split("::")[-1] == "get_secondary_in_species"]
        errs = [e for e in s.events if e.name.split("::")[-1] == "error_msg"]
        if proves(hy, tm.eq(sp, tm.NULL)):
            seen.add("no_surface")
            r.add("no_surface_defined.no_balance_added", DISCHARGED if not calls else FAILED, "symex", 0, "")
            continue
        model = tm.or_(tm.eq(ty, DDL), tm.eq(ty, CCM)) if not twin else tm.eq(ty, DDL)
        for h, edl in cases(hy, model):
            if not edl:
                seen.add("other_model")
                r.add("cd_music_and_no_edl.no_balance_added_here", DISCHARGED if not calls else FAILED, "symex", 0, repr(calls)[:160])
                continue
            if errs:
                seen.add("error")
                r.add("ddl_ccm.error_path_adds_nothing", DISCHARGED if not calls else FAILED, "symex", 0, "")
                continue
            seen.add("ddl_ccm")
            m, nm = _site_surface(ex, s, mp)
            if m is None:
                r.add("ddl_ccm.potential_unknown_looked_up_from_the_site_master", FAILED, "symex", 0, "no find_surface_charge_unknown argument derives from the scan result `%s`" % mp); continue
            SF = _surface_of(tm.app("string_of", (nm,), "S"))
            unk = tm.app("call:find_surface_charge_unknown", (SF, KI("SURF_PSI")), "P")
            psi = _psi_master_of(ex, s, unk)
            el_name = tm.select(entry_arr(ex, s, ("f", "name", "P")), tm.select(entry_arr(ex, s, ("f", "elt", "P")), psi))
            ok = len(calls) == 1 and calls[0].args[0] is el_name
            r.add("ddl_ccm.one_balance:the_element_of_the_surface's_potential_master", DISCHARGED if ok else FAILED, "symex", 0, repr([e.args[0] for e in calls])[:300])
            if calls:
                U.discharge_valid(r, "ddl_ccm.coefficient==1(charge z applied when the sums are built)", h, tm.eq(calls[0].args[1], tm.num(1)))
    want = {"no_surface", "other_model", "error", "ddl_ccm"}
    r.add("reach.all_cases", DISCHARGED if seen == want else UNDECIDED, "symex", 0, repr(sorted(seen)), kind="vacuity")
    r.assumptions += ["find_surface_charge_unknown(name, plane) is a look-up by (surface the name belongs to, plane)",
                      "get_secondary_in_species(&name, c) adds element `name` with coefficient c to the species' element list (its body is not under this contract)"]
    return r


# ------------------------------------------------------------------------------------------------ setup_surface
def _nested_loops_storing(fn, member):
    """loops (ordinals) that contain an assignment to ->member, outermost first"""
    lps = loops_of(fn)
    ks = []
    for k, lp in enumerate(lps):
        for y in A.walk(lp):
            if y.get("kind") == "BinaryOperator" and y.get("opcode") == "=":
                t = strip(y["inner"][0])
                if t.get("kind") == "MemberExpr" and t.get("name") == member:
                    ks.append(k); break
    def size(k):
        b, e = A.src_range_text(lps[k]); return -(e - b)
    return sorted(ks, key=size)


def unit_setup_surface(twin=False):
    """setup_surface, one site type (one entry of a component's totals whose master is a surface master not yet in the model):
    * one SURFACE (site balance) unknown whose amount is the sites defined, bound to the site's master species;
    * diffuse layer / constant capacitance: ONE charge unknown (type SURFACE_CB) per charge component - created with the first site
      type of the component, shared (potential_unknown link only) by the later ones - carrying the charge record's name, grams and water;
    * CD-MUSIC: three charge unknowns SURFACE_CB, SURFACE_CB1, SURFACE_CB2 for planes 0, 1, 2, linked as potential_unknown,
      potential_unknown1, potential_unknown2, each created once per charge component; the site unknown joins comp_unknowns of plane 0;
    * no electrostatics: no charge unknown."""
    q = "Phreeqc::setup_surface"
    fn0 = A.find_function(PREP, q)
    r = U.new_unit("C20.setup_surface.site_and_charge_unknowns_per_model", PREP, q, fn0)
    ks = _nested_loops_storing(fn0, "type")
    if len(ks) != 3:
        raise Undecided("setup_surface: expected components loop > totals loop > plane loop around the stores to ->type, found %r" % ks)
    k_tot, k_plane = ks[1], ks[2]
    ev = surface_enums(ctx())
    SURFACE, CB = int(K("SURFACE")), [int(K("SURFACE_CB")), int(K("SURFACE_CB1")), int(K("SURFACE_CB2"))]
    PL = [int(K(c_)) for c_ in PLANES]
    SURF = KI("SURF")
    seen = set()
    for model in ("DDL", "CCM", "CD_MUSIC", "NO_EDL"):
        c = ctx(functional={"Get_surface_ptr", "Get_totals", "element_store", "find_surface_charge_unknown", "Find_charge", "Get_charge_name", "string_hsave",
                            "Get_formula", "Get_name", "Get_surface_comps"})
        surface_enums(c)
        inline_accessors(c, SURFCHARGE_TU, "cxxSurfaceCharge", CHARGE_ACCESSORS)
        vector_push_back_values(c, "std::vector<master *", "P")
        vector_push_back_values(c, "std::vector<unknown *", "P")
        vector_assign_single(c, "std::vector<master *>", "P")
        c.handlers["cxxSurface::Get_type"] = lambda ex, st, n, name, recv, args, v=ev[model]: [(st, tm.num(v, "I"))]
        f, ex, its, inf = U.run_loop_isolated(PREP, q, k_tot, ctx=c, inner_modes={k_plane: "unroll"})
        for s in live(its, ("run", "cont")):
            wt = writes(s, ("f", "type", "I"))
            errs = [e for e in U.iter_events(s) if e.name.split("::")[-1] in ("error_msg", "warning_msg")]
            n0 = fld0(ex, s, "count_unknowns", "I")
            n1 = fld(ex, s, "count_unknowns", "I")
            xd = tm.select(entry_arr(ex, s, ("f", "#vdata", "P")), tm.app("fld:x", (THIS,), "P"))
            X = lambda k: tm.select(entry_arr(ex, s, ("m", "P")), xd, n0 + tm.num(k, "I") if k else n0)
            es = [e for e in U.iter_events(s) if e.name.split("::")[-1] == "element_store"]
            if not es:
                continue
            site_master = fld0(ex, s, "master", "P", es[0].result)
            hy = list(s.pc)
            # separation: x[] holds distinct unknown records; every std::vector owns its own element block
            xs = [X(k) for k in range(4)]
            vd = lambda a: tm.select(entry_arr(ex, s, ("f", "#vdata", "P")), a)
            blocks = [vd(tm.app("fld:master", (u,), "P")) for u in xs] + [xd] + sorted({vd(e.recv) for e in U.iter_events(s) if e.name == "vector.push_back"}, key=repr)
            blocks = list(dict.fromkeys(blocks))
            for grp in (xs, blocks):
                for a_ in range(len(grp)):
                    for b_ in range(a_ + 1, len(grp)):
                        if grp[a_] is not grp[b_]:
                            hy.append(tm.not_(tm.eq(grp[a_], grp[b_])))
            if not wt:
                # nothing created: no master, not a surface master, or defined twice
                seen.add("skipped")
                skip = tm.or_(tm.eq(site_master, tm.NULL), tm.not_(tm.eq(fld0(ex, s, "type", "I", site_master), SURF)), tm.not_(tm.eq(fld0(ex, s, "in", "I", site_master), tm.num(0, "I"))))
                U.discharge_valid(r, "%s.no_unknown_only_for_non_surface_or_repeated_masters" % model, hy, skip)
                U.discharge_valid(r, "%s.skipped:count_unchanged" % model, hy, tm.eq(n1, n0))
                continue
            if errs:
                seen.add("error")          # charge record missing: input error raised
                continue
            # (0) unknowns are created only for a surface master species that is not yet in the model
            U.discharge_valid(r, "%s.created_only_for_a_surface_master_not_yet_in_the_model" % model, list(s.pc),
                              tm.and_(tm.not_(tm.eq(site_master, tm.NULL)), tm.eq(fld0(ex, s, "type", "I", site_master), SURF), tm.eq(fld0(ex, s, "in", "I", site_master), tm.num(0, "I"))))
            # (1) the site balance unknown
            fin = lambda name, so, obj: fld(ex, s, name, so, obj)
            tot = tm.select(entry_arr(ex, s, ("f", "second", "R")), tm.app("mnode", (tm.sym("iter_" + induction_name(loops_of(fn0)[k_tot]), "P"),), "P"))
            bs = [e.result for e in U.iter_events(s) if e.name.split("::")[-1] == "master_bsearch"]
            ms = list(dict.fromkeys([site_master] + bs))
            hy = hy + [tm.not_(tm.eq(ms[a_], ms[b_])) for a_ in range(len(ms)) for b_ in range(a_ + 1, len(ms))]      # site master and the potential masters of the planes are different records
            U.discharge_valid(r, "%s.site_unknown.type==SURFACE,number==its_index" % model, hy, tm.and_(tm.eq(fin("type", "I", X(0)), tm.num(SURFACE, "I")), tm.eq(fin("number", "I", X(0)), n0)))
            U.discharge_valid(r, "%s.site_unknown.moles==sites_defined_for_the_site_type(total of the component)" % model, hy, tm.eq(fin("moles", "R", X(0)), tot))
            m0 = tm.select(ex.heap_arr(s, ("m", "P")), tm.select(ex.heap_arr(s, ("f", "#vdata", "P")), tm.app("fld:master", (X(0),), "P")), tm.num(0, "I"))
            U.discharge_valid(r, "%s.site_unknown.bound_to_the_site's_master_species_both_ways" % model, hy, tm.and_(tm.eq(m0, site_master), tm.eq(fin("unknown", "P", site_master), X(0)), tm.eq(fin("in", "I", site_master), tm.num(1, "I"))))
            created = [(ix[0], v) for ix, v in wt if ix[0] is not X(0)]
            kinds = sorted(int(v.args[0]) for _, v in created if tm.isnum(v))
            fscu = [e for e in U.iter_events(s) if e.name.split("::")[-1] == "find_surface_charge_unknown"]
            if model == "NO_EDL":
                seen.add("no_edl")
                r.add("NO_EDL.no_charge_unknown", DISCHARGED if not created and n1 is (n0 + tm.num(1, "I")) else FAILED, "symex", 0, repr(kinds))
                continue
            planes = PL[:1] if model in ("DDL", "CCM") else PL
            links = ["potential_unknown", "potential_unknown1", "potential_unknown2"]
            want_new = 0
            for p, code in enumerate(planes):
                look = [e for e in fscu if tm.isnum(e.args[-1]) and int(e.args[-1].args[0]) == code]
                if not look:
                    r.add("%s.plane%d.existing_charge_unknown_looked_up" % (model, p), FAILED, "symex", 0, ""); continue
                found = look[0].result
                link = fin(links[p] if not (twin and p == 1) else links[2], "P", X(0))
                for h, ex_ in cases(hy, tm.not_(tm.eq(found, tm.NULL))):
                    if ex_:
                        seen.add("%s.shared" % model)
                        U.discharge_valid(r, "%s.plane%d.charge_component_already_has_its_unknown:linked,not_duplicated" % (model, p), h, tm.eq(link, found))
                    else:
                        seen.add("%s.created" % model)
                        want_new += 1
                        U_ = X(want_new)
                        U.discharge_valid(r, "%s.plane%d.new_unknown_of_type_%s_linked_as_%s" % (model, p, ("SURFACE_CB", "SURFACE_CB1", "SURFACE_CB2")[p], links[p]), h,
                                          tm.and_(tm.eq(link, U_), tm.eq(fin("type", "I", U_), tm.num(CB[p], "I"))))
                        chs = [e.result for e in U.iter_events(s) if e.name.split("::")[-1] == "Find_charge"]
                        cn = [e for e in U.iter_events(s) if e.name.split("::")[-1] == "Get_charge_name"]
                        okc = bool(chs) and bool(cn) and all(any(cn[0].result in tm.subterms(a) for a in e.args) for e in U.iter_events(s) if e.name.split("::")[-1] == "Find_charge")
                        r.add("%s.plane%d.charge_record_is_the_component's(Get_charge_name)" % (model, p), DISCHARGED if okc else FAILED, "symex", 0, "")
                        if chs:
                            ch = chs[0]
                            U.discharge_valid(r, "%s.plane%d.carries_grams_and_water_of_the_charge_record,moles==0" % (model, p), h,
                                              tm.and_(tm.eq(fin("related_moles", "R", U_), fld0(ex, s, "grams", "R", ch)), tm.eq(fin("mass_water", "R", U_), fld0(ex, s, "mass_water", "R", ch)),
                                                      tm.eq(fin("moles", "R", U_), tm.num(0))))
                            nm = [e for e in U.iter_events(s) if e.name.split("::")[-1] == "Get_name" and e.recv is ch]
                            sc = fin("surface_charge", "P", U_)
                            saves = [e.result for e in U.iter_events(s) if e.name.split("::")[-1] == "string_hsave" and nm and any(nm[0].result in tm.subterms(a) for a in e.args)]
                            U.discharge_valid(r, "%s.plane%d.named_after_the_charge_record" % (model, p), h, tm.or_(*[tm.eq(sc, v_) for v_ in saves]) if saves else tm.FALSE)
                        mu = tm.select(ex.heap_arr(s, ("m", "P")), tm.select(ex.heap_arr(s, ("f", "#vdata", "P")), tm.app("fld:master", (U_,), "P")), tm.num(0, "I"))
                        U.discharge_valid(r, "%s.plane%d.bound_to_a_potential_master_both_ways" % (model, p), h,
                                          tm.and_(tm.or_(*[tm.eq(mu, b_) for b_ in bs]) if bs else tm.FALSE, tm.eq(fin("unknown", "P", mu), U_), tm.eq(fin("in", "I", mu), tm.num(1, "I"))))
                        U.discharge_valid(r, "%s.plane%d.same_surface_component_as_the_site_unknown" % (model, p), h, tm.eq(fin("surface_comp", "P", U_), fin("surface_comp", "P", X(0))))
            # exactly the site unknown plus the created charge unknowns are consumed
            if all(proves(hy, tm.eq(e.result, tm.NULL)) or proves(hy, tm.not_(tm.eq(e.result, tm.NULL))) for e in fscu):
                r.add("%s.count_unknowns_advances_by_1+created" % model, DISCHARGED if proves(hy, tm.eq(n1, n0 + tm.num(1 + want_new, "I"))) and len(created) == want_new else FAILED, "symex", 0, "created %r" % kinds)
            if model == "CD_MUSIC":
                pb = [e for e in U.iter_events(s) if e.name == "vector.push_back" and e.recv.op == "app" and e.recv.args[0] == "fld:comp_unknowns"]
                ok = len(pb) == 1 and any(e.result is pb[0].recv.args[1] and tm.isnum(e.args[-1]) and int(e.args[-1].args[0]) == PL[0] for e in fscu)
                r.add("CD_MUSIC.one_entry_joins_comp_unknowns_of_the_plane0_unknown", DISCHARGED if ok else FAILED, "symex", 0, repr(pb)[:200])
                if pb:
                    # (the engine passes a by-reference argument either as the element's value or as the element's address)
                    U.discharge_valid(r, "CD_MUSIC.that_entry_is_the_site_unknown", hy, tm.or_(tm.eq(pb[0].args[-1], X(0)), tm.eq(pb[0].args[-1], xd + n0)))
    want = {"skipped", "no_edl", "DDL.shared", "DDL.created", "CCM.shared", "CCM.created", "CD_MUSIC.shared", "CD_MUSIC.created"}
    r.add("reach.all_models_created_and_shared", DISCHARGED if want <= seen else UNDECIDED, "symex", 0, repr(sorted(want - seen)), kind="vacuity")
    r.assumptions += ["element_store / find_surface_charge_unknown / Find_charge / string_hsave are deterministic look-ups; each master_bsearch call returns some master record (distinct calls: distinct records); the NAMES built with replace(\"_CB\", \"_psi\") etc. are not modelled "
                      "(which potential master master_bsearch returns, and that find_surface_charge_unknown finds the unknown created here for the next site type, rest on the naming convention)",
                      "std::vector<master*> assignment from the one-element list copies that element", "the related-phase / related-kinetics consistency checks at the end of setup_surface are not under this contract",
                      "after the plane loop of CD-MUSIC the plane-0 unknown is looked up again (it exists by then)"]
    return r
