"""C17 extension 2: the hosts of USER_PRINT / USER_PUNCH programs in print.cpp and the readers that collect the program text of RATES /
USER_PRINT / USER_PUNCH / CALCULATE_VALUES blocks (read.cpp, isotopes.cpp)."""
from props.c17_ext_model import *
from props.c17_ext_loops import pv

PR = "src/phreeqcpp/print.cpp"
RD = "src/phreeqcpp/read.cpp"
ISO = "src/phreeqcpp/isotopes.cpp"
GS = "src/phreeqcpp/global_structures.h"


def hctx():
    c = stop_on_error_msg(ctx(functional=("Get_kinetics_in", "Get_kinetics_ptr", "Get_user_punch", "Get_rate", "c_str", "size")))
    return c


def _short(e):
    return e.name.split("::")[-1]


def _host(r, rel, q, tag, rec_of, twin=False, column_reset=False, kinetics_bracket=False):
    f, ex, fin, info = U.run_function(rel, q, ctx=hctx())
    n = {"new": 0, "old": 0, "skip": 0, "fatal": 0}
    for s in live(fin, ("ret", "throw")):
        E = list(s.events)
        runs = [e for e in E if _short(e) == "basic_run"]
        comps = [e for e in E if _short(e) == "basic_compile"]
        hy = list(s.pc)
        if column_reset:
            U.discharge_valid(r, "%s.output_column_index_starts_at_0_on_every_path" % tag, hy, tm.eq(fld(ex, s, "n_user_punch_index", "I") if not runs and not comps else _first_write(s, "n_user_punch_index", ex), tm.num(0, "I")))
        if not runs and not comps:
            n["skip"] += 1
            ok(r, "%s.nothing_is_run_and_nothing_compiled_when_the_program_is_switched_off_or_absent" % tag, s.status == "ret", s.status)
            continue
        rec = rec_of(ex, s, info)
        if rec is None:
            ok(r, "%s.program_record_identified" % tag, False, ""); continue
        newdef = tm.eq(fld0(ex, s, "new_def", "I", rec), tm.num(1, "I"))
        for hy2, nd in cases(hy, newdef):
            if nd:
                n["new"] += 1
                good = len(comps) == 1 and (not runs or E.index(comps[0]) < E.index(runs[0]))
                ok(r, "%s.new_definition_is_compiled_once_before_it_runs" % tag, good, "%d compile(s)" % len(comps))
                if good:
                    a = comps[0].args
                    want = [tm.app("fld:" + k, (rec,), "P") for k in ("linebase", "varbase", "loopbase")]
                    if twin:
                        want = [want[0], want[2], want[1]]
                    ok(r, "%s.compiled_into_the_record's_own_three_bases(lines,variables,loops_in_this_order)" % tag, len(a) == 4 and all(a[i + 1] is want[i] for i in range(3)), "%s" % (a[1:],))
                    ok(r, "%s.compiled_from_the_record's_command_text" % tag, "commands" in repr(a[0]) and repr(rec) in repr(a[0]), repr(a[0])[:160])
                    if runs:
                        U.discharge_valid(r, "%s.a_program_that_compiled_is_marked_compiled_and_runs_only_after_a_clean_compile" % tag, hy2, tm.and_(tm.eq(comps[0].result, tm.num(0, "I")), tm.eq(fld(ex, s, "new_def", "I", rec) if s.status == "ret" else tm.num(0, "I"), tm.num(0, "I"))))
            else:
                n["old"] += 1
                ok(r, "%s.compiled_program_is_not_compiled_again" % tag, not comps, "%d compile(s)" % len(comps))
        if runs:
            a = runs[0].args
            base = lambda k: tm.select(_arr_at(ex, s, ("f", k, "P"), runs[0]), rec)
            ok(r, "%s.exactly_one_run" % tag, len(runs) == 1, "%d" % len(runs))
            ok(r, "%s.runs_the_record's_own_three_bases(lines,variables,loops_in_this_order)" % tag, len(a) == 4 and all((".%s:P" % k) in repr(a[i + 1]) and repr(rec) in repr(a[i + 1]) and not any((".%s:P" % o) in repr(a[i + 1]) for o in ("linebase", "varbase", "loopbase") if o != k)
                                                                                                     for i, k in enumerate(("linebase", "varbase", "loopbase"))), "%s" % (a[1:],))
            ok(r, "%s.the_command_executed_is_run" % tag, any(_short(e).startswith("ctor") and e.args and e.args[-1].op == "str" and e.args[-1].args[0] == '"run"' and e.recv is a[0] for e in E), repr(a[0]))
        failed_call = [e for e in comps + runs]
        if s.status == "throw":
            n["fatal"] += 1
            em = [e for e in E if _short(e) == "error_msg"]
            last = failed_call[-1]
            U.discharge_valid(r, "%s.fatal_error_only_when_compile_or_run_reported_a_BASIC_error" % tag, hy, tm.not_(tm.eq(last.result, tm.num(0, "I"))))
            ok(r, "%s.fatal_error_stops_the_run" % tag, len(em) == 1, "")
        else:
            for e in failed_call:
                U.discharge_valid(r, "%s.returns_normally_only_when_compile_and_run_reported_no_error" % tag, hy, tm.eq(e.result, tm.num(0, "I")))
            if kinetics_bracket:
                gk = [e for e in E if _short(e) == "Get_kinetics_ptr"]
                sk = [e for e in E if _short(e) == "Set_kinetics_ptr"]
                kin = tm.eq(tm.to_int(tm.app("call:Get_kinetics_in", (tm.app("fld:use", (THIS,), "P"),), "B")), tm.num(1, "I"))
                if sk:
                    ok(r, "%s.kinetics_pointer_switched_for_the_run_is_put_back_afterwards" % tag, len(gk) == 1 and sk[-1].args[0] is gk[0].result and E.index(sk[-1]) > E.index(runs[0]) and len(sk) == 2, "%s" % [e.args for e in sk])
                ok(r, "%s.line_feed_switch_is_on_again_after_the_program" % tag, any(_short(e) == "Set_output_newline" and e.args[0] is tm.TRUE and E.index(e) > E.index(runs[0]) for e in E), "")
    reach(r, "%s.reach(new,compiled,skipped,fatal)" % tag, min(n.values()))


def _first_write(s, name, ex):
    w = writes(s, ("f", name, "I"))
    return w[0][1] if w else fld(ex, s, name, "I")


def _arr_at(ex, s, key, event):
    return ex.heap_arr(s, key)


def unit_hosts(twin=False):
    """print_user_print / punch_user_punch: nothing is compiled or run when the block is switched off or absent; a NEW definition is
    compiled exactly once, before the run, from the record's command text into the record's OWN three bases (lines, variables, loop
    stack - each into its own slot) and then marked compiled; the run executes `run` on those same three bases in the same order; a BASIC
    error from compile or run is a fatal error that stops the calculation (never a silently wrong table), no error -> normal return;
    USER_PUNCH starts each row at output column 0; USER_PRINT puts the kinetics pointer it switched back and re-arms the line feed."""
    fn = A.find_function(PR, "Phreeqc::print_user_print")
    r = U.new_unit("C17.user_print_user_punch.new_program_compiled_once_then_run_on_its_own_three_bases", PR, "Phreeqc::print_user_print", fn)
    _host(r, PR, "Phreeqc::print_user_print", "USER_PRINT", lambda ex, s, info: fld0(ex, s, "user_print", "P"), twin=twin, kinetics_bracket=True)
    def rec_punch(ex, s, info):
        v = s.locals.get(info["names"]["user_punch"])
        return v if isinstance(v, tm.T) else None
    _host(r, PR, "Phreeqc::punch_user_punch", "USER_PUNCH", rec_punch, twin=False, column_reset=True)
    r.assumptions += ["basic_compile / basic_run: units C17.basic_compile..., C17.basic_run... (result 0: no error)", "error_msg(text, STOP) ends the run", "cxxUse getters are functions of the use record; the run does not change whether kinetics is in use",
                      "punch_user_graph is not compiled in this build (neither PHREEQ98 nor MULTICHART) and is not under contract"]
    return r


# ------------------------------------------------------------------------------------------------------------------ readers
def _opts():
    from vf.astvc import hdr
    return {k: int(hdr.define_value(GS, k)) for k in ("OPTION_EOF", "OPTION_KEYWORD", "OPTION_ERROR", "OPTION_DEFAULT", "OPT_1")}


READERS = [
    # (file, function, tag, first unkeyed line is a command?, -start makes the following lines commands?)
    (RD, "Phreeqc::read_rates", "RATES", False, True),
    (RD, "Phreeqc::read_user_print", "USER_PRINT", True, False),
    (RD, "Phreeqc::read_user_punch", "USER_PUNCH", True, False),
    (ISO, "Phreeqc::read_calculate_values", "CALCULATE_VALUES", False, True),
]


def _reader(r, rel, q, tag, first_is_command, start_opens, O, twin=False):
    fn = A.find_function(rel, q)
    lps = [x for x in A.walk(fn) if x.get("kind") in ("ForStmt", "WhileStmt", "DoStmt")]
    main = [k for k, l in enumerate(lps) if any(y.get("kind") in ("CXXMemberCallExpr", "CallExpr") and text_of(rel, y).startswith("get_option(") for y in A.walk(l))]
    if len(main) != 1:
        raise Undecided("%s: the option loop was not found" % q)
    c = stop_on_error_msg(ctx(functional=("c_str",)))
    f, ex, its, info = U.run_loop_isolated(rel, q, main[0], ctx=c)
    OS0 = tm.sym("iter_opt_save", "I")
    n = {"command": 0, "define": 0, "start": 0, "end": 0, "stop": 0}
    D, C1 = tm.num(O["OPTION_DEFAULT"], "I"), tm.num(O["OPT_1"], "I")
    for s in live(its, ("run", "cont", "brk")):
        E = list(U.iter_events(s))
        go = [e for e in E if _short(e) == "get_option"]
        if not ok(r, "%s.one_input_line_per_pass" % tag, len(go) == 1, "%d" % len(go)):
            continue
        ret = go[0].result
        eff = tm.ite(tm.eq(ret, D), OS0, ret)
        hy = list(s.pc)
        ap = [e for e in E if _short(e) == "append"]
        cl = [e for e in E if _short(e) == "clear" and "commands" in repr(e.recv)]
        os1 = local(info, s, "opt_save")
        W = U.iter_writes(s)
        nd = [(ix, v) for k, ix, v in W if k == ("f", "new_def", "I")]
        defw = [(k[1], ix, v) for k, ix, v in W if k[0] == "f" and k[1] in ("new_def", "linebase", "varbase", "loopbase")]
        if ap:
            n["command"] += 1
            recv = ap[0].recv
            good = len(ap) == 2 and ap[1].recv is recv and "fld:commands(" in repr(recv) and ap[0].args[0].op == "str" and ap[0].args[0].args[0].startswith('";') and "line:P" in repr(ap[1].args[0]) and "line_save" not in repr(ap[1].args[0])
            if twin:
                good = good and ap[0].args[0].args[0].startswith('"\\n')
            ok(r, "%s.command_line_is_appended_to_the_program_text_behind_one_separator(;)_in_reading_order" % tag, good, "%s" % [(repr(e.recv)[:60], e.args) for e in ap])
            allowed = tm.or_(tm.eq(eff, C1), tm.eq(eff, D)) if first_is_command else tm.eq(eff, C1)
            U.discharge_valid(r, "%s.text_is_appended_only_for_a_command_line" % tag, hy, allowed)
            U.discharge_valid(r, "%s.the_next_unkeyed_line_is_a_command_line_too" % tag, hy, tm.eq(os1, C1))
        else:
            # no text appended: then this was no command line of a program being defined
            rec_known = [p for p in s.pc if "rate_ptr" in repr(p) or "calculate_value_ptr" in repr(p)]
            if not rec_known:
                U.discharge_valid(r, "%s.every_command_line_is_appended" % tag, hy, tm.not_(tm.eq(eff, C1)) if not first_is_command else tm.and_(tm.not_(tm.eq(eff, C1)), tm.not_(tm.eq(eff, D))))
            else:
                ok(r, "%s.command_line_without_a_program_being_defined_is_an_input_error" % tag, any(_short(e) == "error_msg" for e in E) and any(k == ("f", "input_error", "I") for k, ix, v in W), "")
        if defw:
            n["define"] += 1
            rec = defw[0][1][0]
            U.discharge_valid(r, "%s.a_definition_starts_only_at_an_unkeyed_line_outside_a_command_list" % tag, hy, tm.eq(eff, D))
            bases = {k[1]: v for k, ix, v in W if k[0] == "f" and k[1] in ("linebase", "varbase", "loopbase") and ix[0] is rec}
            ok(r, "%s.new_definition_is_marked_new_with_its_three_bases_empty" % tag, len(nd) == 1 and nd[0][0][0] is rec and nd[0][1] is tm.num(1, "I") and len(bases) == 3 and all(v is NULLP for v in bases.values()), "%s %s" % (nd, bases))
            mine = [e for e in cl if repr(rec) in repr(e.recv)]
            ok(r, "%s.program_text_of_a_new_definition_starts_empty(cleared_before_anything_is_appended)" % tag, len(mine) >= 1 and (not ap or E.index(mine[0]) < E.index(ap[0])), "%s" % cl)
            if ap:
                ok(r, "%s.the_first_command_goes_to_the_record_being_defined" % tag, repr(rec) in repr(ap[0].recv), "")
        elif cl and first_is_command:
            n["define"] += 1
            U.discharge_valid(r, "%s.program_text_is_cleared_only_at_the_first_command_of_a_block" % tag, hy, tm.eq(eff, D))
            ok(r, "%s.program_text_is_cleared_before_the_first_command_is_appended" % tag, bool(ap) and E.index(cl[0]) < E.index(ap[0]) and cl[0].recv is ap[0].recv, "%s" % cl)
        elif cl:
            ok(r, "%s.program_text_is_cleared_only_when_a_definition_starts" % tag, False, "%s" % cl)
        # -start / -end
        for hy2, st_ in cases(hy, tm.eq(eff, tm.num(0, "I"))):
            if st_:
                n["start"] += 1
                U.discharge_valid(r, "%s.-start:the_following_unkeyed_lines_are_%s" % (tag, "commands" if start_opens else "read_as_before"), hy2, tm.eq(os1, C1 if start_opens else D))
        for hy2, en in cases(hy, tm.eq(eff, tm.num(1, "I"))):
            if en:
                n["end"] += 1
                U.discharge_valid(r, "%s.-end:the_command_list_is_closed" % tag, hy2, tm.eq(os1, D))
        # leaving
        rv = local(info, s, "return_value") if "return_value" in info["names"] else None
        if rv is not None:
            stop = tm.or_(tm.eq(eff, tm.num(O["OPTION_EOF"], "I")), tm.eq(eff, tm.num(O["OPTION_KEYWORD"], "I")))
            for hy2, st_ in cases(hy, stop):
                if st_:
                    n["stop"] += 1
                    ok(r, "%s.end_of_input_or_the_next_keyword_ends_the_block" % tag, s.status == "brk" and not ap, s.status)
    if "return_value" not in info["names"]:
        n["stop"] = 1
    reach(r, "%s.reach(command,definition,-start,-end,stop)" % tag, min(n.values()))


def unit_readers(twin=False):
    """The readers of BASIC program text (RATES, USER_PRINT, USER_PUNCH, CALCULATE_VALUES), one input line per pass: a command line is
    appended to the record's program text behind ONE statement separator `;`, in reading order, and the next unkeyed line is again a
    command line; text is appended for command lines only; a new definition (an unkeyed line outside a command list) is marked new_def with
    empty line / variable / loop bases and an empty program text before its first command; -start / -end open / close the command list
    (RATES, CALCULATE_VALUES) or leave the reading mode alone (USER_PRINT, USER_PUNCH); end of input or the next keyword ends the block."""
    fn = A.find_function(RD, "Phreeqc::read_rates")
    r = U.new_unit("C17.read_basic_blocks.command_lines_are_appended_in_order_and_a_new_definition_is_marked_new", RD, "Phreeqc::read_rates", fn)
    O = _opts()
    for k, (rel, q, tag, first, opens) in enumerate(READERS):
        _reader(r, rel, q, tag, first, opens, O, twin=(twin and k == 0))
    # USER_PUNCH prepares its record before the loop
    c = stop_on_error_msg(ctx())
    q = "Phreeqc::read_user_punch"
    f, ex, fin, info = U.run_function(RD, q, ctx=c, default="skip", modes={})
    k = 0
    for s in live(fin, ("ret",))[:4]:
        k += 1
        nw = [e for e in s.events if e.name.startswith("new ") and "rate" in e.name]
        if not ok(r, "USER_PUNCH.a_fresh_program_record_is_made_for_the_block", len(nw) == 1, "%s" % [e.name for e in s.events][:8]):
            continue
        rec = nw[0].result
        pv(r, "USER_PUNCH.fresh_record_is_marked_new_with_its_three_bases_empty", s, tm.and_(tm.eq(fld(ex, s, "new_def", "I", rec), tm.num(1, "I")), *[tm.eq(fld(ex, s, b, "P", rec), NULLP) for b in ("linebase", "varbase", "loopbase")]))
        sr = [e for e in s.events if _short(e) == "Set_rate"]
        ok(r, "USER_PUNCH.the_record_is_stored_with_the_block's_user_number", len(sr) == 1 and sr[0].args[0] is rec, "%s" % sr)
    reach(r, "USER_PUNCH.reach(record_setup)", k)
    r.assumptions += ["get_option classifies one input line (OPTION_DEFAULT: an unkeyed line; 0 / 1: -start / -end); `line` is the text of that line", "std::string::append appends its argument; \";\\0\" is the one-character string `;`",
                      "sget_logical_line splits the program text at `;` (this module: unit C17.basic_compile... line loop)", "the surrounding keyword loop of read_input is not under contract"]
    return r


UNITS = [
    ("C17.user_print_user_punch.new_program_compiled_once_then_run_on_its_own_three_bases", unit_hosts),
    ("C17.read_basic_blocks.command_lines_are_appended_in_order_and_a_new_definition_is_marked_new", unit_readers),
]
