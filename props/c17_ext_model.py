"""C17 extension: shared model of the BASIC interpreter's helper routines (their contracts as used by the statement units)
and small wrappers around the Engine-B executor.

Callee contracts used by the statement units (each is either verified by its own unit in c17_ext_helpers or listed as an assumption):
  iseos(LINK)        == (LINK->t == NULL || LINK->t->kind == tokelse || LINK->t->kind == tokcolon)          [unit C17.iseos]
  require(k, LINK)   : LINK->t != NULL and LINK->t->kind == k  ->  LINK->t := LINK->t->next ; otherwise a BASIC error   [unit C17.require]
  skiptoeos(LINK)    : LINK->t := the first end-of-statement position at or after LINK->t                        [unit C17.skiptoeos]
  realexpr / intexpr / strexpr / expr / findvar / stringexpr : consume tokens (LINK->t becomes a new position), return an arbitrary
                       value, may re-point the element pointers (val / sval) of array variables, assign no BASIC variable     [assumption]
  snerr / errormsg / tmerr / badsubscr : report a BASIC error and do not return                                   [assumption]
  mustfindline(n)    : the line record numbered n (a function of n and the stored program), error if there is none [unit C17.findline]
"""
import re, os, itertools
from props.common import *
from vf.core import FAILED, DISCHARGED, UNDECIDED, REPO
from vf.astvc import symex as SX

PB = "src/phreeqcpp/PBasic.cpp"
PH = "src/phreeqcpp/PBasic.h"
_cnt = itertools.count()
_TOK = {}


def tokens():
    """name -> compiled value of every enumerator of PBasic::BASIC_TOKEN"""
    if not _TOK:
        h = open(os.path.join(REPO, PH), encoding="latin1").read()
        m = re.search(r"enum\s+BASIC_TOKEN\s*\{(.*?)\}", h, re.S)
        if not m:
            raise Undecided("enum BASIC_TOKEN not found in PBasic.h")
        body = re.sub(r"/\*.*?\*/", "", m.group(1), flags=re.S)
        body = re.sub(r"//[^\n]*", "", body)
        names = [x.strip().split("=")[0].strip() for x in body.split(",") if x.strip()]
        if len(names) < 100 or any(not re.match(r"^tok\w+$", x) for x in names):
            raise Undecided("enum BASIC_TOKEN: unexpected enumerator list")
        ev = A.enum_values_compiled("PBasic.h", ["PBasic::" + x for x in names])
        _TOK.update({k.split("::")[-1]: v for k, v in ev.items()})
    return _TOK


def tk(name):
    v = tokens().get(name)
    if v is None:
        raise Undecided("token %s not in BASIC_TOKEN" % name)
    return tm.num(v, "I")


def define(name):
    from vf.astvc import hdr
    return hdr.define_value(PH, name)


ZI = tm.num(0, "I")
NULLP = tm.num(0, "P")


def fresh(prefix, sort):
    return tm.sym("%s!x%d" % (prefix, next(_cnt)), sort)


def arr0(key):
    """memory component in the entry state of a whole-function / region run"""
    if key[0] == "f":
        return tm.sym("H0.%s:%s" % (key[1], key[2]), ("A", "P", key[2]))
    return tm.sym("H0.mem:%s" % (key[1],), ("A", "P", "I", key[1]))


def F(ex, s, name, sort, obj):
    return tm.select(ex.heap_arr(s, ("f", name, sort)), obj)


def F0(name, sort, obj):
    return tm.select(arr0(("f", name, sort)), obj)


def U0(p):
    return tm.app("fld:U0", (tm.app("fld:UU", (p,), "P"),), "P")


def U1(p):
    return tm.app("fld:U1", (tm.app("fld:UU", (p,), "P"),), "P")


def UUo(p):
    return tm.app("fld:UU", (p,), "P")


def is_eos_at(ex, s, t):
    kind = F(ex, s, "kind", "I", t)
    return tm.or_(tm.eq(t, NULLP), tm.eq(kind, tk("tokelse")), tm.eq(kind, tk("tokcolon")))


def cur_t(ex, s, link):
    return F(ex, s, "t", "P", link)


PARSERS = ("realexpr", "intexpr", "strexpr", "expr", "findvar", "stringexpr", "realfactor", "intfactor", "strfactor", "factor")
THROWERS = ("snerr", "errormsg", "tmerr", "badsubscr")
LOOPREC_FIELDS = [("next", "P", None), ("homeline", "P", None), ("hometok", "P", None), ("kind", "I", None), ("vp", "P", "U0"), ("max", "R", "U0"), ("step", "R", "U0")]


class PEvent(SX.Event):
    __slots__ = ("val_arr", "sval_arr")


def mkctx(parsers_move=True, repoint=True, extra_functional=()):
    c = SX.Ctx(); c.stl = STLM.STL(SX); c.stl.check_bounds = False
    c.pure = AllPure()
    c.enum_values.update(tokens())
    c.record_types.update({"valrec", "looprec", "LOC_exec"})
    c.functional.update({"mustfindline", "findline"})
    c.functional.update(extra_functional)

    def thr(ex_, st, n, name, recv, args):
        st.events.append(SX.Event(name, recv, args, ZI, n))
        st.status = "throw"
        return [(st, ZI)]
    for k in THROWERS:
        c.handlers["PBasic::" + k] = thr

    def h_iseos(ex_, st, n, name, recv, args):
        t = cur_t(ex_, st, args[0])
        st.events.append(SX.Event(name, recv, list(args) + [t], ZI, n))
        return [(st, is_eos_at(ex_, st, t))]
    c.handlers["PBasic::iseos"] = h_iseos

    def h_require(ex_, st, n, name, recv, args):
        k, link = args
        t = cur_t(ex_, st, link)
        ok = tm.and_(tm.not_(tm.eq(t, NULLP)), tm.eq(F(ex_, st, "kind", "I", t), k))
        bad, good = st.clone(), st
        out = []
        if bad.assume(tm.not_(ok)):
            bad.events.append(SX.Event("PBasic::snerr", recv, [tm.strc("missing token"), k], ZI, n))
            bad.status = "throw"
            out.append((bad, ZI))
        if good.assume(ok):
            good.events.append(SX.Event(name, recv, [k, link, t], ZI, n))
            ex_.store(good, ("field", "t", link), F(ex_, good, "next", "P", t), "P")
            out.append((good, ZI))
        return out
    c.handlers["PBasic::require"] = h_require

    def h_skiptoeos(ex_, st, n, name, recv, args):
        link = args[0]
        t = cur_t(ex_, st, link)
        t2 = fresh("eos", "P")
        st.events.append(SX.Event(name, recv, [link, t], t2, n))
        ex_.store(st, ("field", "t", link), t2, "P")
        st.assume(is_eos_at(ex_, st, t2))
        return [(st, ZI)]
    c.handlers["PBasic::skiptoeos"] = h_skiptoeos

    def h_skiploop(ex_, st, n, name, recv, args):
        """contract of skiploop(up, dn): true -> the position is right behind the matching `dn` token (possibly on a later line);
        false -> there is none, the current line is as before (unit C17.skiploop)"""
        up, dn, link = args
        t = cur_t(ex_, st, link)
        sl = F(ex_, st, "stmtline", "P", ex_.ctx.this)
        out = []
        yes, no = st.clone(), st
        e1 = SX.Event(name, recv, [up, dn, link, t, sl], tm.TRUE, n)
        e1.snap = (fresh("tok_after_skiploop", "P"), fresh("line_after_skiploop", "P"))
        yes.events.append(e1)
        ex_.store(yes, ("field", "t", link), e1.snap[0], "P")
        ex_.store(yes, ("field", "stmtline", ex_.ctx.this), e1.snap[1], "P")
        out.append((yes, tm.TRUE))
        e2 = SX.Event(name, recv, [up, dn, link, t, sl], tm.FALSE, n)
        no.events.append(e2)
        ex_.store(no, ("field", "t", link), NULLP, "P")
        out.append((no, tm.FALSE))
        return out
    c.handlers["PBasic::skiploop"] = h_skiploop

    def h_cmdgoto(ex_, st, n, name, recv, args):
        """contract of cmdgoto (unit C17.cmdgoto): current line := the line found by number, rest of the line abandoned, gotoflag set"""
        link = args[0]
        t = cur_t(ex_, st, link)
        e_ = SX.Event(name, recv, list(args) + [t], ZI, n)
        e_.snap = fresh("goto_target_line", "P")
        st.events.append(e_)
        ex_.store(st, ("field", "stmtline", ex_.ctx.this), e_.snap, "P")
        ex_.store(st, ("field", "t", link), NULLP, "P")
        ex_.store(st, ("field", "gotoflag", link), tm.TRUE, "B")
        return [(st, ZI)]
    c.handlers["PBasic::cmdgoto"] = h_cmdgoto

    def parser(short):
        def h(ex_, st, n, name, recv, args):
            link = args[-1]
            t = cur_t(ex_, st, link)
            q = ex_.qt(n)
            if SX.is_record_type(q, ex_.ctx):
                res = fresh("retobj_" + short, "P")
            else:
                res = fresh("ret_" + short, SX.sort_of(q))
            if short == "findvar":
                st.assume(tm.not_(tm.eq(res, NULLP)))
            e_ = PEvent(name, recv, list(args) + [t], res, n)
            e_.snap = fresh("tok_after_" + short, "P") if parsers_move else t       # the token position the call leaves behind
            st.events.append(e_)
            if parsers_move:
                ex_.store(st, ("field", "t", link), e_.snap, "P")
            if repoint:
                for key in (("f", "val", "P"), ("f", "sval", "P")):
                    st.heap[key] = tm.sym("Hx%d.%s:%s" % (next(_cnt), key[1], key[2]), ("A", "P", key[2]))
            e_.val_arr, e_.sval_arr = ex_.heap_arr(st, ("f", "val", "P")), ex_.heap_arr(st, ("f", "sval", "P"))   # element pointers as the call leaves them
            return [(st, res)]
        return h
    for p in PARSERS:
        c.handlers["PBasic::" + p] = parser(p)

    def copy_valrec(ex_, st, n, name, arg_nodes):
        out = []
        for s1, l in ex_.lv(arg_nodes[0], st):
            recv = ex_.address(s1, l)
            for s2, src in ex_.ev(arg_nodes[1], s1):
                ex_.store(s2, ("field", "stringval", recv), ex_.load(s2, ("field", "stringval", src), "B"), "B")
                ex_.store(s2, ("field", "val", UUo(recv)), ex_.load(s2, ("field", "val", UUo(src)), "R"), "R")
                ex_.store(s2, ("field", "sval", UUo(recv)), ex_.load(s2, ("field", "sval", UUo(src)), "P"), "P")
                out.append((s2, recv))
        return out
    c.handlers["valrec::operator="] = copy_valrec

    def copy_looprec(ex_, st, n, name, arg_nodes):
        out = []
        for s1, l in ex_.lv(arg_nodes[0], st):
            dst = ex_.address(s1, l)
            for s2, src in ex_.ev(arg_nodes[1], s1):
                for f, so, sub in LOOPREC_FIELDS:
                    d_, s_ = (U0(dst), U0(src)) if sub else (dst, src)
                    ex_.store(s2, ("field", f, d_), ex_.load(s2, ("field", f, s_), so), so)
                s2.events.append(SX.Event("copy looprec", dst, [src], ZI, n))
                out.append((s2, dst))
        return out
    c.handlers["looprec::operator="] = copy_looprec
    return c


def burn():
    """the engine numbers havocked heaps from a global counter that starts at 0, which is also the tag of the entry heap: move past 0"""
    SX.fresh("c17ext", "I")


def names_of(fn):
    names = {}
    for x in A.walk(fn):
        if x.get("kind") in ("VarDecl", "ParmVarDecl") and "name" in x:
            names.setdefault(x["name"], x["id"])
    return names


class Exec2(SX.Exec):
    """the engine's executor plus `goto L` / `L: stmt` in the one shape p2c leaves behind: a forward jump out of loops to a
    label placed at the end of the function (the state is parked with status 'goto' and s.goto_label = declaration id of L;
    the statement behind the label is executed by the unit that needs it)"""
    def st_GotoStmt(self, n, st):
        st.status = "goto"
        st.goto_label = n.get("targetLabelDeclId")
        return [st]

    def st_LabelStmt(self, n, st):
        return self.exec(n["inner"][-1], [st])


def _clone_keep(st):
    c = SX.State.clone(st)
    return c


def run_fn(q, c, loop=None, pre=None, params=None):
    """whole function from an arbitrary state; `loop(ex, st, node, ordinal) -> states` summarises loops (default: havoc)"""
    fn = A.find_function(PB, q)
    c.loop = loop or (lambda ex, st, n, o: ex.havoc_loop(n, st))
    ex = Exec2(c)
    SX.fresh("c17ext", "I")        # see arbitrary_state
    st = SX.State()
    if pre:
        st.pc = list(pre)
    fin = ex.run(fn, st, params=params)
    return fn, ex, fin, {"names": names_of(fn)}


def arbitrary_state(fn, c):
    """(executor, state) in which every parameter / local of fn is a free symbol L_<name> and the heap is arbitrary"""
    ex = Exec2(c)
    SX.fresh("c17ext", "I")        # the engine numbers havocked heaps from a global counter that starts at 0 = the entry heap's tag: make sure it is past 0
    ex.local_ids = set(); ex.addr_taken = set(); ex.loop_ids = {}
    names = {}
    st = SX.State()
    for x in A.walk(fn):
        k = x.get("kind")
        if k in ("ForStmt", "WhileStmt", "DoStmt"):
            ex.loop_ids[x.get("id")] = len(ex.loop_ids)
        if k == "UnaryOperator" and x.get("opcode") == "&":
            y = x["inner"][0]
            while y.get("kind") == "ParenExpr":
                y = y["inner"][0]
            if y.get("kind") == "DeclRefExpr" and y["referencedDecl"].get("kind") in ("VarDecl", "ParmVarDecl"):
                ex.addr_taken.add(y["referencedDecl"]["id"])
    for x in A.walk(fn):
        if x.get("kind") in ("VarDecl", "ParmVarDecl") and "id" in x:
            ex.local_ids.add(x["id"])
            nm = x.get("name", "_")
            names.setdefault(nm, x["id"])
            qt = x["type"].get("desugaredQualType") or x["type"]["qualType"]
            if qt.strip().endswith("&"):
                st.locals[x["id"]] = ("ref", ("elem", tm.sym("L_%s_ref" % nm, "P"), ZI))
            elif SX.is_record_type(qt, c) or qt.strip().endswith("]") or x["id"] in ex.addr_taken:
                st.locals[x["id"]] = ("obj", tm.sym("&L_%s" % nm, "P"))
            else:
                st.locals[x["id"]] = tm.sym("L_%s" % nm, SX.sort_of(qt))
    return ex, st, names


def run_stmts(q, nodes, c, loop=None, prepare=None):
    """statements of the function (in order) executed from an ARBITRARY state (every local a free symbol L_<name>)"""
    fn = A.find_function(PB, q)
    c.loop = loop or (lambda ex, st, n, o: ex.havoc_loop(n, st))
    ex, st, names = arbitrary_state(fn, c)
    if prepare is not None:
        prepare(ex, st, names)
    states = [st]
    for n in nodes:
        states = ex.exec(n, states)
    return fn, ex, states, {"names": names}


def run_iter(q, ordinal, c, loop=None, prepare=None):
    """iteration contract of loop `ordinal` of q: the body is executed once from an ARBITRARY state in which the loop condition holds
    (engine: iterate_loop); same as U.run_loop_isolated but with the executor that knows `goto`"""
    fn = A.find_function(PB, q)
    lps = loops_of(fn)
    if ordinal >= len(lps):
        raise Undecided("%s has %d loops, contract names loop %d" % (q, len(lps), ordinal))
    c.loop = loop or (lambda ex, st, n, o: ex.havoc_loop(n, st))
    ex, st, names = arbitrary_state(fn, c)
    node = lps[ordinal]
    for x in A.walk(node):
        if x.get("kind") == "VarDecl" and "id" in x and "name" in x:
            names[x["name"]] = x["id"]
    res = ex.iterate_loop(node, st, prepare=(lambda ex_, s_: prepare(ex_, s_, names)) if prepare is not None else None)
    return fn, ex, res, {"names": names, "node": node}


def loops_of(fn):
    return [x for x in A.walk(fn) if x.get("kind") in ("ForStmt", "WhileStmt", "DoStmt")]


def stop_at_loops(tag="loop"):
    """loop summary that parks the state at the loop head (status '<tag><ordinal>'): used when the part of a function before
    a loop is under contract and the loop has its own iteration contract"""
    def h(ex, st, n, o):
        st.status = "%s%d" % (tag, o)
        return [st]
    return h


def alive(states, statuses=None):
    out = []
    for s in states:
        if statuses is not None and s.status not in statuses:
            continue
        if s.status == "dead" or B.z3_sat(list(s.pc)) == "unsat":
            continue
        out.append(s)
    return out


def evs(s, short):
    return [e for e in s.events if e.name.split("::")[-1] == short]


def prove(hy, goal):
    return B.z3_prove(list(hy), goal)[0] == "proved"


def ok(r, name, cond, detail="", kind="post", backend="symex"):
    r.add(name, DISCHARGED if cond else FAILED, backend, 0, detail[:300], kind=kind)
    return cond


def reach(r, name, n, need=1):
    r.add(name, DISCHARGED if n >= need else UNDECIDED, "symex", 0, "%d paths (need %d)" % (n, need), kind="vacuity")


def locals_assigned_in(ex, node):
    ids, _ = ex.assigned_locals(node)
    return ids


def lib_hyps(s, extra_terms=()):
    """the library build: phreeqci_gui is false whenever it is read (the GUI's parse-only modes are outside the property)"""
    out = set()
    for t in list(s.pc) + list(extra_terms):
        for x in tm.subterms(t):
            if x.op == "select":
                b = x.args[0]
                while b.op == "store":
                    b = b.args[0]
                if b.op == "sym" and ".phreeqci_gui:" in b.args[0]:
                    out.add(tm.not_(tm.to_bool(x)))
    return sorted(out, key=repr)


def alive_lib(states, statuses=None):
    out = []
    for s in states:
        if statuses is not None and s.status not in statuses:
            continue
        if s.status == "dead" or B.z3_sat(list(s.pc) + lib_hyps(s)) == "unsat":
            continue
        out.append(s)
    return out


def sep_hyps(terms):
    """an object allocated during the call (PHRQ_calloc / PHRQ_malloc / new / a local) is none of the objects that existed before:
    it differs from every pointer value that is not derived from an allocation of this call"""
    allocs, others = set(), set()
    for t in terms:
        for x in tm.subterms(t):
            if not isinstance(x, tm.T) or x.sort != "P" or tm.isnum(x):
                continue
            if x.op == "sym" and x.args[0].startswith(tm.ALLOC_PREFIX):
                allocs.add(x)
            elif x.op in ("sym", "select", "app"):
                others.add(x)
    out = []
    for a in allocs:
        for o in others:
            if any(y in allocs for y in tm.subterms(o)):
                continue
            out.append(tm.not_(tm.eq(a, o)))
    al = sorted(allocs, key=repr)
    for i in range(len(al)):
        for j in range(i + 1, len(al)):
            out.append(tm.not_(tm.eq(al[i], al[j])))
    return out


def hyp(s, goal_terms=()):
    base = list(s.pc) + lib_hyps(s, goal_terms)
    return base + sep_hyps(base + list(goal_terms))


def snap_and_havoc(store, assume_exit=True):
    """loop summary for the code BEHIND a loop: the state at the loop head is recorded (store[ordinal]), then everything the loop may
    write becomes arbitrary and (loops left only through their condition) the negated condition holds.  The loop body is under its own
    iteration contract in the unit that uses this."""
    def h(ex, st, n, o):
        store.setdefault(o, []).append(st.clone())
        pre = st.hprefix
        res = ex.havoc_loop(n, st)
        for s in res:
            if s.hprefix == pre:
                ex.havoc_heap(s, "loop")          # the helpers called in the body (require, skiptoeos, parsers) write memory although the engine lists them as pure
        out = []
        has_break = any(x.get("kind") == "BreakStmt" for x in A.walk(n))
        init, cond, inc, body = ex.loop_parts(n)
        for s in res:
            s.events.append(SX.Event("loop_exit", None, [tm.num(o, "I")], ZI))
            if assume_exit and cond is not None and not has_break:
                for s2, v in ex.ev(cond, s):
                    if s2.assume(tm.not_(tm.to_bool(v))):
                        out.append(s2)
            else:
                out.append(s)
        return out
    return h


def after(s, marker="loop_exit"):
    k0 = max([i for i, e in enumerate(s.events) if e.name == marker] or [-1])
    return s.events[k0 + 1:]


def base_arr(s, key):
    a = s.heap.get(key)
    while a is not None and a.op == "store":
        a = a.args[0]
    return a


def Fb(ex, s, name, sort, obj):
    """field value in the state right behind the last summarised loop (or at entry when there was none)"""
    key = ("f", name, sort)
    ex.heap_arr(s, key)
    return tm.select(base_arr(s, key), obj)


def summarize(keys, store=None):
    """loop summary by frame: the locals the loop assigns and the listed memory components are arbitrary afterwards, the negated loop
    condition holds; the unit that uses it checks the frame on the loop body (iteration contract)"""
    def h(ex, st, n, o):
        if store is not None:
            store.setdefault(o, []).append(st.clone())
        init, cond, inc, body = ex.loop_parts(n)
        states = [st]
        if init is not None:
            states = ex.exec(init, states)
        out = []
        for s in states:
            for did, (nm, qt) in ex.assigned_locals(n)[0].items():
                if not isinstance(s.locals.get(did), tuple):
                    s.locals[did] = fresh("after_loop%d_%s" % (o, nm), SX.sort_of(qt))
            for key in keys:
                ex.heap_arr(s, key)
                s.heap[key] = tm.sym("Hl%d.%s" % (next(_cnt), ("%s:%s" % (key[1], key[2])) if key[0] == "f" else "mem:%s" % key[1]), s.heap[key].sort)
            s.events.append(SX.Event("loop_exit", None, [tm.num(o, "I")], ZI))
            if cond is None:
                out.append(s); continue
            for s2, v in ex.ev(cond, s):
                if s2.assume(tm.not_(tm.to_bool(v))):
                    out.append(s2)
        return out
    return h
