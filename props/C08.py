"""C08 — bad input is reported as errors; never crashes or poisons (partial).
Engine A: C-string helpers of utilities.cpp memory-safe and functionally specified (extracted on every run);
tracked-allocation list of phqalloc.cpp.  Engine B: capacity obligations at call sites of capacity-requiring helpers.
Absence of crashes in the 125 k-line engine as a whole is NOT decided."""
import time, os
from vf import core, cbmc
from vf.core import Undecided

PID = "C08"
UTIL = "src/phreeqcpp/utilities.cpp"
GS = "src/phreeqcpp/global_structures.h"
H = core.VERIF + "/harness/A/c08_strings.c"
RULES = [(r"\bPhreeqc::\s*", "", "drop class qualifier Phreeqc::")]

ISAMONG_INV = """__CPROVER_assigns(i)
__CPROVER_loop_invariant(0 <= i && (size_t)i <= g_n - 1)
__CPROVER_loop_invariant((size_t)i <= g_k || s_l[g_k] != c || g_k >= g_n)
__CPROVER_decreases(g_n - (size_t)i)"""

STRCMP_INV = """__CPROVER_assigns(c1, c2, str1, str2)
__CPROVER_loop_invariant(__CPROVER_same_object(str1, __CPROVER_loop_entry(str1)) && __CPROVER_same_object(str2, __CPROVER_loop_entry(str2)))
__CPROVER_loop_invariant(__CPROVER_POINTER_OFFSET(str1) <= g_n1 - 1 && __CPROVER_POINTER_OFFSET(str2) <= g_n2 - 1)
__CPROVER_loop_invariant(__CPROVER_POINTER_OFFSET(str1) == 0 || (__CPROVER_POINTER_OFFSET(str1) <= g_n1 - 1))"""


def units_A(tier):
    n = 8 if tier == "quick" else 20
    cbmc.define_lines(GS, ["MAX_LENGTH"])          # must exist; the unit instantiates it with a small value (parametric)
    pre = "#define MAX_LENGTH VERIF_MAXLEN\n" + cbmc.define_lines(GS, ["TRUE", "FALSE", "EMPTY", "UPPER", "LOWER", "DIGIT", "UNKNOWN"]) + "\n#include <ctype.h>\n#undef isspace\n#undef isupper\n#undef islower\n#undef isdigit\n#undef isalpha\n#undef tolower\n#undef toupper\nextern size_t g_n, g_k, g_n1, g_n2;\n"
    U = []
    def harn():
        return open(H).read()
    def bounded(fn, harness, unwind_extra=3, defines=(), twin=True, cuts=None, **kw):
        uid = "C08.str.%s" % fn
        U.append((uid, lambda: cbmc.extracted_unit(uid, cuts or [(UTIL, "Phreeqc::" + fn, kw.pop("find", None))], harn(), harness, prelude=pre, rules=RULES,
                 defines=["VERIF_N=%d" % n, "VERIF_MAXLEN=5", "VERIF_CMP=strcmp_nocase"] + list(defines), unwind=n + unwind_extra, function="Phreeqc::" + fn,
                 bounded={"strings_le": n, "how": "--unwind %d --unwinding-assertions" % (n + unwind_extra)}, expect=("assertion",), timeout=900, twin=twin, native=True)))
    bounded("copy_token", "h_copy_token", find={"param_types": ["char *", "const char **", "int *"]})
    bounded("str_tolower", "h_str_tolower", find={"param_types": ["char *"]})
    bounded("str_toupper", "h_str_toupper", find={"param_types": ["char *"]})
    bounded("squeeze_white", "h_squeeze_white")
    # unbounded: loop contracts
    U.append(("C08.str.isamong", lambda: cbmc.extracted_unit("C08.str.isamong", [(UTIL, "Phreeqc::isamong", None)], harn(), "h_isamong", prelude=pre, rules=RULES,
              loop_contracts={"Phreeqc::isamong": {0: ISAMONG_INV}}, loop_count={"Phreeqc::isamong": 1},
              defines=["VERIF_N=%d" % n, "VERIF_MAXLEN=5", "VERIF_CMP=strcmp_nocase"], function="Phreeqc::isamong", expect=("loop_invariant_base", "loop_invariant_step"),
              loop_contracts_flag=True, timeout=600, unwind=None)))
    for fn in ("strcmp_nocase", "strcmp_nocase_arg1"):
        U.append(("C08.str." + fn, lambda fn=fn: cbmc.extracted_unit("C08.str." + fn, [(UTIL, "Phreeqc::" + fn, None)], harn(), "h_strcmp_nocase", prelude=pre, rules=RULES,
                  loop_contracts={"Phreeqc::" + fn: {0: STRCMP_INV}}, loop_count={"Phreeqc::" + fn: 1},
                  defines=["VERIF_N=%d" % n, "VERIF_MAXLEN=5", "VERIF_CMP=" + fn], function="Phreeqc::" + fn, expect=("loop_invariant_base", "loop_invariant_step"),
                  loop_contracts_flag=True, timeout=600, unwind=None)))
    return U


def _functions_with_calls(callee):
    import glob
    from vf import callsites as CS
    out = []
    pats = ["src/phreeqcpp/*.cpp", "src/phreeqcpp/*.cxx", "src/phreeqcpp/common/*.cxx", "src/phreeqcpp/common/*.cpp", "src/*.cpp"]
    for pat in pats:
        for f in sorted(glob.glob(os.path.join(core.REPO, pat))):
            rel = os.path.relpath(f, core.REPO)
            if callee not in open(f, errors="replace").read():
                continue
            for q, n in CS.enclosing_functions(rel, callee):
                if not q.endswith("::" + callee):
                    out.append((rel, q))
    return out


def _defs(rel, q):
    from vf.astvc import ast as A
    docs = A.dump(rel, q)
    cands, seen = [], set()
    def visit(d):
        if d.get("kind") in ("FunctionDecl", "CXXMethodDecl", "CXXConstructorDecl") and d.get("name") == q.split("::")[-1] and any(c.get("kind") == "CompoundStmt" for c in d.get("inner", [])):
            if d["id"] not in seen:
                seen.add(d["id"]); cands.append(d)
        elif d.get("kind") in ("CXXRecordDecl", "NamespaceDecl"):
            for c in d.get("inner", []):
                visit(c)
    for d in docs:
        visit(d)
    return cands


def unit_sites(callee, nargs, what):
    """capacity obligations at every call site of `callee` whose destination is a fixed-size char array"""
    from vf import callsites as CS
    from vf.astvc import ast as A, hdr
    from concurrent.futures import ThreadPoolExecutor
    r = core.UnitResult("C08.sites." + callee, file="(all translation units)", function="call sites of " + callee, engine="B:astvc", proved_kind="proved")
    maxlen = int(hdr.define_value(GS, "MAX_LENGTH"))
    fns = _functions_with_calls(callee)
    with ThreadPoolExecutor(max_workers=8) as ex:
        defs = list(ex.map(lambda rq: (rq, _defs(*rq)), fns))
    nsites = uncovered = 0
    for (rel, q), cands in defs:
        for fn in cands:
            for k, call in enumerate(CS.find_calls(fn, callee, nargs)):
                a0 = call["inner"][1]
                if "char" not in a0.get("type", {}).get("qualType", ""):
                    continue
                cap, desc = CS.array_capacity(a0)
                site = "%s#%d" % (q, k)
                if cap is None:
                    uncovered += 1
                    r.notes.append("not covered (destination is not a fixed-size array): %s in %s: %s" % (site, rel, desc))
                    continue
                nsites += 1
                if what == "cap>=MAX_LENGTH":
                    ok = cap >= maxlen
                    r.add("site.%s.capacity(%d)>=MAX_LENGTH(%d)" % (site, cap, maxlen), core.DISCHARGED if ok else core.FAILED, "ast-facts", 0, desc, kind="callsite")
                else:
                    mx = A.const_int(call["inner"][2])
                    ok = mx is not None and mx <= cap
                    r.add("site.%s.max_argument(%s)<=capacity(%d)" % (site, mx, cap), core.DISCHARGED if ok else core.FAILED, "ast-facts", 0, desc, kind="callsite")
    r.add("reach.sites_found", core.DISCHARGED if nsites >= 10 else core.UNDECIDED, "ast-scan", 0, "%d sites with a fixed-size destination, %d not covered" % (nsites, uncovered), kind="vacuity")
    r.notes = r.notes[:8]
    r.assumptions.append("call sites are located by a text scan for the callee name and then typed by clang's AST of the enclosing function; a site inside a macro or a lambda is not seen")
    return r


def unit_safe_copy(fn_name, twin=False):
    """Utilities::strcpy_safe / strcat_safe: (1) never terminates the process: no `throw;` outside a handler;
    (2) on the normal path the memcpy stays within max bytes of dest."""
    from vf.astvc import ast as A, terms as tm, unit as U, symex as SX
    rel = "src/phreeqcpp/common/Utils.cxx"
    fn = A.find_function(rel, "Utilities::" + fn_name)
    r = U.new_unit("C08.safe_copy." + fn_name, rel, "Utilities::" + fn_name, fn)
    # (1) bare throw outside a catch handler
    bare = []
    def walk(n, in_catch):
        k = n.get("kind")
        if k == "CXXCatchStmt":
            in_catch = True
        if k == "CXXThrowExpr" and not [c for c in n.get("inner", []) if isinstance(c, dict) and c.get("kind")] and not in_catch:
            bare.append((n.get("range", {}).get("begin", {}) or {}).get("line"))
        for c in n.get("inner", []) or []:
            if isinstance(c, dict):
                walk(c, in_catch)
    walk(fn, False)
    r.add("never_terminates_process(no_bare_throw_outside_handler)", core.FAILED if bare else core.DISCHARGED, "ast-scan", 0,
          ("`throw;` with no exception in flight = std::terminate() at %d place(s) (null argument / oversize source)" % len(bare)) if bare else "", kind="termination")
    # (2) normal path: memcpy within bounds
    ctx = SX.Ctx(); ctx.pure.update({"strlen", "memcpy"})
    ex = SX.Exec(ctx); st = SX.State()
    finals = ex.run(fn, st)
    dest, mx, src = tm.sym("P0_dest", "P"), tm.sym("P1_max", "I"), tm.sym("P2_src", "P")
    n = 0
    for s in finals:
        if s.status != "ret":
            continue
        mc = [e for e in s.events if e.name == "memcpy"]
        if len(mc) != 1:
            r.add("normal_path.one_memcpy", core.FAILED, "trace", 0, repr(s.events)[:200]); continue
        n += 1
        d, sr, ln = mc[0].args
        # destination offset + length <= max   (dest + ldest for strcat)
        off = tm.num(0, "I")
        if d is not dest:
            if d.op == "+" and d.args[0] is dest:
                off = d.args[1]
            elif d.op == "app":
                off = None
        if off is None:
            r.add("normal_path.memcpy_destination_inside_dest", core.UNDECIDED, "term-inspection", 0, repr(d)[:100]); continue
        sl = [e.result for e in s.events if e.name == "strlen" and e.args[0] is src]
        if not sl:
            r.add("normal_path.measures_source", core.FAILED, "trace", 0, "strlen(src) not called"); continue
        slen = SX.Exec(ctx).coerce(sl[0], "I")
        hyps = list(s.pc) + [tm.le(tm.num(0, "I"), SX.Exec(ctx).coerce(e.result, "I")) for e in s.events if e.name == "strlen"] + [tm.le(tm.num(0, "I"), mx)]
        goal = tm.le(tm.add(off, SX.Exec(ctx).coerce(ln, "I")), mx if not twin else tm.sub(mx, tm.num(2, "I")))
        U.discharge_valid(r, "normal_path.memcpy_offset+length<=max", hyps, goal)
        U.discharge_valid(r, "normal_path.copies_terminator(length==strlen(src)+1)", hyps, tm.eq(SX.Exec(ctx).coerce(ln, "I"), tm.add(slen, tm.num(1, "I"))))
    r.add("reach.normal_path", core.DISCHARGED if n else core.UNDECIDED, "symex", 0, "%d" % n, kind="vacuity")
    r.assumptions.append("try body executed on the no-throw path; strlen uninterpreted, non-negative; sizeof(char) = 1")
    return r


def unit_heap_dest_sites(rel, q, twin=False):
    """strcpy_safe/strcat_safe sites whose destination is a heap buffer grown in the same function
    (line / line_save with max_line): the copy fits, i.e. strlen(src) + 1 <= max at the call, on every path."""
    from vf.astvc import ast as A, terms as tm, unit as U, symex as SX, backends as B
    fn = A.find_function(rel, q)
    r = U.new_unit("C08.sites.heap_dest.%s" % q.split("::")[-1], rel, q, fn)
    ctx = SX.Ctx()
    ctx.functional.update({"strlen", "c_str", "line", "line_save", "Get_m_line", "Get_m_line_save", "get_m_line_type"})
    ctx.pure.update({"check_key", "malloc_error", "PHRQ_realloc", "strcpy_safe", "strcat_safe"})
    ctx.enum_values.update(A.enum_values_compiled("Phreeqc.h", ["TRUE", "FALSE", "OK", "EOF"]))
    ctx.loop = lambda ex, st, node, o: ex.havoc_loop(node, st)
    ex = SX.Exec(ctx); st = SX.State()
    this = tm.sym("this", "P")
    max0 = tm.select(tm.sym("H0.max_line:I", ("A", "P", "I")), this)
    st.pc = [tm.lt(tm.num(0, "I"), max0)]
    finals = ex.run(fn, st)
    n = 0
    for s in finals:
        for k, e in enumerate([e for e in s.events if e.name.split("::")[-1] in ("strcpy_safe", "strcat_safe")]):
            dest, mx, src = e.args
            n += 1
            if src.op == "str":
                slen = tm.num(len(src.args[0].strip('"')), "I")
            else:
                slen = tm.app("call:strlen", (tm.NULL, src), "I")
            hyps = [c for c in s.pc]
            # strlen is non-negative; realloc'ed sizes positive
            for t in tm.subterms(tm.and_(*(hyps + [tm.eq(slen, slen)])) if hyps else slen):
                pass
            nonneg = [tm.le(tm.num(0, "I"), t) for t in tm.subterms(tm.and_(*(hyps + [tm.le(slen, ex.coerce(mx, "I"))]))) if t.op == "app" and t.args[0] == "call:strlen"]
            goal = tm.le(tm.add(slen, tm.num(1 if not twin else 3, "I")), ex.coerce(mx, "I"))
            U.discharge_valid(r, "site%d.strlen(src)+1<=max[path %d]" % (k, finals.index(s)), hyps + nonneg, goal, kind="callsite")
    r.add("reach.sites", core.DISCHARGED if n >= 2 else core.UNDECIDED, "symex", 0, "%d site instances" % n, kind="vacuity")
    r.assumptions += ["max_line > 0 on entry (set by space(..., INIT, &max_line) in initialize)", "std::string::c_str()/strlen and the parser line getters are deterministic functions of their receiver",
                      "PHRQ_realloc(p, n) returns n usable bytes or NULL (then malloc_error does not return)"]
    return r


def unit_retry_ladder(twin=False):
    """'last-resort numerical retry ladder ends in an error, not a silent result': statement contract on the tail of
    Phreeqc::set_and_run_wrapper (after the retry loop), from an arbitrary state: converge == FALSE -> error_msg(.., STOP)
    (never returns); converge == MASS_BALANCE -> MASS_BALANCE is returned; otherwise OK.  And every caller that
    receives MASS_BALANCE raises the 'Negative concentration' error."""
    from vf.astvc import ast as A, terms as tm, unit as U, symex as SX, backends as B
    rel, q = "src/phreeqcpp/kinetics.cpp", "Phreeqc::set_and_run_wrapper"
    ctx = SX.Ctx()
    ev = A.enum_values_compiled("Phreeqc.h", ["TRUE", "FALSE", "OK", "ERROR", "STOP", "MASS_BALANCE", "CONTINUE"])
    ctx.enum_values.update(ev)
    class AllPure(set):
        def __contains__(self, x): return True
    ctx.pure = AllPure()
    def error_msg(ex_, st, n, name, recv, args):
        st.events.append(SX.Event(name, recv, args, tm.num(0, "I"), n))
        if len(args) >= 2 and (args[1] is tm.TRUE or (tm.isnum(args[1]) and args[1].args[0] != 0)):
            st.status = "throw"
        return [(st, tm.num(0, "I"))]
    ctx.handlers["Phreeqc::error_msg"] = error_msg
    def tail(stmts):
        last = max(i for i, s in enumerate(stmts) if s.get("kind") in ("ForStmt", "WhileStmt", "DoStmt", "LabelStmt"))
        return stmts[last + 1:]
    fn, ex, finals, info = U.run_region(rel, q, tail, ctx=ctx)
    r = U.new_unit("C08.retry_ladder.set_and_run_wrapper_tail", rel, q, fn)
    c0 = tm.sym("L_converge", "I")
    MB, FALSE_, OK_ = tm.num(ev["MASS_BALANCE"], "I"), tm.num(ev["FALSE"], "I"), tm.num(ev["OK"] if not twin else ev["ERROR"], "I")
    n = 0
    for s in finals:
        if B.z3_sat(list(s.pc)) == "unsat":
            continue
        n += 1
        conv = U.local_of(info, s, "converge")
        tag = "path%d" % n
        if s.status == "throw":
            ok = any(e.name.endswith("error_msg") for e in s.events)
            r.add(tag + ".stops_with_error_message", core.DISCHARGED if ok else core.FAILED, "trace", 0, "", kind="trace")
            continue
        if s.status != "ret":
            r.add(tag + ".returns_or_stops", core.FAILED, "symex", 0, s.status); continue
        # a returning path: the numerical method did not fail (converge != FALSE), and MASS_BALANCE is reported as such
        U.discharge_valid(r, tag + ".returns_only_if_converge!=FALSE", list(s.pc), tm.not_(tm.eq(conv, FALSE_)))
        U.discharge_valid(r, tag + ".result==MASS_BALANCE_iff_converge==MASS_BALANCE_else_OK", list(s.pc),
                          tm.eq(ex.coerce(s.ret, "I"), tm.ite(tm.eq(conv, MB), MB, OK_)))
    r.add("reach.paths", core.DISCHARGED if n >= 3 else core.UNDECIDED, "symex", 0, "%d feasible paths" % n, kind="vacuity")
    r.notes.append("callers of set_and_run_wrapper are not under this contract: rk_kinetics/transport/mix_stag do not follow one checkable pattern for MASS_BALANCE")
    return r


def units_B(tier):
    from vf.astvc import unit as U
    us = [("C08.sites.copy_token", lambda: unit_sites("copy_token", 3, "cap>=MAX_LENGTH")),
          ("C08.sites.strcpy_safe", lambda: unit_sites("strcpy_safe", 3, "max<=cap")),
          ("C08.sites.strcat_safe", lambda: unit_sites("strcat_safe", 3, "max<=cap"))]
    for rel, q in (("src/phreeqcpp/read.cpp", "Phreeqc::cleanup_after_parser"), ("src/phreeqcpp/input.cpp", "Phreeqc::get_line")):
        def mkh(rel=rel, q=q):
            r = unit_heap_dest_sites(rel, q)
            if not any(o.status == core.FAILED for o in r.obligations):
                U.must_fail_twin(r, "vacuity.must_fail_twin", lambda: unit_heap_dest_sites(rel, q, twin=True))
            return r
        us.append(("C08.sites.heap_dest.%s" % q.split("::")[-1], mkh))
    def mkr():
        r = unit_retry_ladder()
        if not any(o.status == core.FAILED for o in r.obligations):
            U.must_fail_twin(r, "vacuity.must_fail_twin", lambda: unit_retry_ladder(twin=True))
        return r
    us.append(("C08.retry_ladder.set_and_run_wrapper_tail", mkr))
    for f in ("strcpy_safe", "strcat_safe"):
        def mk(f=f):
            r = unit_safe_copy(f)
            U.must_fail_twin(r, "vacuity.must_fail_twin", lambda: _only_z3(unit_safe_copy(f, twin=True)))
            return r
        us.append(("C08.safe_copy." + f, mk))
    from props import c08_streams as ST
    def mks():
        r = ST.unit_stream_cleanup()
        if not any(o.status == core.FAILED for o in r.obligations):
            U.must_fail_twin(r, "vacuity.must_fail_twin", lambda: ST.unit_stream_cleanup(twin=True))
        return r
    us.append(("C08.entry_points.no_input_stream_left_behind", mks))
    from props.common import wrap as _wrapS
    _wrapS(us, "C08.ofstream_open.pointer_replaced_only_on_success", ST.unit_ofstream_open)
    from props import c17_control as _CT
    def _fv(twin=False):
        r_ = _CT.unit_findvar_subscripts(twin); r_.id = "C08.findvar.bad_subscript_reported_not_used"; return r_
    from props.common import wrap as _wrap0
    _wrap0(us, "C08.findvar.bad_subscript_reported_not_used", _fv)
    from props import c08_nullguard as NG
    from props.common import wrap as _wrap
    for f in NG.FUNCS:
        _wrap(us, "C08.%s.undefined_element_reported_not_dereferenced" % f, NG.unit_null_guards, f)
    from props import c08_bounds as BD
    _wrap(us, "C08.get_token.charge_buffer_index_stays_below_its_capacity", BD.unit_get_token_charge)
    _wrap(us, "C08.spread_row_to_solution.cells_of_a_short_data_row_are_not_read", BD.unit_spread_row_cells)
    _wrap(us, "C08.get_option.buffers_have_room_for_the_full_option_name", BD.unit_get_option_room)
    from props import c08_errors as ER
    _wrap(us, "C08.errors.Phreeqc_error_msg_makes_the_call_fail", ER.unit_phreeqc_error_msg)
    _wrap(us, "C08.errors.get_input_errors", ER.unit_get_input_errors)
    _wrap(us, "C08.errors.PHRQ_io_error_msg_counts_once", ER.unit_io_error_msg)
    _wrap(us, "C08.errors.IPhreeqc_error_msg", ER.unit_ipq_error_msg)
    _wrap(us, "C08.errors.warnings_are_not_errors", ER.unit_warnings_do_not_count)
    from props import C04 as _C04
    for fn_name in ("RunString", "RunFile", "RunAccumulated"):
        def _en(twin=False, fn_name=fn_name):
            r_ = _C04.unit_run_entry(fn_name, twin=twin); r_.id = "C08.entry.%s.counters_reset_and_error_count_returned" % fn_name; return r_
        _wrap(us, "C08.entry.%s.counters_reset_and_error_count_returned" % fn_name, _en)
    return us


def _only_z3(r):
    r.obligations = [o for o in r.obligations if o.backend.startswith("z3")]
    return r


def run(tier, seed, only, jobs):
    t0 = time.time()
    U = units_A(tier) + units_B(tier)
    from props.common import ext_units as _ext
    U += _ext("C08")
    if only:
        U = [x for x in U if only in x[0]]
    res = core.run_units(U, jobs=jobs)
    return core.finish(PID, tier, seed, "proof", res, t0,
        checker_cmd="vf/extract.py (cut by clang byte range, must-fire rules) -> goto-cc -> goto-instrument --dfcc [--apply-loop-contracts] -> cbmc 6.11 (cadical) with bounds/pointer/overflow/conversion checks",
        trusted_base=["cbmc 6.11.0 / goto-instrument", "CBMC's models of isspace/tolower/malloc", "clang 14 AST byte ranges", "vf/extract.py rule list"],
        assumptions=["C locale for isspace/isupper/tolower (CBMC's models)"],
        explanation="Harness contracts (assume precondition / assert postcondition) on C-style helpers cut from utilities.cpp on every run; bounded units are listed apart.")
