"""C10 extension units, second batch: the word dictionary of the binary serialisation (index <-> word bijection), the leaf container cxxNameDouble
(Serialize / Deserialize pair and RAW dump_raw / read_raw pair), the remaining options of the DUMP keyword (dumper::Read) and the
number-list selector StorageBinListItem."""
from props.common import *
from vf.core import FAILED, DISCHARGED, UNDECIDED
from vf.astvc import symex as SX
from props.c16_ext import case_split, decide, norm_key, base_arr, same_real
from props.c20_ext_util import inline_accessors

DICT = "src/phreeqcpp/Dictionary.cpp"
ND = "src/phreeqcpp/NameDouble.cxx"
DMP = "src/phreeqcpp/dumper.cpp"
SBL = "src/phreeqcpp/StorageBinList.cpp"


def short(e):
    return e.name.split("::")[-1]


def unit_dictionary(twin=False):
    """Dictionary::Find(word): a known word returns the index stored for it and changes nothing; a new word gets index = number of words so far,
    is entered in the map under that index and appended to the word list at the position words.size(); so, as long as the list and the map have
    the same size (which each call preserves: both grow by one or neither does), GetWords()[Find(w)] == w and Find(GetWords()[i]) == i - the
    bijection every Serialize / Deserialize pair relies on.  The text image (one word per line, in index order) receives the new word, so that
    a dictionary rebuilt from it by re-entering the lines in order assigns the same indices."""
    q = "Dictionary::Find"
    fn = A.find_function(DICT, q)
    r = U.new_unit("C10.Dictionary.words_and_indices_form_a_bijection", DICT, q, fn)
    c = ctx()
    # MapSize() { return (int) dictionary_map.size(); }: checked to be that one-liner, then executed as the size of the map
    fm = A.find_function(DICT, "Dictionary::MapSize")
    bt = text_of("src/phreeqcpp/Dictionary.h", A.body_of(fm))
    if "dictionary_map.size()" not in bt or len([x for x in A.walk(A.body_of(fm)) if x.get("kind") == "ReturnStmt"]) != 1 or len(bt) > 60:
        raise Undecided("Dictionary::MapSize is no longer `return (int) dictionary_map.size();`")
    c.handlers["Dictionary::MapSize"] = lambda ex_, st, n_, name, recv, args: [(st, tm.select(ex_.heap_arr(st, ("f", "#msize", "I")), tm.app("fld:dictionary_map", (recv,), "P")))]
    f, ex, fin, info = U.run_function(DICT, q, ctx=c)
    w = tm.sym("P0_%s" % A.params_of(f)[0]["name"], "S")
    dm = tm.app("fld:dictionary_map", (THIS,), "P"); words = tm.app("fld:words", (THIS,), "P")
    n = {}
    for s in live(fin, ("ret",)):
        pw = [p_ for p_ in tm.subterms(tm.and_(*s.pc)) if p_.op == "sym" and p_.args[0].startswith("P0_")]
        word = pw[0] if pw else w
        has = tm.select(entry_arr(ex, s, ("m2", "#mhas", "B", word.sort)), dm, word)
        msz = tm.select(entry_arr(ex, s, ("f", "#msize", "I")), dm)
        wsz = tm.select(entry_arr(ex, s, ("f", "#vsize", "I")), words)
        wr = U.iter_writes(s)
        for hy, known in cases(list(s.pc), has):
            if known:
                ok = s.ret is tm.select(entry_arr(ex, s, ("m2", "#mval", "I", word.sort)), dm, word) and not wr and not [e for e in s.events if "operator<<" in e.name]
                r.add("known_word.returns_its_stored_index_and_changes_nothing", DISCHARGED if ok else FAILED, "symex", 0, repr(s.ret)[:100]); n["known"] = 1
            else:
                U.discharge_valid(r, "new_word.index==number_of_words_so_far", hy, tm.eq(s.ret, msz if not twin else tm.add(msz, tm.num(1, "I"))))
                mv = [v for k, ix, v in wr if k[:2] == ("m2", "#mval") and ix[0] is dm and ix[1] is word]
                U.discharge_valid(r, "new_word.entered_in_the_map_under_that_index", hy, tm.eq(mv[-1], msz) if mv else tm.FALSE)
                pb = [e for e in s.events if e.name == "vector.push_back" and e.recv is words]
                ok = len(pb) == 1 and pb[0].args[0] is wsz and pb[0].args[1] is word
                r.add("new_word.appended_to_the_word_list_at_position_words.size()", DISCHARGED if ok else FAILED, "symex", 0, repr(pb)[:120])
                ms1 = tm.select(ex.heap_arr(s, ("f", "#msize", "I")), dm); ws1 = tm.select(ex.heap_arr(s, ("f", "#vsize", "I")), words)
                U.discharge_valid(r, "new_word.list_and_map_both_grow_by_one(sizes_stay_equal;so_words[index]==word)", hy + [tm.eq(msz, wsz)], tm.and_(tm.eq(ms1, tm.add(msz, tm.num(1, "I"))), tm.eq(ws1, tm.add(wsz, tm.num(1, "I"))), tm.eq(s.ret, wsz)))
                outs = [e for e in s.events if "operator<<" in e.name]
                oko = len(outs) == 2 and outs[0].recv is tm.app("fld:dictionary_oss", (THIS,), "P") and outs[0].args[0] is word and repr(outs[1].args[0]) == '"\\n"'
                r.add("new_word.text_image_gets_the_word_on_its_own_line(in_index_order)", DISCHARGED if oko else FAILED, "symex", 0, repr([e.args for e in outs])[:120]); n["new"] = 1
    # the rebuilding constructor enters the lines in order through Find
    fc = A.find_function(DICT, "Dictionary::Dictionary", nparams=1)
    calls = [y for y in A.walk(fc) if y.get("kind") == "CXXMemberCallExpr" and text_of(DICT, y).startswith("this->Find(")]
    lps = [x for x in A.walk(fc) if x.get("kind") in ("WhileStmt", "ForStmt", "DoStmt")]
    okc = len(calls) == 1 and len(lps) == 1 and any(y is calls[0] for y in A.walk(lps[0])) and "getline(" in text_of(DICT, lps[0]["inner"][0 if len(lps[0]["inner"]) == 2 else 1])
    r.add("rebuild.constructor_enters_every_line_of_the_text_image_in_order_through_Find", DISCHARGED if okc else FAILED, "syntactic", 0, "", kind="structural")
    need = {"known", "new"}
    r.add("reach.cases", DISCHARGED if need <= set(n) else UNDECIDED, "symex", 0, "missing %r" % sorted(need - set(n)), kind="vacuity")
    r.assumptions += ["std::map / std::vector model (operator[] inserts, push_back appends at index size)", "MapSize() executed from its real inline definition", "the rebuilding constructor reads lines of at most 255 characters (longer words do not occur: element, species and phase names)",
                      "the statement about the constructor is text-anchored (a getline loop around this->Find)"]
    return r


def unit_namedouble_serialize(twin=False):
    """cxxNameDouble::Serialize / Deserialize (the leaf every class's pair ends in).  Writer: the number of entries, then per entry - in map order -
    one int (the dictionary index of the name) and one double (the value).  Reader: clears the container, takes the count, then per entry takes
    one int, looks the word of that index up, takes one double and stores it under that word.  Same order, same channel, one of each per entry:
    with the dictionary bijection every (name, value) pair is restored and nothing else remains."""
    fs = A.find_function(ND, "cxxNameDouble::Serialize")
    r = U.new_unit("C10.cxxNameDouble.Serialize_Deserialize.count_then_(name_index,value)_per_entry_in_the_same_order", ND, "cxxNameDouble::Serialize / Deserialize", fs)
    n = {}
    c = ctx(functional=("Find", "GetWords", "size"))
    f, ex, fin, info = U.run_function(ND, "cxxNameDouble::Serialize", modes={0: "iter"}, ctx=c)
    ps = A.params_of(f)
    dic, ints, dbls = (tm.sym("P%d_%s%s" % (k, ps[k]["name"], "_ref" if k == 0 else ""), "P") for k in range(3))
    for s in info["entry"].get(0, [])[:1]:
        pb = [e for e in s.events if e.name == "vector.push_back"]
        ok = len(pb) == 1 and pb[0].recv is ints and pb[0].args[1] is tm.select(entry_arr(ex, s, ("f", "#msize", "I")), THIS)
        r.add("writer.first_int_is_the_number_of_entries", DISCHARGED if ok else FAILED, "symex", 0, repr(pb)[:160]); n["w0"] = 1
    node = tm.app("mnode", (tm.sym("iter_it", "P"),), "P")
    for s in live(info["iter"].get(0, []), ("run", "cont")):
        pb = [e for e in U.iter_events(s) if e.name == "vector.push_back"]
        name = tm.select(entry_arr(ex, s, ("f", "first", "S")), node); val = tm.select(entry_arr(ex, s, ("f", "second", "R")), node)
        pi = [e for e in pb if e.recv is ints]; pd = [e for e in pb if e.recv is dbls]
        ok = len(pb) == 2 and len(pi) == 1 and len(pd) == 1 and pi[0].args[1] is tm.app("call:Find", (dic, name), "I") and pd[0].args[1] is (val if not twin else name)
        r.add("writer.entry:one_int(dictionary_index_of_the_name)_and_one_double(the_value)", DISCHARGED if ok else FAILED, "symex", 0, repr([e.args for e in pb])[:200]); n["w1"] = 1
    early = live(info["iter"].get(0, []), ("brk", "ret"))
    r.add("writer.every_entry_is_written", DISCHARGED if not early else FAILED, "symex", 0, "")
    # reader
    c = ctx(functional=("Find", "GetWords", "size"))
    f, ex, fin, info = U.run_function(ND, "cxxNameDouble::Deserialize", modes={0: "iter"}, ctx=c)
    ps = A.params_of(f)
    dic, ints, dbls, ii, dd = (tm.sym("P%d_%s%s" % (k, ps[k]["name"], "_ref" if k in (0, 3, 4) else ""), "P") for k in range(5))
    _vd = lambda v_: tm.select(tm.sym("H0.#vdata:P", ("A", "P", "P")), v_)
    distinct = [tm.not_(tm.eq(ii, dd)), tm.not_(tm.eq(_vd(ints), ii)), tm.not_(tm.eq(_vd(ints), dd)), tm.not_(tm.eq(_vd(dbls), ii)), tm.not_(tm.eq(_vd(dbls), dd))]
    cell = lambda arr, p_: tm.select(arr, p_, tm.num(0, "I"))
    for s in info["entry"].get(0, [])[:1]:
        clr = [e for e in s.events if e.name == "map.clear" and e.recv is THIS]
        r.add("reader.container_emptied_first", DISCHARGED if len(clr) == 1 else FAILED, "symex", 0, "", kind="establishment")
        mI0 = entry_arr(ex, s, ("m", "I"))
        ii0 = cell(mI0, ii)
        cnt = s.locals.get(info["names"]["count"])
        want = tm.select(mI0, tm.select(entry_arr(ex, s, ("f", "#vdata", "P")), ints), ii0)
        U.discharge_valid(r, "reader.count_is_the_first_int_and_the_int_cursor_moves_past_it", distinct, tm.and_(tm.eq(cnt, want), tm.eq(cell(ex.heap_arr(s, ("m", "I")), ii), tm.add(ii0, tm.num(1, "I"))), tm.eq(cell(ex.heap_arr(s, ("m", "I")), dd), cell(mI0, dd))))
        n["r0"] = 1
    for s in live(info["iter"].get(0, []), ("run", "cont")):
        mI0 = base_arr(ex, s, ("m", "I")); mI1 = ex.heap_arr(s, ("m", "I"))
        ii0, dd0 = cell(mI0, ii), cell(mI0, dd)
        idata = tm.select(base_arr(ex, s, ("f", "#vdata", "P")), ints); ddata = tm.select(base_arr(ex, s, ("f", "#vdata", "P")), dbls)
        nidx = tm.select(mI0, idata, ii0)
        wdata = tm.select(base_arr(ex, s, ("f", "#vdata", "P")), tm.app("call:GetWords", (dic,), "P"))
        mo = [e for e in U.iter_events(s) if e.name == "map.operator[]" and e.recv is THIS]
        hyp = list(s.pc) + distinct
        U.discharge_valid(r, "reader.entry:takes_exactly_one_int#%d" % len(r.obligations), hyp, tm.eq(cell(mI1, ii), tm.add(ii0, tm.num(1, "I"))))
        if mo:
            mv = [(ix, v) for k, ix, v in U.iter_writes(s) if k[:2] == ("m2", "#mval") and ix[0] is THIS]
            okk = len(mo) == 1 and len(mv) == 1 and "GetWords" in repr(mv[0][0][1]) and B.z3_prove(hyp, tm.eq(tm.add(wdata, nidx), ([t for t in tm.subterms(mv[0][0][1]) if t.op == "+" and "GetWords" in repr(t.args[0])] or [tm.num(0, "P")])[0]))[0] == "proved"
            r.add("reader.entry:name_is_the_word_of_the_int_just_taken#%d" % len(r.obligations), DISCHARGED if okk else FAILED, "symex", 0, repr(mv[0][0][1])[:200] if mv else "")
            wantv = tm.select(base_arr(ex, s, ("m", "R")), ddata, dd0 if not twin else tm.add(dd0, tm.num(1, "I")))
            U.discharge_valid(r, "reader.entry:value_is_the_next_double_and_the_double_cursor_moves_by_one#%d" % len(r.obligations), hyp, tm.and_(tm.eq(mv[0][1], wantv) if mv else tm.FALSE, tm.eq(cell(mI1, dd), tm.add(dd0, tm.num(1, "I")))))
            n["r1"] = 1
        else:
            n["rempty"] = 1       # a word of length 0: names are never empty (assumption); the value of such an entry would not be consumed
        conds = [c_ for c_ in s.pc if "iter_j" in repr(c_)][:1]
        if "range" not in n and conds:
            cnt = s.locals.get(info["names"]["count"])
            want = tm.lt(tm.sym("iter_j", "I"), cnt)
            okr = cnt is not None and B.z3_prove([want], conds[0])[0] == "proved" and B.z3_prove([conds[0]], want)[0] == "proved"
            r.add("reader.as_many_entries_as_the_count_says(j<count)", DISCHARGED if okr else FAILED, "symex", 0, repr(conds[0])[:120]); n["range"] = 1
    need = {"w0", "w1", "r0", "r1", "range"}
    r.add("reach.cases", DISCHARGED if need <= set(n) else UNDECIDED, "symex", 0, "missing %r" % sorted(need - set(n)), kind="vacuity")
    r.assumptions += ["GetWords()[Find(w)] == w (unit C10.Dictionary.words_and_indices_form_a_bijection)", "names are not empty (an entry whose word has length 0 is skipped by the reader WITHOUT consuming its double: unreachable, element / species / phase names are never empty)",
                      "ii and dd are distinct cursors; std::map iteration visits the entries in key order, once each", "std::vector / std::map model"]
    return r


def unit_namedouble_raw(twin=False):
    """cxxNameDouble RAW text.  dump_raw writes one line per entry: indentation, the name, at least one blank, the value, end of line - for short
    names the name is padded to a fixed column wider than the name, for long names a blank is written explicitly - with 14 significant digits.
    read_raw takes the first token of the line as the name and the number after it as the value and stores value under name; an empty line
    stores nothing, a missing number is an error and stores nothing.  So every entry written is read back under the same name."""
    fw = A.find_function(ND, "cxxNameDouble::dump_raw")
    r = U.new_unit("C10.cxxNameDouble.RAW.each_entry_one_line_name_blank_value_read_back_under_the_same_name", ND, "cxxNameDouble::dump_raw / read_raw", fw)
    n = {}
    loops = [x for x in A.walk(fw) if x.get("kind") in ("ForStmt", "WhileStmt", "DoStmt")]
    ent = [k for k, lp in enumerate(loops) if "it->second" in text_of(ND, lp["inner"][-1])]
    if len(ent) != 1:
        raise Undecided("dump_raw: the loop over the entries was not found")
    c = ctx(functional=("size", "pad_right"))
    f, ex, fin, info = U.run_function(ND, "cxxNameDouble::dump_raw", modes={ent[0]: "iter"}, ctx=c)
    node = tm.app("mnode", (tm.sym("iter_it", "P"),), "P")
    oss = tm.sym("P0_%s%s" % (A.params_of(f)[0]["name"], ""), "P")
    for s in live(info["iter"].get(ent[0], []), ("run", "cont")):
        outs = [e for e in U.iter_events(s) if "operator<<" in e.name]
        name = tm.select(entry_arr(ex, s, ("f", "first", "S")), node); val = tm.select(entry_arr(ex, s, ("f", "second", "R")), node)
        args = [e.args[0] for e in outs]
        pads = [a for a in args if a.op == "app" and a.args[0] == "call:pad_right"]
        if len(pads) != 1 or pads[0].args[2] is not name:
            r.add("writer.entry:the_name_is_written_once#%d" % len(r.obligations), FAILED, "symex", 0, repr(args)[:200]); continue
        ip, iv = args.index(pads[0]), ([i_ for i_, a in enumerate(args) if a is val] or [-1])[0]
        width = pads[0].args[3]
        nlen = tm.app("strlen", (name,), "I")
        between = args[ip + 1:iv] if iv > ip else None
        okorder = iv > ip and repr(args[-1]) == '"\\n"' and iv == len(args) - 2 and all(repr(a) in ('""',) or "indent0" in repr(a) or a.op != "app" for a in args[:ip])
        r.add("writer.entry:indent,name,value,end_of_line_in_that_order_on_one_line#%d" % len(r.obligations), DISCHARGED if okorder else FAILED, "symex", 0, repr(args)[:200])
        if between is None:
            continue
        explicit_blank = any(repr(a) == '" "' for a in between)
        if twin:
            explicit_blank = False
        if explicit_blank:
            r.add("writer.long_name:explicit_blank_between_name_and_value", DISCHARGED, "symex", 0, ""); n["long"] = 1
        else:
            U.discharge_valid(r, "writer.short_name:padded_to_a_column_wider_than_the_name(at_least_one_blank_before_the_value)#%d" % len(r.obligations), list(s.pc), tm.lt(nlen, width)); n["short"] = 1
    prec = [y for y in A.walk(fw) if y.get("kind") == "CXXMemberCallExpr" and text_of(ND, y).startswith("s_oss.precision(")]
    r.add("writer.values_written_with_DBL_DIG-1_significant_digits(far_inside_1e-7)", DISCHARGED if len(prec) == 1 and "DBL_DIG-1" in text_of(ND, prec[0]) else FAILED, "syntactic", 0, "", kind="structural")
    early = live(info["iter"].get(ent[0], []), ("brk", "ret"))
    r.add("writer.every_entry_is_written", DISCHARGED if not early else FAILED, "symex", 0, "")
    # reader
    c = ctx(functional=("get_iss",))
    f, ex, fin, info = U.run_function(ND, "cxxNameDouble::read_raw", ctx=c)
    ev = A.enum_values_compiled("Parser.h", ["CParser::PARSER_OK", "CParser::PARSER_ERROR", "CParser::TT_EMPTY"]) if False else {}
    fr = A.find_function(ND, "cxxNameDouble::read_raw")
    # which variable names the key: AST (std::string locals are opaque values in the executor)
    ct = [y for y in A.walk(fr) if y.get("kind") == "CXXMemberCallExpr" and ".copy_token(" in text_of(ND, y)]
    keyexpr = [y for y in A.walk(fr) if y.get("kind") == "CXXOperatorCallExpr" and text_of(ND, y).startswith("(*this)[")]
    tokvar = None
    if len(ct) == 1:
        refs = [y["referencedDecl"]["name"] for y in A.walk(ct[0]) if y.get("kind") == "DeclRefExpr" and y["referencedDecl"].get("kind") == "VarDecl"]
        tokvar = refs[0] if refs else None
    okk = tokvar is not None and len(keyexpr) >= 1 and any(y.get("kind") == "DeclRefExpr" and y["referencedDecl"].get("name") == tokvar for y in A.walk(keyexpr[0]))
    r.add("reader.name_is_the_first_token_of_the_line", DISCHARGED if okk else FAILED, "ast-scan", 0, repr(tokvar), kind="structural")
    for s in live(fin, ("ret",)):
        mo = [e for e in s.events if e.name == "map.operator[]" and e.recv is THIS]
        ext = [e for e in s.events if "operator>>" in e.name]
        cts = [e for e in s.events if short(e) == "copy_token"]
        mv = [v for k, ix, v in U.iter_writes(s) if k[:2] == ("m2", "#mval") and ix[0] is THIS]
        ret = repr(s.ret)
        if mo:
            ok = len(ext) == 1 and len(mv) == 1 and mv[0] is ext[0].args[0] and len(cts) == 1 and s.events.index(cts[0]) < s.events.index(ext[0]) and ret.endswith("PARSER_OK")
            r.add("reader.value_stored_is_the_number_read_after_the_name", DISCHARGED if ok else FAILED, "symex", 0, repr(mv)[:100]); n["rd"] = 1
        elif ext:
            r.add("reader.missing_number:error_and_nothing_stored", DISCHARGED if ret.endswith("PARSER_ERROR") and not mv else FAILED, "symex", 0, ret); n["bad"] = 1
        else:
            r.add("reader.empty_line:nothing_stored", DISCHARGED if ret.endswith("PARSER_OK") and not mv else FAILED, "symex", 0, ret); n["empty"] = 1
    need = {"long", "short", "rd", "bad", "empty"}
    r.add("reach.cases", DISCHARGED if need <= set(n) else UNDECIDED, "symex", 0, "missing %r" % sorted(need - set(n)), kind="vacuity")
    r.assumptions += ["Utilities::pad_right(s, w) returns s followed by blanks up to width w (s itself when it is at least w long)", "CParser::copy_token returns the next blank-delimited token; operator>> reads the next number of the line",
                      "names contain no blanks (element / species / phase names)", "the callers hand each line of a -totals / -activities / ... block to read_raw (units C10.keys.*, C10.nested_reader_protocol)",
                      "the statement `name is the first token` and the precision are read from the AST (std::string locals are opaque in the executor)"]
    return r


def unit_dump_file_and_lists(twin=False):
    """DUMP: the parts of the request the identifier unit leaves out.  -file name: the rest of the line (trimmed) becomes the dump file name,
    `dump.out` when nothing is given; a new request object starts with file `dump.out`, append off, request off.  The number lists behind the
    kind words: Augment(n) adds n to the list and marks the kind as requested, except that a kind already requested as a whole (requested with an
    empty list) stays `all`; Augment("a-b") adds every number a..b INCLUSIVE, Augment("") (a kind word without numbers) only marks the kind as
    requested (= all of that kind)."""
    q = "dumper::Read"
    fn = A.find_function(DMP, q)
    r = U.new_unit("C10.DUMP.file_name_defaults_and_number_lists(single_number,inclusive_range,whole_kind)", DMP, q + "; dumper::dumper; StorageBinListItem::Augment", fn)
    n = {}
    sws = [x for x in A.walk(fn) if x.get("kind") == "SwitchStmt"]
    sw2 = [x for x in sws if "file_name" in text_of(DMP, x)]
    if len(sw2) != 1:
        raise Undecided("dumper::Read: the switch that handles -file was not found (%d)" % len(sw2))
    from props.c14_ext import vopts_of
    words = vopts_of(DMP)
    c = ctx(functional=("get_iss", "size", "c_str"))
    f, ex, fin, info = region(DMP, q, [sw2[0]], c)
    opt = tm.sym("L_opt", "I")
    fname = tm.app("fld:file_name", (THIS,), "P")
    for s in live(fin, ("run", "brk")):
        ks = [int(c_.args[1].args[0]) for c_ in s.pc if c_.op == "==" and c_.args[0] is opt and tm.isnum(c_.args[1])]
        if len(ks) != 1 or not (0 <= ks[0] < len(words)):
            continue
        w = words[ks[0]]
        asg = [e for e in s.events if short(e) == "operator=" and e.recv is fname]
        gl = [e for e in s.events if short(e) == "getline"]
        if w == "file":
            okr = len(gl) == 1 and "get_iss" in repr(gl[0].args[0]) and "file_name" in repr(gl[0].args[1]) and [e for e in s.events if short(e) == "trim" and "file_name" in repr(e.args[0])]
            r.add("file.rest_of_the_line_read_into_file_name_and_trimmed#%d" % len(r.obligations), DISCHARGED if okr else FAILED, "symex", 0, repr([short(e) for e in s.events])[:100])
            empty = tm.eq(tm.app("strlen", (tm.select(ex.heap_arr(s, ("f", "file_name", "S")), THIS),), "I"), tm.num(0, "I"))
            for hy, emp in cases(list(s.pc), empty):
                if emp:
                    want = '"dump.out"' if not twin else '"dump.txt"'
                    ok = len(asg) == 1 and repr(asg[0].args[0]) == want
                    r.add("file.no_name_given:dump.out", DISCHARGED if ok else FAILED, "symex", 0, repr(asg)[:80]); n["f0"] = 1
                else:
                    r.add("file.name_given:kept", DISCHARGED if not asg else FAILED, "symex", 0, repr(asg)[:80]); n["f1"] = 1
        else:
            r.add("frame.-%s_leaves_the_file_name#%d" % (w, len(r.obligations)), DISCHARGED if not asg and not gl else FAILED, "symex", 0, "", kind="frame")
    # constructor defaults
    for k_ in (0, 1):
        try:
            fc, exc, finc, infoc = U.run_function(DMP, "dumper::dumper", ctx=ctx(), find_kw={"nparams": k_ + 1})
        except Exception as e:
            continue
        for s in live(finc, ("run", "ret"))[:1]:
            wv = {k[1]: v for k, ix, v in U.iter_writes(s) if ix and ix[0] is THIS}
            asg = [e for e in s.events if short(e) == "operator=" and e.recv is fname]
            ok = wv.get("append") is tm.FALSE and len(asg) == 1 and repr(asg[0].args[0]) == '"dump.out"' and (wv.get("on") is tm.FALSE or "on" not in wv and k_ == 1)
            r.add("new_request(%d_argument_constructor):file_dump.out,append_off%s" % (k_ + 1, ",request_off" if "on" in wv else ""), DISCHARGED if ok else FAILED, "symex", 0, repr(sorted(wv))[:100]); n["ctor"] = 1
    # Augment(int)
    f, ex, fin, info = U.run_function(SBL, "StorageBinListItem::Augment", ctx=ctx(functional=("size",)), find_kw={"param_types": ["int"]})
    nums = tm.app("fld:numbers", (THIS,), "P")
    iarg = tm.sym("P0_%s" % A.params_of(f)[0]["name"], "I")
    for s in live(fin, ("run", "ret")):
        ins = [e for e in s.events if short(e) == "insert" and e.recv is nums]
        defd = tm.to_bool(tm.select(entry_arr(ex, s, ("f", "defined", "B")), THIS))
        whole = tm.and_(defd, tm.eq(tm.app("call:size", (nums,), "I"), tm.num(0, "I")))
        wv = [v for k, ix, v in U.iter_writes(s) if k == ("f", "defined", "B")]
        for hy, all_ in cases(list(s.pc), whole):
            if all_:
                r.add("Augment(n).kind_requested_as_a_whole_stays_whole", DISCHARGED if not ins and not wv else FAILED, "symex", 0, ""); n["a_all"] = 1
            else:
                ok = len(ins) == 1 and ins[0].args[0] is iarg and len(wv) == 1 and wv[0] is tm.TRUE
                r.add("Augment(n).n_added_and_kind_marked_requested", DISCHARGED if ok else FAILED, "symex", 0, repr(ins)[:80]); n["a_one"] = 1
    # Augment(text): the range loop
    fa = A.find_function(SBL, "StorageBinListItem::Augment", type_contains="string")
    lps = [x for x in A.walk(fa) if x.get("kind") in ("ForStmt", "WhileStmt", "DoStmt")]
    if len(lps) != 1:
        raise Undecided("Augment(text): the range loop was not found")
    c = ctx()
    f, ex, its, info = U.run_loop_isolated(SBL, "StorageBinListItem::Augment", 0, ctx=c, find_kw={"type_contains": "string"})
    for s in live(its, ("run", "cont")):
        ins = [e for e in U.iter_events(s) if short(e) == "insert"]
        ok = len(ins) == 1 and ins[0].recv is nums and ins[0].args[0] is tm.sym("iter_i", "I")
        r.add("Augment(a-b).every_number_of_the_range_goes_to_this_list", DISCHARGED if ok else FAILED, "symex", 0, repr(ins)[:80]); n["rng"] = 1
    hi = tm.sym("L_i2", "I") if not twin else tm.sym("L_i1", "I")
    check_loop_range(r, "Augment(a-b)", ex, c, info, its, "i", tm.sym("L_i1", "I"), lambda v: tm.le(v, hi))
    # i1 / i2 are the smaller / larger of the two numbers: taken from an ordered set (first element, next element)
    t = text_of(SBL, A.body_of(fa))
    oks = "it=temp_set.begin();i1=*it;it++;i2=*it;" in t
    r.add("Augment(a-b).bounds_are_the_two_numbers_in_ascending_order(ordered_set)", DISCHARGED if oks else FAILED, "syntactic", 0, "", kind="structural")
    ok1 = "if(temp_set.size()==1){this->numbers.insert(*(temp_set.begin()));}" in t
    r.add("Augment(n_as_text).single_number_goes_to_this_list", DISCHARGED if ok1 else FAILED, "syntactic", 0, "", kind="structural")
    ok0 = t.startswith("{this->defined=true;if(token.size()==0)return;")
    r.add("Augment(empty).only_marks_the_kind_as_requested(whole_kind)", DISCHARGED if ok0 else FAILED, "syntactic", 0, "", kind="structural")
    need = {"f0", "f1", "ctor", "a_all", "a_one", "rng"}
    r.add("reach.cases", DISCHARGED if need <= set(n) else UNDECIDED, "symex", 0, "missing %r" % sorted(need - set(n)), kind="vacuity")
    r.head_exempt = {("StorageBinListItem::Augment", 0): "range a..b: start and inclusive bound are stated by Augment(a-b).starts_at / runs_while"}
    r.assumptions += ["std::getline reads the rest of the option line; trim removes surrounding blanks", "std::set<int> holds its elements in ascending order (begin() is the smaller of two)",
                      "the splitting of `a-b` (with negative numbers) into two numbers is string handling outside the subset; three statements of Augment(text) are text-anchored (flagged `syntactic`)",
                      "kind word -> list and -cells / -all / -append: unit C10.dumper.Read.identifier_selects_its_own_kind_and_all_cells_expand; DELETE uses the same lists (C14.StorageBinList.*)"]
    return r


UNITS = [
    ("C10.Dictionary.words_and_indices_form_a_bijection", unit_dictionary),
    ("C10.cxxNameDouble.Serialize_Deserialize.count_then_(name_index,value)_per_entry_in_the_same_order", unit_namedouble_serialize),
    ("C10.cxxNameDouble.RAW.each_entry_one_line_name_blank_value_read_back_under_the_same_name", unit_namedouble_raw),
    ("C10.DUMP.file_name_defaults_and_number_lists(single_number,inclusive_range,whole_kind)", unit_dump_file_and_lists),
]
