"""C05 (extension): every punched value reaches the selected-output FILE stream, the per-user-number STRING and the value TABLE through
one call with one column name (IPhreeqc::punch_msg / fpunchf x3 / fpunchf_end_row, PHRQ_io::fpunchf x3, the Phreeqc forwarders,
CSelectedOutput::PushBack<Type>, CVar constructors), USER_PUNCH cells get the heading of their index, and the row / column counts
handed out are those of the table of the current user number."""
from props.c13_ext_util import *

CSO = "src/CSelectedOutput.cpp"
PRINT = "src/phreeqcpp/print.cpp"
TIDY = "src/phreeqcpp/tidy.cpp"
TT = ["TT_EMPTY", "TT_ERROR", "TT_LONG", "TT_DOUBLE", "TT_STRING"]
OVL = (("double", ["const char *", "const char *", "double"], "d", "R", "PushBackDouble"),
       ("string", ["const char *", "const char *", "char *"], "s", "P", "PushBackString"),
       ("int", ["const char *", "const char *", "int"], "i", "I", "PushBackLong"))


def _nu(ex, s):
    """the user number of the selected-output definition being written: current_selected_output->Get_n_user() in the entry state"""
    pp = fld0(ex, s, "PhreeqcPtr", "P")
    cso = fld0(ex, s, "current_selected_output", "P", pp)
    return cso, tm.app("call:Get_n_user", (cso,), "I")


def _c():
    return ctx(functional=("Get_n_user", "get_sel_out_string_on"))


def unit_punch_msg(twin=False):
    """IPhreeqc::punch_msg(str) (headings, newlines and free text of a selected-output row): the text is appended to the string kept
    for the user number of the CURRENT selected-output definition exactly when that user number's string switch and punch_on are on, and
    the same text is handed once to the file writer PHRQ_io::punch_msg; nothing else happens."""
    q = "IPhreeqc::punch_msg"
    f, ex, fin, _ = run(IPQ, q, c=_c())
    r = U.new_unit("C05.punch.IPhreeqc_punch_msg.same_text_to_string_and_file", IPQ, q, f)
    text = param(0, "str", "P")
    seen = set()
    for i, s in enumerate(alive(fin)):
        cso, nu = _nu(ex, s)
        sw = tm.app("call:get_sel_out_string_on", (THIS, nu), "B")
        on = tm.and_(tm.to_bool(sw), fld0(ex, s, "punch_on", "B"))
        app = [e for e in evs(s) if e.name.endswith("operator+=")]
        base = evs(s, "punch_msg")
        idx = [e for e in evs(s) if is_idx(e)]
        good = len(base) == 1 and base[0].name == "PHRQ_io::punch_msg" and base[0].recv is THIS and base[0].args[0] is text
        ok(r, "file_writer_called_once_with_the_same_text[path %d]" % i, good, repr(base)[:160], kind="trace")
        if app:
            seen.add("on")
            ok(r, "string_grows_only_when_switch_of_that_user_number_and_punch_on[path %d]" % i, proved(s.pc, on if not twin else tm.not_(on)), repr(s.pc)[:200], backend="z3-5.1")
            good = len(app) == 1 and app[0].args[0] is text and len(idx) == 1 and field_of_recv(idx[0].recv) == "SelectedOutputStringMap" and idx[0].recv.args[1] is THIS \
                and idx[0].args[0] is nu and "SelectedOutputStringMap" in repr(app[0].recv) and nu in tm.subterms(app[0].recv)
            ok(r, "string_of_the_current_definition's_user_number_grows_by_exactly_str[path %d]" % i, good, repr(app)[:200], kind="trace")
        else:
            seen.add("off")
            ok(r, "string_untouched_only_when_a_switch_is_off[path %d]" % i, proved(list(s.pc) + [tm.not_(tm.eq(cso, NULLP))], tm.not_(on)), repr(s.pc)[:200], backend="z3-5.1")
            ok(r, "string_maps_not_touched[path %d]" % i, not idx and not all_writes(s), repr(idx)[:120], kind="frame")
        oth = [e for e in evs(s) if e not in app and e not in base and e not in idx and short(e) not in ("Get_n_user", "get_sel_out_string_on")]
        ok(r, "nothing_else_called[path %d]" % i, not oth, repr(oth)[:160], kind="frame")
    reach(r, "reach.on_and_off", seen == {"on", "off"}, repr(sorted(seen)))
    r.assumptions += ["a current selected-output definition exists when a row is written (callers: punch_all / tidy_punch loops)", "get_sel_out_string_on(n): unit C05.switch.get_sel_out_string_on (known finding there)",
                      "std::string::operator+= appends its argument"]
    return r


def unit_fpunchf(twin=False):
    """IPhreeqc::fpunchf(name, format, value) for double / char* / int: ONE call delivers the value to all three views of the current
    definition's user number n: the file (PHRQ_io::fpunchf with the same name, format, value), the string (fpunchf_helper into
    SelectedOutputStringMap[n] with the same format and value, exactly when the string switch of n and punch_on are on) and the table
    (SelectedOutputMap[n]->PushBack<Type>(name, value), always, the int widened to long).  fpunchf_end_row closes the table row."""
    fn0 = A.find_function(IPQ, "IPhreeqc::fpunchf", param_types=OVL[0][1])
    r = U.new_unit("C05.punch.IPhreeqc_fpunchf.one_call_feeds_file_string_and_table", IPQ, "IPhreeqc::fpunchf (3 overloads)", fn0)
    name, fmt = param(0, "name", "P"), param(1, "format", "P")
    import hashlib
    shas = []
    for tag, pt, vn, vs, pb in OVL:
        f, ex, fin, _ = run(IPQ, "IPhreeqc::fpunchf", c=_c(), find_kw={"param_types": pt})
        shas.append(U.new_unit("x", IPQ, "f", f).sha)
        val = param(2, vn, vs)
        seen = set()
        for i, s in enumerate(alive(fin)):
            cso, nu = _nu(ex, s)
            sw = tm.app("call:get_sel_out_string_on", (THIS, nu), "B")
            on = tm.and_(tm.to_bool(sw), fld0(ex, s, "punch_on", "B"))
            E = evs(s)
            filew = [e for e in E if e.name == "PHRQ_io::fpunchf"]
            good = len(filew) == 1 and filew[0].recv is THIS and list(filew[0].args) == [name, fmt, val]
            ok(r, "%s.file_writer_gets(name,format,value)_once[path %d]" % (tag, i), good, repr(filew)[:200], kind="trace")
            tab = [e for e in E if short(e).startswith("PushBack")]
            tmap = [e for e in E if is_idx(e) and field_of_recv(e.recv) == "SelectedOutputMap"]
            want_recv = tm.select(ex.heap_arr(s, ("m2", "#mval", "P", "I")), tm.app("fld:SelectedOutputMap", (THIS,), "P"), nu if not (twin and tag == "double") else tm.num(1, "I"))
            good = len(tab) == 1 and short(tab[0]) == pb and len(tab[0].args) == 2 and tab[0].args[0] is name and len(tmap) == 1 and tmap[0].args[0] is nu and tab[0].recv is want_recv
            ok(r, "%s.table_of_the_current_user_number_gets_%s(name,...)_once[path %d]" % (tag, pb, i), good, repr(tab)[:200], kind="trace")
            if len(tab) == 1 and len(tab[0].args) == 2:
                U.discharge_valid(r, "%s.table_value_is_the_value[path %d]" % (tag, i), list(s.pc), tm.eq(ex.coerce(tab[0].args[1], vs), val))
            hlp = [e for e in E if short(e) == "fpunchf_helper"]
            smap = [e for e in E if is_idx(e) and field_of_recv(e.recv) == "SelectedOutputStringMap"]
            if hlp:
                seen.add("on")
                ok(r, "%s.string_written_only_when_switch_of_that_user_number_and_punch_on[path %d]" % (tag, i), proved(s.pc, on), repr(s.pc)[:200], backend="z3-5.1")
                good = len(hlp) == 1 and len(smap) == 1 and smap[0].args[0] is nu and smap[0].recv.args[1] is THIS and "SelectedOutputStringMap" in repr(hlp[0].args[0]) and nu in tm.subterms(hlp[0].args[0]) \
                    and hlp[0].args[1] is fmt and hlp[0].args[2] is val
                ok(r, "%s.string_of_that_user_number_gets(format,value)_once[path %d]" % (tag, i), good, repr(hlp)[:200], kind="trace")
            else:
                seen.add("off")
                ok(r, "%s.string_skipped_only_when_a_switch_is_off[path %d]" % (tag, i), proved(s.pc, tm.not_(on)) and not smap, repr(s.pc)[:200], backend="z3-5.1")
            oth = [e for e in E if e not in filew + tab + tmap + hlp + smap and short(e) not in ("Get_n_user", "get_sel_out_string_on")]
            ok(r, "%s.nothing_else[path %d]" % (tag, i), not oth, repr(oth)[:160], kind="frame")
        reach(r, "reach.%s.string_on_and_off" % tag, seen == {"on", "off"}, repr(sorted(seen)))
    f, ex, fin, _ = run(IPQ, "IPhreeqc::fpunchf_end_row")
    shas.append(U.new_unit("x", IPQ, "f", f).sha)
    for s in alive(fin):
        E = evs(s)
        ok(r, "fpunchf_end_row.closes_the_table_row_once(EndRow)", len(E) == 1 and E[0].name == "IPhreeqc::EndRow" and E[0].recv is THIS, repr(E)[:160], kind="trace")
    r.sha = hashlib.sha256("".join(x or "" for x in shas).encode()).hexdigest()
    r.assumptions += ["try bodies on the no-throw path (a bad_alloc is turned into malloc_error: C08)", "SelectedOutputMap has a table for every defined user number while rows are written (created in do_run)",
                      "PHRQ_io::fpunchf / fpunchf_helper / CSelectedOutput::PushBack* carry their own units (C05.punch.PHRQ_io_fpunchf, C05.format.*, C05.table.*)"]
    return r


def unit_phrq_io_fpunchf(twin=False):
    """PHRQ_io::fpunchf(name, format, value) x3 (the FILE view): the value is formatted into punch_ostream with the caller's format,
    exactly when a punch stream is open and punch_on; otherwise nothing is written."""
    fn0 = A.find_function(PIO, "PHRQ_io::fpunchf", param_types=OVL[0][1])
    r = U.new_unit("C05.punch.PHRQ_io_fpunchf.file_cell_iff_stream_open_and_punch_on", PIO, "PHRQ_io::fpunchf (3 overloads)", fn0)
    import hashlib
    shas = []
    fmt = param(1, "format", "P")
    for tag, pt, vn, vs, pb in OVL:
        f, ex, fin, info = run(PIO, "PHRQ_io::fpunchf", find_kw={"param_types": pt})
        shas.append(U.new_unit("x", PIO, "f", f).sha)
        pv = [p_ for p_ in A.params_of(f)][2]
        val = param(2, pv.get("name"), vs)
        seen = set()
        for i, s in enumerate(alive(fin)):
            strm = fld0(ex, s, "punch_ostream", "P")
            on = tm.and_(tm.not_(tm.eq(strm, NULLP)), fld0(ex, s, "punch_on", "B"))
            hlp = evs(s, "fpunchf_helper")
            if hlp:
                seen.add("on")
                ok(r, "%s.written_only_when_stream_open_and_punch_on[path %d]" % (tag, i), proved(s.pc, on), repr(s.pc)[:160], backend="z3-5.1")
                good = len(hlp) == 1 and list(hlp[0].args) == [strm, fmt, val if not twin else fmt]
                ok(r, "%s.formats(value)_with_caller's_format_into_punch_ostream_once[path %d]" % (tag, i), good, repr(hlp)[:200], kind="trace")
            else:
                seen.add("off")
                ok(r, "%s.skipped_only_when_no_stream_or_punch_off[path %d]" % (tag, i), proved(s.pc, tm.not_(on)), repr(s.pc)[:160], backend="z3-5.1")
            oth = [e for e in evs(s) if e not in hlp]
            ok(r, "%s.nothing_else[path %d]" % (tag, i), not oth and not all_writes(s), repr(oth)[:160], kind="frame")
        reach(r, "reach.%s.on_and_off" % tag, seen == {"on", "off"}, repr(sorted(seen)))
    r.sha = hashlib.sha256("".join(x or "" for x in shas).encode()).hexdigest()
    return r


def unit_phreeqc_forwarders(twin=False):
    """The engine-side entry points hand everything to the io object unchanged: Phreeqc::fpunchf(name, format, value) x3 ->
    phrq_io->fpunchf(name, format, value); fpunchf_end_row(format) -> phrq_io->fpunchf_end_row(format); punch_msg(str) -> phrq_io->punch_msg(str)
    (each exactly when an io object exists); fpunchf_heading(name) -> punch_msg(name) exactly when punching is enabled and a current
    selected-output definition exists."""
    fn0 = A.find_function(PIOO, "Phreeqc::fpunchf", param_types=OVL[0][1])
    r = U.new_unit("C05.punch.Phreeqc_forwarders.arguments_unchanged", PIOO, "Phreeqc::fpunchf / fpunchf_heading / fpunchf_end_row / punch_msg", fn0)
    import hashlib
    shas = []
    def fwd(tag, q, find_kw, callee, args):
        f, ex, fin, _ = run(PIOO, q, find_kw=find_kw)
        shas.append(U.new_unit("x", PIOO, "f", f).sha)
        seen = set()
        for i, s in enumerate(alive(fin)):
            io = fld0(ex, s, "phrq_io", "P")
            E = evs(s)
            if E:
                seen.add("io")
                ok(r, "%s.forwards_only_when_io_object_exists[path %d]" % (tag, i), proved(s.pc, tm.not_(tm.eq(io, NULLP))), repr(s.pc)[:120], backend="z3-5.1")
                good = len(E) == 1 and short(E[0]) == callee and E[0].recv is io and len(E[0].args) == len(args) and all(proved(s.pc, tm.eq(ex.coerce(a, b.sort), b)) if a.sort != b.sort else a is b for a, b in zip(E[0].args, args))
                ok(r, "%s.one_call_of_%s_on_phrq_io_with_the_same_arguments[path %d]" % (tag, callee, i), good, repr(E)[:200], kind="trace")
            else:
                seen.add("none")
                ok(r, "%s.silent_only_without_io_object[path %d]" % (tag, i), proved(s.pc, tm.eq(io, NULLP)), repr(s.pc)[:120], backend="z3-5.1")
            ok(r, "%s.writes_nothing[path %d]" % (tag, i), not all_writes(s), "", kind="frame")
        reach(r, "reach.%s" % tag, seen == {"io", "none"}, repr(sorted(seen)))
    for tag, pt, vn, vs, pb in OVL:
        fq = A.find_function(PIOO, "Phreeqc::fpunchf", param_types=pt)
        vname = A.params_of(fq)[2].get("name")
        a = [param(0, "name", "P"), param(1, "format", "P"), param(2, vname, vs)]
        if twin and tag == "int":
            a = [a[1], a[0], a[2]]
        fwd("fpunchf_" + tag, "Phreeqc::fpunchf", {"param_types": pt}, "fpunchf", a)
    fwd("fpunchf_end_row", "Phreeqc::fpunchf_end_row", None, "fpunchf_end_row", [param(0, "format", "P")])
    fwd("punch_msg", "Phreeqc::punch_msg", None, "punch_msg", [param(0, "str", "P")])
    # heading
    c = ctx(); c.enum_values.update({"TRUE": 1, "FALSE": 0})
    f, ex, fin, _ = run(PIOO, "Phreeqc::fpunchf_heading", c=c)
    shas.append(U.new_unit("x", PIOO, "f", f).sha)
    seen = set()
    for i, s in enumerate(alive(fin)):
        pr = tm.app("fld:pr", (THIS,), "P")
        punch = fld0(ex, s, "punch", "I", pr)
        cso = fld0(ex, s, "current_selected_output", "P")
        on = tm.and_(tm.eq(punch, tm.num(1, "I")), tm.not_(tm.eq(cso, NULLP)))
        E = evs(s)
        if E:
            seen.add("on")
            ok(r, "fpunchf_heading.written_only_when_punching_enabled_and_a_definition_is_current[path %d]" % i, proved(s.pc, on), repr(s.pc)[:160], backend="z3-5.1")
            ok(r, "fpunchf_heading.heading_text_handed_to_punch_msg_once[path %d]" % i, len(E) == 1 and E[0].name == "Phreeqc::punch_msg" and E[0].recv is THIS and E[0].args[0] is param(0, "name", "P"), repr(E)[:160], kind="trace")
        else:
            seen.add("off")
            ok(r, "fpunchf_heading.skipped_only_when_disabled_or_no_definition[path %d]" % i, proved(s.pc, tm.not_(on)), repr(s.pc)[:160], backend="z3-5.1")
    reach(r, "reach.fpunchf_heading", seen == {"on", "off"}, repr(sorted(seen)))
    r.sha = hashlib.sha256("".join(x or "" for x in shas).encode()).hexdigest()
    r.assumptions += ["try bodies on the no-throw path", "TRUE == 1 (global_structures.h)"]
    return r


def unit_typed_pushback(twin=False):
    """CSelectedOutput::PushBackDouble / PushBackLong / PushBackString / PushBackEmpty(key, value): a variant holding exactly `value`
    (CVar(value): type TT_DOUBLE / TT_LONG with the number stored unchanged; TT_STRING owning a copy made by VarAllocString, TT_ERROR /
    VR_OUTOFMEMORY when that copy fails; TT_EMPTY for no value) is handed to PushBack under the SAME key, and PushBack's result returned."""
    tt = A.enum_values_compiled("Var.h", TT + ["VR_OUTOFMEMORY"])
    fn0 = A.find_function(CSO, "CSelectedOutput::PushBackDouble")
    r = U.new_unit("C05.table.typed_PushBack.cell_holds_exactly_the_value", CSO, "CSelectedOutput::PushBack{Double,Long,String,Empty} + CVar constructors", fn0)
    import hashlib
    shas = []
    key = param(0, "key", "P")
    for q, vs, nctor in (("PushBackDouble", "R", 1), ("PushBackLong", "I", 1), ("PushBackString", "P", 1), ("PushBackEmpty", None, 0)):
        f, ex, fin, _ = run(CSO, "CSelectedOutput::" + q)
        shas.append(U.new_unit("x", CSO, "f", f).sha)
        fin = alive(fin, ("ret",))
        if len(fin) != 1:
            ok(r, q + ".single_path", False, "%d" % len(fin)); continue
        s = fin[0]
        E = evs(s)
        ct = [e for e in E if e.name.startswith("ctor CVar")]
        pb = [e for e in E if e.name == "CSelectedOutput::PushBack"]
        good = len(ct) == 1 and len(ct[0].args) == nctor and (nctor == 0 or ct[0].args[0] is param(1, "value", vs))
        ok(r, q + ".variant_constructed_from_the_value_argument", good, repr(ct)[:160], kind="trace")
        good = len(pb) == 1 and pb[0].recv is THIS and len(ct) == 1 and list(pb[0].args) == [key if not (twin and q == "PushBackLong") else param(1, "value", "I"), ct[0].recv]
        ok(r, q + ".PushBack(same_key,that_variant)_on_this_table", good, repr(pb)[:160], kind="trace")
        ok(r, q + ".result_of_PushBack_returned", len(pb) == 1 and s.ret is pb[0].result and len(E) == 2, repr(s.ret)[:80])
    # the constructors
    c = ctx(); c.enum_values.update(tt); c.log_stores = True
    for tag, pt, fld_, so, ty in (("double", ["double"], "dVal", "R", "TT_DOUBLE"), ("long", ["long"], "lVal", "I", "TT_LONG")):
        f, ex, fin, _ = run(CSO, "CVar::CVar", c=c, find_kw={"param_types": pt})
        shas.append(U.new_unit("x", "src/CVar.hxx", "f", f).sha)
        fin = alive(fin)
        if len(fin) != 1:
            ok(r, "CVar(%s).single_path" % tag, False, ""); continue
        s = fin[0]
        t_ = [v for e, fn_, v in stores(s, THIS, "type")]
        v_ = [v for e, fn_, v in stores(s, THIS, fld_)]
        src = param(0, A.params_of(f)[0].get("name"), so)
        ok(r, "CVar(%s).type_%s" % (tag, ty), len(t_) == 1 and proved(s.pc, tm.eq(ex.coerce(t_[0], "I"), tm.num(tt[ty], "I"))), repr(t_))
        ok(r, "CVar(%s).value_stored_unchanged_in_%s" % (tag, fld_), len(v_) == 1 and v_[0] is src, repr(v_))
        ok(r, "CVar(%s).nothing_else" % tag, len(stores(s)) == 2 and not [e for e in evs(s) if e.name != "store"], repr(evs(s))[:160], kind="frame")
    f, ex, fin, _ = run(CSO, "CVar::CVar", c=c, find_kw={"param_types": []})
    fin = alive(fin)
    E = [e for e in evs(fin[0]) if e.name != "store"] if len(fin) == 1 else []
    ok(r, "CVar().initialised_by_VarInit(this)", len(E) == 1 and E[0].name == "VarInit" and E[0].args[0] is THIS, repr(E)[:120], kind="trace")
    f, ex, fin, _ = run(CSO, "CVar::CVar", c=c, find_kw={"param_types": ["const char *"]})
    fin = alive(fin)
    E = [e for e in evs(fin[0]) if e.name != "store"] if len(fin) == 1 else []
    t_ = [v for e, fn_, v in stores(fin[0], THIS, "type")] if len(fin) == 1 else []
    good = len(E) == 1 and E[0].name.endswith("operator=") and E[0].recv is THIS and E[0].args[0] is param(0, "pszSrc", "P") and len(t_) == 1 and proved(fin[0].pc, tm.eq(ex.coerce(t_[0], "I"), tm.num(tt["TT_EMPTY"], "I")))
    ok(r, "CVar(text).starts_empty_then_assigns_the_text", good, repr(E)[:160], kind="trace")
    f, ex, fin, _ = run(CSO, "CVar::operator=", c=c, find_kw={"param_types": ["const char *"]})
    shas.append(U.new_unit("x", "src/CVar.hxx", "f", f).sha)
    seen = set()
    srcp = param(0, "pszSrc", "P")
    for i, s in enumerate(alive(fin, ("ret",))):
        E = [e for e in evs(s) if e.name != "store"]
        al = [e for e in E if e.name == "VarAllocString"]
        names = [short(e) for e in E]
        good = len(al) == 1 and al[0].args[0] is srcp and "Clear" in names and names.index("Clear") < names.index("VarAllocString")
        ok(r, "CVar=text.old_value_cleared_then_copy_of_the_text_allocated[path %d]" % i, good, repr(names), kind="trace")
        if not good:
            continue
        t_ = [v for e, fn_, v in stores(s, THIS, "type")]
        sv = [v for e, fn_, v in stores(s, THIS, "sVal")]
        ok(r, "CVar=text.sVal_is_the_allocated_copy[path %d]" % i, len(sv) == 1 and sv[0] is al[0].result, repr(sv))
        failed = tm.and_(tm.eq(al[0].result, NULLP), tm.not_(tm.eq(srcp, NULLP)))
        last = ex.coerce(t_[-1], "I") if t_ else None
        if last is not None and proved(s.pc, tm.eq(last, tm.num(tt["TT_ERROR"], "I"))):
            seen.add("oom")
            ok(r, "CVar=text.error_typed_only_when_the_copy_failed[path %d]" % i, proved(s.pc, failed), repr(s.pc)[:160], backend="z3-5.1")
            vr = [v for e, fn_, v in stores(s, THIS, "vresult")]
            ok(r, "CVar=text.failed_copy_reported_as_VR_OUTOFMEMORY[path %d]" % i, len(vr) == 1 and proved(s.pc, tm.eq(ex.coerce(vr[0], "I"), tm.num(tt["VR_OUTOFMEMORY"], "I"))), repr(vr))
        else:
            seen.add("ok")
            ok(r, "CVar=text.type_TT_STRING_unless_the_copy_failed[path %d]" % i, last is not None and proved(s.pc, tm.eq(last, tm.num(tt["TT_STRING"], "I"))) and proved(s.pc, tm.not_(failed)), repr(t_) + repr(s.pc)[:120], backend="z3-5.1")
    reach(r, "reach.CVar=text.copy_ok_and_failed", seen == {"ok", "oom"}, repr(sorted(seen)))
    r.sha = hashlib.sha256("".join(x or "" for x in shas).encode()).hexdigest()
    r.assumptions += ["::VarInit / ::VarClear / ::VarAllocString: Engine-A units C05.Var.*", "CSelectedOutput::PushBack: unit C05.table.PushBack (it copies the variant into the cell)"]
    return r


UNITS = [
    ("C05.punch.IPhreeqc_punch_msg.same_text_to_string_and_file", unit_punch_msg),
    ("C05.punch.IPhreeqc_fpunchf.one_call_feeds_file_string_and_table", unit_fpunchf),
    ("C05.punch.PHRQ_io_fpunchf.file_cell_iff_stream_open_and_punch_on", unit_phrq_io_fpunchf),
    ("C05.punch.Phreeqc_forwarders.arguments_unchanged", unit_phreeqc_forwarders),
    ("C05.table.typed_PushBack.cell_holds_exactly_the_value", unit_typed_pushback),
]


# ---------------------------------------------------------------------------------------------------------------- USER_PUNCH
def _calls(n, name):
    out = []
    for x in A.walk(n):
        if x.get("kind") in ("CXXMemberCallExpr", "CallExpr") and x.get("inner"):
            c = strip(x["inner"][0])
            if c.get("name") == name or c.get("referencedDecl", {}).get("name") == name:
                out.append(x)
    return out


def _heading_elem(ex, s, cup, idx):
    hv = tm.app("call:Get_headings", (cup,), "P")
    data = tm.select(ex.heap_arr(s, ("f", "#vdata", "P")), hv)
    return hv, tm.app("c_str", (tm.select(ex.heap_arr(s, ("m", "S")), data, idx),), "P")


def unit_user_punch(twin=False):
    """USER_PUNCH columns.  (1) Phreeqc::fpunchf_user(i, format, value) (both overloads): value i is delivered under the column name
    heading i of the current USER_PUNCH when i < number of headings, otherwise under the name just rendered into the scratch buffer
    ('no_heading_<k>', unit C05.punch.fpunchf_user_overloads), with format and value unchanged.  (2) punch_user_punch starts every row at
    value index 0 and runs the BASIC program only when a USER_PUNCH exists for the definition and the definition enables it - (3) the very
    condition under which tidy_punch wrote the USER_PUNCH headings, one heading line cell per heading, in index order."""
    fn0 = A.find_function(PIOO, "Phreeqc::fpunchf_user", param_types=["int", "const char *", "double"])
    r = U.new_unit("C05.user_punch.cell_i_under_heading_i.values_iff_headings", PIOO, "Phreeqc::fpunchf_user / punch_user_punch / tidy_punch (USER_PUNCH block)", fn0)
    import hashlib
    shas = []
    ui, fmt = param(0, "user_index", "I"), param(1, "format", "P")
    for tag, pt, vs in (("double", ["int", "const char *", "double"], "R"), ("string", ["int", "const char *", "char *"], "P")):
        f, ex, fin, _ = run(PIOO, "Phreeqc::fpunchf_user", c=ctx(functional=("Get_headings", "c_str", "size")), find_kw={"param_types": pt})
        shas.append(U.new_unit("x", PIOO, "f", f).sha)
        val = param(2, "d", vs)
        seen = set()
        for i, s in enumerate(alive(fin)):
            cup = fld0(ex, s, "current_user_punch", "P")
            io = fld0(ex, s, "phrq_io", "P")
            hv, elem = _heading_elem(ex, s, cup, ui)
            cnt = tm.select(ex.heap_arr(s, ("f", "#vsize", "I")), hv)
            fp = [e for e in evs(s) if e.name.endswith("::fpunchf")]
            if not fp:
                ok(r, "%s.value_dropped_only_without_USER_PUNCH_or_io_object[path %d]" % (tag, i), proved(s.pc, tm.or_(tm.eq(cup, NULLP), tm.eq(io, NULLP))), repr(s.pc)[:200], backend="z3-5.1")
                continue
            good = len(fp) == 1 and fp[0].recv is io and fp[0].args[1] is fmt and proved(s.pc, tm.eq(ex.coerce(fp[0].args[2], vs), val))
            ok(r, "%s.format_and_value_delivered_unchanged_once[path %d]" % (tag, i), good, repr(fp)[:200], kind="trace")
            sn = evs(s, "snprintf")
            if sn:
                seen.add("extra")
                ok(r, "%s.synthesized_name_only_beyond_the_headings[path %d]" % (tag, i), proved(s.pc, tm.le(cnt, ui)), repr(s.pc)[:200], backend="z3-5.1")
                ok(r, "%s.name_is_the_buffer_just_rendered[path %d]" % (tag, i), len(sn) == 1 and fp[0].args[0] is sn[0].args[0], repr(fp[0].args[0])[:100], kind="trace")
            else:
                seen.add("headed")
                ok(r, "%s.heading_used_only_for_index_below_the_count[path %d]" % (tag, i), proved(s.pc, tm.lt(ui, cnt)), repr(s.pc)[:200], backend="z3-5.1")
                want = elem if not (twin and tag == "string") else _heading_elem(ex, s, cup, tm.add(ui, tm.num(1, "I")))[1]
                ok(r, "%s.name_is_heading[user_index]_of_the_current_USER_PUNCH[path %d]" % (tag, i), fp[0].args[0] is want, "%r" % (fp[0].args[0],), kind="trace")
        reach(r, "reach.%s.headed_and_extra" % tag, seen == {"headed", "extra"}, repr(sorted(seen)))
    # (2) punch_user_punch
    f, ex, fin, _ = run(PRINT, "Phreeqc::punch_user_punch", c=ctx(functional=("Get_rate", "Get_user_punch")))
    shas.append(U.new_unit("x", PRINT, "f", f).sha)
    seen = set()
    def cond_of(ex_, s_):
        cup = fld0(ex_, s_, "current_user_punch", "P"); cso = fld0(ex_, s_, "current_selected_output", "P")
        return tm.and_(tm.not_(tm.eq(cup, NULLP)), tm.to_bool(tm.app("call:Get_user_punch", (cso,), "B")))
    for i, s in enumerate(alive(fin, ("ret",))):
        w = [v for k, ix, v in all_writes(s) if k[1] == "n_user_punch_index"]
        ok(r, "punch_user_punch.row_starts_at_value_index_0[path %d]" % i, len(w) >= 1 and all(tm.isnum(v) and v.args[0] == 0 for v in w), repr(w))
        runs = evs(s, "basic_run")
        cond = cond_of(ex, s)
        if runs:
            seen.add("run")
            ok(r, "punch_user_punch.program_runs_only_when_USER_PUNCH_exists_and_is_enabled[path %d]" % i, proved(s.pc, cond), repr(s.pc)[:200], backend="z3-5.1")
        else:
            seen.add("skip")
            rate = tm.app("call:Get_rate", (fld0(ex, s, "current_user_punch", "P"),), "P")
            nocmd = tm.eq(tm.app("c_str", (fld0(ex, s, "commands", "S", rate),), "P"), NULLP)
            ok(r, "punch_user_punch.program_skipped_only_without_enabled_USER_PUNCH(or_without_program)[path %d]" % i, proved(s.pc, tm.or_(tm.not_(cond), nocmd)), repr(s.pc)[:200], backend="z3-5.1")
    reach(r, "reach.punch_user_punch.run_and_skip", seen == {"run", "skip"}, repr(sorted(seen)))
    # (3) tidy_punch: USER_PUNCH heading block
    q = "Phreeqc::tidy_punch"
    ft = A.find_function(TIDY, q)
    shas.append(U.new_unit("x", TIDY, "f", ft).sha)
    loops = [x for x in A.walk(ft) if x.get("kind") in ("ForStmt", "WhileStmt", "DoStmt")]
    hl = [k for k, lp in enumerate(loops) if lp.get("kind") == "ForStmt" and _calls(lp["inner"][-1], "Get_headings") and _calls(lp["inner"][-1], "fpunchf_heading")]      # located by what the body does
    hl = [k for k in hl if not any(j != k and any(y is loops[j] for y in A.walk(loops[k])) for j in hl)]      # the innermost such loop
    if len(hl) != 1:
        raise Undecided("tidy_punch: %d loops over Get_headings() that write headings" % len(hl))
    ifs = [x for x in A.walk(ft) if x.get("kind") == "IfStmt" and len(x["inner"]) >= 2 and any(y is loops[hl[0]] for y in A.walk(x["inner"][1]))]
    guard = ifs[-1] if ifs else None          # innermost if whose then-branch holds the loop
    cfun = ("Get_headings", "Get_user_punch", "size")
    entries = []
    c2 = ctx(functional=cfun)
    c2.loop = lambda ex_, st, n, o: (entries.append(st.clone()), ex_.havoc_loop(n, st))[1]
    if guard is None:
        raise Undecided("tidy_punch: USER_PUNCH heading loop is not inside an if")
    f2, ex2, sts, info2 = region(TIDY, q, [guard], c2)
    if not entries:
        ok(r, "tidy_punch.heading_loop_reachable", False, ""); return r
    cover = tm.or_(*[tm.and_(*e.pc) for e in entries])
    U.discharge_valid(r, "tidy_punch.USER_PUNCH_headings_written_exactly_when_values_will_be_punched", [], tm.eq(cover, cond_of(ex2, entries[0])))
    f3, ex3, its, info3 = U.run_loop_isolated(TIDY, q, hl[0], ctx=ctx(functional=cfun))
    n = 0
    for s in [x for x in its if x.status in ("run", "cont") and B.z3_sat(list(x.pc)) != "unsat"]:
        n += 1
        E = [e for e in U.iter_events(s) if not isinstance(e, tuple)]
        hd = [e for e in E if short(e) == "fpunchf_heading"]
        sf = [e for e in E if short(e) == "sformatf"]
        iv = None
        for nm in info3["names"]:
            pass
        lp = loops[hl[0]]
        ivn = [d.get("name") for d in A.walk(lp["inner"][0]) if d.get("kind") == "VarDecl"] if lp["inner"][0] else []
        iv = U.local_of(info3, s, ivn[0]) if ivn else None
        cup = fld0(ex3, s, "current_user_punch", "P")
        good = len(hd) == 1 and len(sf) == 1 and hd[0].args[0] is sf[0].result and iv is not None and sf[0].args[-1] is _heading_elem(ex3, s, cup, iv)[1]
        ok(r, "tidy_punch.one_heading_cell_per_heading,text_of_heading_i", good, repr(sf)[:200], kind="trace")
    reach(r, "reach.tidy_punch.heading_iteration", n >= 1, "%d" % n)
    allp = [x for x in its if B.z3_sat(list(x.pc)) != "unsat"]
    if allp and ivn:
        s_ = allp[0]
        cup_ = fld0(ex3, s_, "current_user_punch", "P")
        hv_, _e = _heading_elem(ex3, s_, cup_, tm.num(0, "I"))
        want_c = tm.lt(tm.sym("iter_" + ivn[0], "I"), tm.select(ex3.heap_arr(SX.State(), ("f", "#vsize", "I")), hv_))
        U.discharge_valid(r, "tidy_punch.heading_loop_runs_exactly_while_index<number_of_headings", [], tm.eq(tm.or_(*[tm.and_(*x.pc) for x in allp]), want_c), kind="establishment")
    # the heading loop visits every index from 0
    lp = loops[hl[0]]
    init_ok = False
    if lp["inner"][0]:
        for d in A.walk(lp["inner"][0]):
            if d.get("kind") == "VarDecl" and d.get("inner"):
                try:
                    v0 = StaticOK(ctx()).ev(d["inner"][0], SX.State())[0][1]
                    init_ok = tm.isnum(v0) and v0.args[0] == 0
                except Exception:
                    init_ok = False
    ok(r, "tidy_punch.heading_loop_starts_at_0", init_ok, text_of(TIDY, lp["inner"][0]) if lp["inner"][0] else "")
    r.sha = hashlib.sha256("".join(x or "" for x in shas).encode()).hexdigest()
    r.assumptions += ["UserPunch::Get_headings / SelectedOutput::Get_user_punch / UserPunch::Get_rate are accessors (functions of their object)",
                      "the BASIC PUNCH statement passes n_user_punch_index and increments it (PBasic::cmdpunch, not under this unit)",
                      "tidy_punch outside the USER_PUNCH block is not executed by this unit (statement contract)"]
    return r


UNITS.append(("C05.user_punch.cell_i_under_heading_i.values_iff_headings", unit_user_punch))


# ------------------------------------------------------------------------------------- per-definition binding of stream / USER_PUNCH
def _assigns(n, name):
    return any(x.get("kind") == "BinaryOperator" and x.get("opcode") == "=" and strip(x["inner"][0]).get("name") == name for x in A.walk(n))


def _so_loops(fn, rel):
    """the per-definition loops, located by what their body does (it makes a definition current: assigns current_selected_output), not by
    the text of their head"""
    loops = [x for x in A.walk(fn) if x.get("kind") in ("ForStmt", "WhileStmt", "DoStmt")]
    out = []
    for k, lp in enumerate(loops):
        body = lp["inner"][-1]
        direct = [st for st in (body.get("inner", []) if body.get("kind") == "CompoundStmt" else [body])]
        if any(_assigns(st, "current_selected_output") and st.get("kind") in ("BinaryOperator", "ExprWithCleanups") for st in direct):
            out.append(k)
    return loops, out


def _binding_obligations(r, tag, ex, s, E, so_name, twin=False):
    """events E of one visit of a definition: the definition becomes current, the io object gets ITS stream, the USER_PUNCH looked up under
    ITS user number becomes current - all before any value / heading is written"""
    cs = [(e, v) for e, f_, v in stores(s, THIS, "current_selected_output") if e in E]
    if not cs:
        ok(r, tag + ".definition_becomes_current", False, "no store to current_selected_output"); return None
    d = cs[0][1]
    ok(r, tag + ".the_visited_definition_becomes_current", len(cs) == 1 and "mnode(%s)" % so_name in repr(d) and "fld:second" in repr(d), repr(d)[:120], kind="trace")
    sp = [e for e in E if short(e) == "Set_punch_ostream"]
    want = tm.app("call:Get_punch_ostream", (d,), "P")
    ok(r, tag + ".io_object_gets_the_stream_of_that_definition", len(sp) == 1 and sp[0].recv is fld0(ex, s, "phrq_io", "P") and sp[0].args[0] is want, repr(sp)[:200], kind="trace")
    up = [(e, v) for e, f_, v in stores(s, THIS, "current_user_punch") if e in E]
    nu = tm.app("call:Get_n_user", (d,), "I") if not twin else tm.num(1, "I")
    m = tm.app("fld:UserPunch_map", (THIS,), "P")
    has = tm.select(ex.heap_arr(s, ("m2", "#mhas", "B", "I")), m, nu)
    good = len(up) == 1
    if good:
        v = up[0][1]
        good = proved([tm.not_(has)], tm.eq(v, NULLP)) and not proved([has], tm.eq(v, NULLP)) and "UserPunch_map" in repr(v) and nu in tm.subterms(v) \
            and not [k_ for k_ in tm.subterms(v) if k_.op == "app" and k_.args[0] == "call:Get_n_user" and k_ is not nu]
    ok(r, tag + ".USER_PUNCH_of_that_definition's_user_number_becomes_current(or_none)", good, repr(up)[:260], kind="trace")
    return d, cs[0][0], (sp[0] if sp else None), (up[0][0] if up else None)


def unit_definition_binding(twin=False):
    """Each SELECTED_OUTPUT definition is written through ITS OWN stream and with the USER_PUNCH of ITS OWN user number: in the row loop of
    punch_all and in the heading loop of tidy_punch the visited definition becomes current_selected_output, phrq_io's punch stream becomes
    that definition's stream and current_user_punch the entry of UserPunch_map under that definition's user number (NULL when there is none),
    all before anything is written; punch_all writes one row (each punch_* routine once, USER_PUNCH last, end of row signalled once
    afterwards) for every active definition while punching is enabled and nothing for the others."""
    q = "Phreeqc::punch_all"
    fn = A.find_function(PRINT, q)
    r = U.new_unit("C05.rows.each_definition_through_its_own_stream_and_user_punch", PRINT, "Phreeqc::punch_all / tidy_punch (definition loops)", fn)
    import hashlib
    loops, so = _so_loops(fn, PRINT)
    so = [k for k in so if _calls(loops[k]["inner"][-1], "punch_user_punch")]
    if len(so) != 1:
        raise Undecided("punch_all: %d loops that make a definition current and punch it" % len(so))
    fun = ("Get_n_user", "Get_punch_ostream", "Get_active", "Get_new_line", "Get_output_newline", "Get_new_def", "Get_high_precision")
    c = ctx(functional=fun); c.enum_values.update({"TRUE": 1, "FALSE": 0}); c.log_stores = True
    f, ex, its, info = U.run_loop_isolated(PRINT, q, so[0], ctx=c)
    def _itvar(lp):
        for st in lp["inner"][-1].get("inner", []):
            if _assigns(st, "current_selected_output"):
                for d in A.walk(st):
                    if d.get("kind") == "DeclRefExpr" and d.get("referencedDecl", {}).get("kind") == "VarDecl" and "iterator" in d.get("type", {}).get("qualType", ""):
                        return d["referencedDecl"].get("name")
        return "so_it"
    itn = "iter_" + _itvar(loops[so[0]])
    seen = set()
    for i, s in enumerate([x for x in its if x.status in ("run", "cont") and B.z3_sat(list(x.pc)) != "unsat"]):
        E = [e for e in U.iter_events(s) if not isinstance(e, tuple)]
        writers = [e for e in E if short(e).startswith("punch_") and short(e) not in ("punch_flush",)]
        ends = [e for e in E if short(e) == "fpunchf_end_row"]
        cs = [v for e, f_, v in stores(s, THIS, "current_selected_output") if e in E]
        d = cs[0] if cs else None
        if d is None:
            ok(r, "punch_all.definition_becomes_current[path %d]" % i, False, ""); continue
        active = tm.and_(tm.not_(tm.eq(fld0(ex, s, "punch", "I", tm.app("fld:pr", (THIS,), "P")), tm.num(0, "I"))), tm.to_bool(tm.app("call:Get_active", (d,), "B")))
        if writers or ends:
            seen.add("row")
            ok(r, "punch_all.row_written_only_for_an_active_definition_while_punching_is_enabled[path %d]" % i, proved(s.pc, active), repr(s.pc)[:200], backend="z3-5.1")
            b = _binding_obligations(r, "punch_all[path %d]" % i, ex, s, E, itn, twin=twin)
            if b:
                pos = {id(e): k for k, e in enumerate(E)}
                first = min(pos[id(e)] for e in writers) if writers else len(E)
                ok(r, "punch_all.bound_before_anything_is_written[path %d]" % i, all(x is not None and pos[id(x)] < first for x in b[1:]), "", kind="trace")
            names = [short(e) for e in writers if short(e) != "punch_msg"]
            ok(r, "punch_all.each_block_once_and_USER_PUNCH_last[path %d]" % i, len(names) == len(set(names)) and names and names[-1] == "punch_user_punch", repr(names), kind="trace")
            pos = {id(e): k for k, e in enumerate(E)}
            ok(r, "punch_all.end_of_row_signalled_once_after_all_cells_and_the_newline[path %d]" % i, len(ends) == 1 and all(pos[id(e)] < pos[id(ends[0])] for e in writers), repr([short(e) for e in E])[:200], kind="trace")
        else:
            seen.add("skip")
            ok(r, "punch_all.definition_skipped_only_when_inactive_or_punching_disabled[path %d]" % i, proved(list(s.pc) + [tm.not_(tm.eq(d, NULLP))], tm.not_(active)), repr(s.pc)[:200], backend="z3-5.1")
    reach(r, "reach.punch_all.row_and_skip", seen == {"row", "skip"}, repr(sorted(seen)))
    allp = [x for x in its if B.z3_sat(list(x.pc)) != "unsat"]
    if allp:
        mp = tm.app("fld:SelectedOutput_map", (THIS,), "P")
        want_c = tm.not_(tm.eq(tm.sym(itn, "P"), tm.app("mend", (mp,), "P")))
        U.discharge_valid(r, "punch_all.every_definition_is_visited(loop_runs_exactly_until_the_end_of_SelectedOutput_map)", [], tm.eq(tm.or_(*[tm.and_(*x.pc) for x in allp]), want_c), kind="establishment")
        ent = info.get("inner_entries", {})
    fnb = [e for e in A.walk(fn) if e.get("kind") == "CXXMemberCallExpr" and strip(e["inner"][0]).get("name") == "begin" and any(y.get("kind") == "MemberExpr" and y.get("name") == "SelectedOutput_map" for y in A.walk(e))]
    ok(r, "punch_all.walk_starts_at_SelectedOutput_map.begin()", len(fnb) >= 1, "%d begin() calls on SelectedOutput_map" % len(fnb), kind="establishment")
    # tidy_punch: head of the heading loop
    qt = "Phreeqc::tidy_punch"
    ft = A.find_function(TIDY, qt)
    loops_t, so_t = _so_loops(ft, TIDY)
    cand = [k for k in so_t if _calls(loops_t[k]["inner"][-1], "fpunchf_heading")]
    if len(cand) != 1:
        raise Undecided("tidy_punch: %d definition loops that write headings" % len(cand))
    body = loops_t[cand[0]]["inner"][-1].get("inner", [])
    cut = [k for k, st in enumerate(body) if _assigns(st, "current_user_punch")]
    if not cut:
        raise Undecided("tidy_punch: current_user_punch is not assigned in the heading loop")
    c = ctx(functional=fun); c.enum_values.update({"TRUE": 1, "FALSE": 0}); c.log_stores = True
    f2, ex2, sts, info2 = region(TIDY, qt, body[:cut[0] + 1], c)
    itn2 = "L_" + _itvar(loops_t[cand[0]])
    n = 0
    for i, s in enumerate(live(sts, ("run",))):
        n += 1
        E = [e for e in s.events if not isinstance(e, tuple)]
        _binding_obligations(r, "tidy_punch[path %d]" % i, ex2, s, E, itn2, twin=False)
    later = [k for k, st in enumerate(body) if _calls(st, "fpunchf_heading")]
    ok(r, "tidy_punch.bound_before_any_heading_is_written", bool(later) and min(later) > cut[0], "first heading statement %s, binding ends at statement %d" % (later[:1], cut[0]), kind="trace")
    reach(r, "reach.tidy_punch.heading_paths", n >= 1, "%d" % n)
    r.sha = hashlib.sha256(((U.new_unit("x", PRINT, "f", fn).sha or "") + (U.new_unit("x", TIDY, "f", ft).sha or "")).encode()).hexdigest()
    r.assumptions += ["SelectedOutput accessors (Get_n_user, Get_punch_ostream, Get_active, ...) are functions of their object", "std::map::find / end model; &(it->second) is never NULL",
                      "the punch_* routines write cells only through fpunchf / fpunchf_user (their bodies are not under this unit)", "the rest of tidy_punch's loop body (heading blocks) is not executed by this unit (statement contract)"]
    return r


UNITS.append(("C05.rows.each_definition_through_its_own_stream_and_user_punch", unit_definition_binding))


# ---------------------------------------------------------------------------------------------------------------- counts
def unit_counts(twin=False):
    """IPhreeqc::GetSelectedOutputRowCount / GetSelectedOutputColumnCount: the row / column count of the table kept for the CURRENT user
    number (CSelectedOutput::GetRowCount / GetColCount of exactly that table, result returned unchanged), 0 when no table exists for it;
    nothing is written."""
    fn0 = A.find_function(IPQ, "IPhreeqc::GetSelectedOutputRowCount")
    r = U.new_unit("C05.counts.of_the_table_of_the_current_user_number", IPQ, "IPhreeqc::GetSelectedOutputRowCount / GetSelectedOutputColumnCount", fn0)
    import hashlib
    shas = []
    for q, callee in (("GetSelectedOutputRowCount", "GetRowCount"), ("GetSelectedOutputColumnCount", "GetColCount")):
        f, ex, fin, _ = run(IPQ, "IPhreeqc::" + q)
        shas.append(U.new_unit("x", IPQ, "f", f).sha)
        seen = set()
        for i, s in enumerate(alive(fin, ("ret",))):
            cur = fld0(ex, s, "CurrentSelectedOutputUserNumber", "I")
            m = tm.app("fld:SelectedOutputMap", (THIS,), "P")
            has = tm.select(ex.heap_arr(s, ("m2", "#mhas", "B", "I")), m, cur)
            tab = tm.select(ex.heap_arr(s, ("m2", "#mval", "P", "I")), m, cur if not (twin and q == "GetSelectedOutputRowCount") else tm.num(1, "I"))
            E = evs(s)
            if E:
                seen.add("table")
                ok(r, "%s.table_consulted_only_when_one_exists_for_the_current_user_number[path %d]" % (q, i), proved(s.pc, has), repr(s.pc)[:200], backend="z3-5.1")
                good = len(E) == 1 and E[0].name == "CSelectedOutput::" + callee and E[0].recv is tab
                ok(r, "%s.%s_of_exactly_that_table[path %d]" % (q, callee, i), good, repr(E)[:200], kind="trace")
                U.discharge_valid(r, "%s.result_returned_unchanged[path %d]" % (q, i), list(s.pc), tm.eq(ex.coerce(s.ret, "I"), ex.coerce(E[0].result, "I")))
            else:
                seen.add("none")
                ok(r, "%s.zero_only_without_table_for_the_current_user_number[path %d]" % (q, i), proved(s.pc, tm.not_(has)) and tm.isnum(s.ret) and s.ret.args[0] == 0, "%r under %r" % (s.ret, s.pc), backend="z3-5.1")
            ok(r, "%s.writes_nothing[path %d]" % (q, i), not all_writes(s), "", kind="frame")
        reach(r, "reach.%s.table_and_none" % q, seen == {"table", "none"}, repr(sorted(seen)))
    r.sha = hashlib.sha256("".join(x or "" for x in shas).encode()).hexdigest()
    r.assumptions += ["CSelectedOutput::GetRowCount / GetColCount: unit C05.table.GetRowCount_GetColCount", "counts fit an int (the (int) casts are value-preserving)"]
    return r


def unit_value_f(twin=False):
    """GetSelectedOutputValueF (Fortran binding of the cell accessor): same contract as C13.fglue.special_cases, listed under C05 because the
    property names it: cell (*row, *col - 1), heading row 0 in both bindings, integer cells reported as doubles, text blank-padded with the
    caller's length."""
    from props import c13_ext as X
    r = X.unit_fglue_special(twin=twin)
    r.id = "C05.fortran.GetSelectedOutputValueF.cell(row,col-1)_type_value_and_padded_text"
    r.obligations = [o for o in r.obligations if o.name.startswith("ValueF") or o.name.startswith("reach.ValueF")]
    return r


UNITS += [("C05.counts.of_the_table_of_the_current_user_number", unit_counts),
          ("C05.fortran.GetSelectedOutputValueF.cell(row,col-1)_type_value_and_padded_text", unit_value_f)]


# ---------------------------------------------------------------------------------------------------------------- BASIC PUNCH statement
def unit_cmdpunch(twin=False):
    """PBasic::cmdpunch (the BASIC statement PUNCH a, b$, ...), one pass of its loop from an arbitrary state: an evaluated expression that is
    not suppressed is delivered by exactly one fpunchf_user call under the CURRENT value index n_user_punch_index with the expression's own
    value (text for a string, number for a number), after which the index advances by exactly one; a suppressed value or a separator token
    delivers nothing and leaves the index alone.  Numbers are rendered with 12 decimals under -high_precision of the current definition
    and 4 otherwise."""
    PB = "src/phreeqcpp/PBasic.cpp"
    from props import C17
    q = "PBasic::cmdpunch"
    fn = A.find_function(PB, q)
    r = U.new_unit("C05.user_punch.PUNCH_statement.one_cell_per_value_at_the_running_index", PB, q, fn)
    c = C17.mkctx({}); c.functional.update(("Get_high_precision", "strlen", "iseos")); c.log_stores = True
    f, ex, its, info = U.run_loop_isolated(PB, q, 0, ctx=c)
    seen = set()
    for i, s in enumerate([x for x in its if x.status in ("run", "cont") and B.z3_sat(list(x.pc)) != "unsat"]):
        E = [e for e in U.iter_events(s) if not isinstance(e, tuple)]
        pp = fld0(ex, s, "PhreeqcPtr", "P")
        idx0 = fld0(ex, s, "n_user_punch_index", "I", pp)
        skip0 = fld0(ex, s, "skip_punch", "B")
        xs = [e for e in E if e.name == "PBasic::expr"]
        fu = [e for e in E if short(e) == "fpunchf_user"]
        ist = [v for e, f_, v in stores(s, pp, "n_user_punch_index") if e in E]
        if fu:
            seen.add("cell")
            ok(r, "cell_delivered_only_for_an_evaluated_unsuppressed_value[path %d]" % i, len(xs) == 1 and proved(s.pc, tm.not_(skip0)), repr(s.pc)[:160], backend="z3-5.1")
            good = len(fu) == 1 and fu[0].recv is pp and fu[0].args[0] is (idx0 if not twin else tm.add(idx0, tm.num(1, "I")))
            ok(r, "exactly_one_cell_under_the_running_index[path %d]" % i, good, repr(fu)[:200], kind="trace")
            if len(xs) == 1 and len(fu) == 1:
                res = xs[0].result
                isstr = tm.select(ex.heap_arr(s, ("f", "stringval", "B")), res)
                isstr0 = fld0(ex, s, "stringval", "B", res)
                uu = tm.app("fld:UU", (res,), "P")
                v = fu[0].args[2]
                if v.sort == "P":
                    ok(r, "text_cell_is_the_expression's_text[path %d]" % i, v is fld0(ex, s, "sval", "P", uu) and proved(s.pc, isstr0), repr(v)[:120])
                else:
                    ok(r, "numeric_cell_is_the_expression's_number[path %d]" % i, ex.coerce(v, "R") is fld0(ex, s, "val", "R", uu) and proved(s.pc, tm.not_(isstr0)), repr(v)[:120])
                    cso = fld0(ex, s, "current_selected_output", "P", pp)
                    hp = tm.ite(tm.not_(tm.eq(cso, NULLP)), tm.to_bool(tm.app("call:Get_high_precision", (cso,), "B")), tm.to_bool(fld0(ex, s, "high_precision", "B", pp)))
                    fmt = strlit(fu[0].args[1]) or ""
                    if ".12e" in fmt:
                        ok(r, "12_decimals_only_under_high_precision_of_the_current_definition[path %d]" % i, proved(s.pc, hp), repr(s.pc)[:200], backend="z3-5.1")
                    elif ".4e" in fmt:
                        ok(r, "4_decimals_only_without_high_precision[path %d]" % i, proved(s.pc, tm.not_(hp)), repr(s.pc)[:200], backend="z3-5.1")
                    else:
                        ok(r, "numeric_format_is_one_of_the_two_documented[path %d]" % i, False, fmt)
            ok(r, "index_advances_by_exactly_one[path %d]" % i, len(ist) == 1 and proved(s.pc, tm.eq(ist[0], tm.add(idx0, tm.num(1, "I")))), repr(ist)[:160])
        else:
            seen.add("none")
            if xs:
                ok(r, "value_dropped_only_when_suppressed[path %d]" % i, proved(s.pc, skip0), repr(s.pc)[:160], backend="z3-5.1")
            ok(r, "no_cell_no_index_change[path %d]" % i, not ist, repr(ist)[:160], kind="frame")
    reach(r, "reach.cell_and_no_cell", seen == {"cell", "none"}, repr(sorted(seen)))
    r.assumptions += ["PBasic::expr returns an arbitrary value record (C17 units)", "fpunchf_user: units C05.punch.fpunchf_user_overloads / C05.user_punch.*", "valrec copy modelled member-wise (props/C17.py)"]
    return r


UNITS.append(("C05.user_punch.PUNCH_statement.one_cell_per_value_at_the_running_index", unit_cmdpunch))
from props.c05_ext3 import UNITS as _U3; UNITS = UNITS + _U3
from props.c05_ext4 import UNITS as _U4; UNITS = UNITS + _U4
from props.c05_ext5 import UNITS as _U5; UNITS = UNITS + _U5
